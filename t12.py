import sys, time
sys.path[:0]=['/verif','/verif/.deps']
sys.setrecursionlimit(100000)
from pyvc.contract import generate, REG
from pyvc.solve import to_smt2
import pyvc.engine as E
import contracts.all, z3
c = REG.contracts[sys.argv[1]]
run = generate(c)
for vc in run.vcs:
    if vc.kind == sys.argv[2] and sys.argv[3] in vc.label:
        s = z3.Solver(); s.set("timeout", 5000)
        for h in vc.hyps: s.add(h)
        s.add(z3.Not(vc.goal))
        t=time.time(); print("no axioms:", s.check(), time.time()-t)
        ax = E.str_axioms()
        for i, a in enumerate(ax):
            s2 = z3.Solver(); s2.set("timeout", 5000)
            for h in vc.hyps: s2.add(h)
            s2.add(z3.Not(vc.goal)); s2.add(a)
            t=time.time(); r=s2.check(); print(i, r, round(time.time()-t,2), str(a)[:150].replace("\n"," "))
        break
from pyvc.solve import solve_one
for vc in run.vcs:
    if vc.kind == sys.argv[2] and sys.argv[3] in vc.label:
        txt = to_smt2(vc)
        open('/tmp/vc.smt2','w').write(txt)
        print(solve_one((0, txt, False))["trail"])
        break
