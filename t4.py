import sys
sys.setrecursionlimit(100000)
import contracts.all
from pyvc.contract import REG, generate
from pyvc.solve import solve_all
c=REG.contracts[sys.argv[1]]
run=generate(c)
sel=[vc for vc in run.vcs if sys.argv[2] in vc.label and vc.kind!='canary']
res=solve_all(sel)
for vc,r in zip(sel,res):
    print(r['verdict'], round(r['time'],2), vc.label[:60])
    if r['verdict']!='proved':
        for h in vc.hyps[-14:]: print('    H', str(h)[:230].replace('\n',' '))
        print('    G', str(vc.goal)[:400].replace('\n',' '))
