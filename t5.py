import sys
sys.setrecursionlimit(100000)
import contracts.all
from pyvc.contract import REG, generate
from pyvc.solve import solve_all
tot=[]
for key,c in REG.contracts.items():
    if sys.argv[1:] and not any(a in key for a in sys.argv[1:]): continue
    run=generate(c)
    if run.error: print(key,'ERR',run.error); continue
    res=solve_all(run.vcs)
    slow=[(round(r['time'],1),vc.kind,vc.label[:50]) for vc,r in zip(run.vcs,res) if vc.kind!='canary' and r['time']>2]
    bad=[vc.label[:50] for vc,r in zip(run.vcs,res) if vc.kind!='canary' and r['verdict']!='proved']
    print(key, len(run.vcs), 'slow:',slow, 'BAD' if bad else '', bad[:3])
