import sys, time
from pyvc.contract import REG
import contracts.all, contracts.harness_general, contracts.harness_chunk, contracts.harness_pulse
from pyvc import harness as H
names = sys.argv[1:] or [k for k,c in REG.contracts.items() if c.harness]
for key in names:
    c = REG.contracts[key]
    t0=time.time()
    stats, fails = H.search(c, c.harness, seed=0, tier='quick', budget=20000, stop_at_first=False)
    print(key, stats, 'failures', len(fails), '%.1fs'%(time.time()-t0))
    for inp, o, var in fails[:3]:
        print('   FAIL', var, o.failed, o.raised, o.detail, H.encode(inp))
