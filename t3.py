import sys, traceback
sys.setrecursionlimit(100000)
import contracts.all
from pyvc.contract import REG
import pyvc.contract as C, pyvc.engine as E
key=sys.argv[1]
c=REG.contracts[key]
orig=E.Engine.to_v
def tv(self,v,st=None):
    try: return orig(self,v,st)
    except E.Unsupported:
        traceback.print_stack(limit=12); raise
E.Engine.to_v=tv
r=C.generate(c); print(r.error)
