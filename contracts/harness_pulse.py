"""Concrete harnesses (real strax) for the pulse-processing contracts."""

import itertools

import numpy as np

from pyvc.harness import Harness
import contracts.pulse as P


def _pp():
    import strax.processing.pulse_processing as pp
    return pp


def _pyf(f):
    return getattr(f, "py_func", f)


def make_records(rows, spr=2):
    """rows: list of (time, channel, record_i, length, dt, data tuple)"""
    import strax
    r = np.zeros(len(rows), dtype=strax.record_dtype(spr))
    for i, (t, ch, ri, ln, dt, data) in enumerate(rows):
        r[i]["time"], r[i]["channel"], r[i]["record_i"], r[i]["length"], r[i]["dt"] = t, ch, ri, ln, dt
        r[i]["data"][:len(data)] = data
        r[i]["pulse_length"] = ln
    return r


def _rl_gen(rng, tier):
    spr = 2
    times = (0, 2, 4, 5)
    for n in range(0, 4):
        for ts in itertools.combinations_with_replacement(times, n):
            for chs in itertools.product((0, 1), repeat=n):
                for ris in itertools.product((0, 1), repeat=n):
                    yield dict(records=make_records([(t, c, ri, spr, 1, (1, 1)) for t, c, ri in zip(ts, chs, ris)], spr))
    yield dict(records=make_records([(0, -1, 0, 2, 1, (1, 1))], spr))
    for _ in range(300 if tier == "quick" else 20000):
        n = rng.randint(1, 8)
        t = 0
        rows = []
        for _i in range(n):
            t += rng.choice((0, 2, 2, 2, 3, 4))
            rows.append((t, rng.randint(0, 2), rng.randint(0, 2), spr, rng.choice((1, 1, 2)), (1, 1)))
        yield dict(records=make_records(rows, spr))


P.record_links.harness = Harness(
    native=lambda i: _pp().record_links(i["records"]),
    variants=[("py_func", lambda i: _pyf(_pp().record_links)(i["records"]))],
    gen=_rl_gen, scope="all time-sorted record sets of <=3 records over times {0,2,4,5} x channels {0,1} x record_i {0,1}, "
                       "2 samples per record, + random <=8 records / 3 channels / dt in {1,2}",
    nontrivial=lambda i: len(i["records"]) >= 2)


def _zoob_gen(rng, tier):
    spr = 3
    for n in range(0, 3):
        for lens in itertools.product(range(0, 4), repeat=n):
            for vals in itertools.product((1, -2), repeat=n):
                yield dict(records=make_records([(5 * k, 0, 0, ln, 1, (v, v, v)) for k, (ln, v) in enumerate(zip(lens, vals))], spr))
    for _ in range(200 if tier == "quick" else 10000):
        n = rng.randint(1, 6)
        yield dict(records=make_records([(5 * k, rng.randint(0, 2), 0, rng.randint(0, 5), 1,
                                          tuple(rng.randint(-3, 3) for _ in range(4))) for k in range(n)], 4))


def _zoob_native(f):
    def run(i):
        f(i["records"])
        return None
    return run


P.zero_out_of_bounds.harness = Harness(
    native=_zoob_native(lambda r: _pp().zero_out_of_bounds(r)),
    variants=[("py_func", _zoob_native(lambda r: _pyf(_pp().zero_out_of_bounds)(r)))],
    gen=_zoob_gen, scope="<=2 records x lengths 0..3 of 3 samples + random <=6 records of 4 samples",
    nontrivial=lambda i: len(i["records"]) >= 1)


# ---- cut_baseline (data_reduction.py): the contract is proved on the source; this harness runs the real (JIT-compiled) function, so
# ---- that "numba executes what the source says" is cross-checked for it as for the other kernels
def _cb_gen(rng, tier):
    import strax
    spr = 4
    for pulse_length in (1, 3, 4, 5, 8, 9):
        for n_before in (0, 1, 2, 5):
            for n_after in (0, 1, 3, 6):
                n_frag = -(-pulse_length // spr)
                r = np.zeros(n_frag, dtype=strax.record_dtype(spr))
                for k in range(n_frag):
                    r[k]["time"], r[k]["channel"], r[k]["record_i"], r[k]["dt"] = 10 * k * spr, 1, k, 10
                    r[k]["length"] = min(spr, pulse_length - k * spr)
                    r[k]["pulse_length"] = pulse_length
                    r[k]["data"] = [7 + k, 8, 9, 10 + k]
                    r[k]["baseline"], r[k]["area"] = 3.5, 11
                yield dict(records=r, n_before=n_before, n_after=n_after)
    for _ in range(200 if tier == "quick" else 10000):
        rows = []
        for _p in range(rng.randint(1, 3)):
            pl = rng.randint(1, 11)
            for k in range(-(-pl // spr)):
                rows.append((pl, k))
        r = np.zeros(len(rows), dtype=strax.record_dtype(spr))
        for j, (pl, k) in enumerate(rows):
            r[j]["time"], r[j]["channel"], r[j]["record_i"], r[j]["dt"], r[j]["pulse_length"] = 100 * j, rng.randint(0, 2), k, 1, pl
            r[j]["length"] = min(spr, pl - k * spr)
            r[j]["data"] = [rng.randint(-3, 9) for _s in range(spr)]
        yield dict(records=r, n_before=rng.randint(0, 6), n_after=rng.randint(0, 6))


def _cb_native(f, rec=False):
    def run(i):
        f(i["records"].view(np.recarray) if rec else i["records"], i["n_before"], i["n_after"])
        return None
    return run


def _dr():
    import strax.processing.data_reduction as dr
    return dr


P.cut_baseline.harness = Harness(
    native=_cb_native(lambda r, b, a: _dr().cut_baseline(r, b, a)),
    # (no py_func variant: the function uses attribute access on records, which plain numpy offers only on np.recarray views, and
    #  numpy's record scalars then fail inside the harness's own bookkeeping - the compiled function is what runs in strax)
    gen=_cb_gen, scope="pulses of 1..9 samples in fragments of 4 x n_before in {0,1,2,5} x n_after in {0,1,3,6} + random <=3 pulses of <=11 samples",
    nontrivial=lambda i: len(i["records"]) >= 1)
