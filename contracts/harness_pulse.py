"""Concrete harnesses (real strax) for the pulse-processing contracts."""

import itertools

import numpy as np

from pyvc.harness import Harness
import contracts.pulse as P


def _pp():
    import strax.processing.pulse_processing as pp
    return pp


def _pyf(f):
    return getattr(f, "py_func", f)


def make_records(rows, spr=2):
    """rows: list of (time, channel, record_i, length, dt, data tuple)"""
    import strax
    r = np.zeros(len(rows), dtype=strax.record_dtype(spr))
    for i, (t, ch, ri, ln, dt, data) in enumerate(rows):
        r[i]["time"], r[i]["channel"], r[i]["record_i"], r[i]["length"], r[i]["dt"] = t, ch, ri, ln, dt
        r[i]["data"][:len(data)] = data
        r[i]["pulse_length"] = ln
    return r


def _rl_gen(rng, tier):
    spr = 2
    times = (0, 2, 4, 5)
    for n in range(0, 4):
        for ts in itertools.combinations_with_replacement(times, n):
            for chs in itertools.product((0, 1), repeat=n):
                for ris in itertools.product((0, 1), repeat=n):
                    yield dict(records=make_records([(t, c, ri, spr, 1, (1, 1)) for t, c, ri in zip(ts, chs, ris)], spr))
    yield dict(records=make_records([(0, -1, 0, 2, 1, (1, 1))], spr))
    for _ in range(300 if tier == "quick" else 20000):
        n = rng.randint(1, 8)
        t = 0
        rows = []
        for _i in range(n):
            t += rng.choice((0, 2, 2, 2, 3, 4))
            rows.append((t, rng.randint(0, 2), rng.randint(0, 2), spr, rng.choice((1, 1, 2)), (1, 1)))
        yield dict(records=make_records(rows, spr))


P.record_links.harness = Harness(
    native=lambda i: _pp().record_links(i["records"]),
    variants=[("py_func", lambda i: _pyf(_pp().record_links)(i["records"]))],
    gen=_rl_gen, scope="all time-sorted record sets of <=3 records over times {0,2,4,5} x channels {0,1} x record_i {0,1}, "
                       "2 samples per record, + random <=8 records / 3 channels / dt in {1,2}",
    nontrivial=lambda i: len(i["records"]) >= 2)


def _zoob_gen(rng, tier):
    spr = 3
    for n in range(0, 3):
        for lens in itertools.product(range(0, 4), repeat=n):
            for vals in itertools.product((1, -2), repeat=n):
                yield dict(records=make_records([(5 * k, 0, 0, ln, 1, (v, v, v)) for k, (ln, v) in enumerate(zip(lens, vals))], spr))
    for _ in range(200 if tier == "quick" else 10000):
        n = rng.randint(1, 6)
        yield dict(records=make_records([(5 * k, rng.randint(0, 2), 0, rng.randint(0, 5), 1,
                                          tuple(rng.randint(-3, 3) for _ in range(4))) for k in range(n)], 4))


def _zoob_native(f):
    def run(i):
        f(i["records"])
        return None
    return run


P.zero_out_of_bounds.harness = Harness(
    native=_zoob_native(lambda r: _pp().zero_out_of_bounds(r)),
    variants=[("py_func", _zoob_native(lambda r: _pyf(_pp().zero_out_of_bounds)(r)))],
    gen=_zoob_gen, scope="<=2 records x lengths 0..3 of 3 samples + random <=6 records of 4 samples",
    nontrivial=lambda i: len(i["records"]) >= 1)
