"""Concrete harnesses for the C10 contracts."""

import numpy as np

from pyvc.harness import Harness, intervals, all_sorted_intervals, random_sorted_intervals, INTERVAL_DT
import contracts.selection as SEL
import contracts.chunk as CH


def make_chunk(rows, start, end):
    import strax
    return strax.Chunk(data_type="things", data_kind="things", dtype=INTERVAL_DT, run_id="0", start=start, end=end,
                       data=intervals(rows), target_size_mb=200)


def _atr_gen(rng, tier):
    for rows in all_sorted_intervals(3, 5):
        end = max([e for _, e in rows], default=0)
        for cend in (end, end + 1):
            for lo in range(0, 7):
                for hi in range(lo, 8):
                    yield dict(chunk=make_chunk(rows, 0, cend), time_range=(lo, hi))
    for _ in range(300 if tier == "quick" else 20000):
        rows = random_sorted_intervals(rng, rng.randint(0, 8), 40, 8)
        end = max([e for _, e in rows], default=0) + rng.randint(0, 3)
        lo = rng.randint(0, end + 2)
        yield dict(chunk=make_chunk(rows, 0, end), time_range=(lo, lo + rng.randint(0, 15)))


def _atr_native(i):
    import strax
    return strax.StorageBackend.apply_time_range(i["chunk"], i["time_range"])


SEL.apply_time_range.harness = Harness(
    native=_atr_native, gen=_atr_gen,
    scope="all sorted interval arrays of <=3 rows on grid 0..5 x chunk end tight / +1 x all ranges 0 <= lo <= hi <= 7 + random",
    nontrivial=lambda i: len(i["chunk"].data) >= 1)


def _as_gen(rng, tier):
    for rows in all_sorted_intervals(3, 4):
        for lo in range(0, 6):
            for hi in range(lo, 6):
                for mode in ("fully_contained", "touching", "skip"):
                    yield dict(x=intervals(rows), selection=None, keep_columns=None, drop_columns=None,
                               time_range=(lo, hi), time_selection=mode)
    yield dict(x=intervals([(0, 1)]), selection=None, keep_columns=None, drop_columns=None, time_range=(0, 1),
               time_selection="bogus")
    for _ in range(300 if tier == "quick" else 20000):
        rows = random_sorted_intervals(rng, rng.randint(0, 9), 40, 8)
        lo = rng.randint(0, 40)
        yield dict(x=intervals(rows, rng.choice(("endtime", "dt"))), selection=None, keep_columns=None, drop_columns=None,
                   time_range=(lo, lo + rng.randint(0, 20)), time_selection=rng.choice(("fully_contained", "touching")))


def _as_native(i):
    import strax
    return strax.apply_selection(i["x"], selection=i["selection"], keep_columns=i["keep_columns"], drop_columns=i["drop_columns"],
                                 time_range=i["time_range"], time_selection=i["time_selection"])


SEL.apply_selection_range.harness = Harness(
    native=_as_native, gen=_as_gen,
    scope="all sorted interval arrays of <=3 rows on grid 0..4 x all ranges in 0..5 x 3 modes + random", nontrivial=lambda i: len(i["x"]) >= 1)
