"""Contracts for the single-thread processor's bus (C01 / C03): SaverSpy and the producer side of PostOffice."""

import z3

from pyvc.contract import Contract, Loop, REG
from pyvc.engine import ObjT, Opq, PNONE, V, St, Exc, int2v, Unsupported
from pyvc.library import Abstract

FS = "strax/processors/single_thread.py"
FP = "strax/processors/post_office.py"
NONE = z3.Const("None", V)


# --------------------------------------------------------------------------------------
# SaverSpy: every chunk the rechunker hands out is saved once, under consecutive numbers; close flushes first
# --------------------------------------------------------------------------------------
def _spy_save(eng, args, kw, st, fr, k, node):
    """self.saver.save(chunk, self.chunk_number)"""
    me = st.heap[st.env["self"].base]
    eng.oblige("saver-spy", "a chunk is saved under the spy's current chunk number", st, eng.to_int(args[-1]) == me["chunk_number"], node)
    eng.oblige("saver-spy", "the chunk saved is the one being visited, and it is not None", st,
               z3.And(eng.to_v(args[-2]) == eng.to_v(st.env["chunk"]), eng.to_v(args[-2]) != NONE), node)
    g = dict(st.ghost)
    g["n_saved"] = g["n_saved"] + 1
    g["last_saved"] = eng.to_v(args[-2])
    fr.on_raise(Exc("Any", Opq(eng.fresh("save_exc", "V"))), St(st.env, st.heap, st.pc, g))
    return k(PNONE, St(st.env, st.heap, st.pc, g))


SPY = ObjT("SaverSpy", saver="V", rechunker="V", chunk_number="int")

spy_save_chunk = REG.add(Contract(
    FS, "SaverSpy._save_chunk",
    params=dict(self=SPY, chunks="V"),
    ensures=lambda S, a, r: [("the chunk number advanced by the number of chunks saved", a.self.chunk_number == a.old.self.chunk_number + a.ghost.n_saved)],
    raises={"Any": lambda S, a: S.true},
    ghost={"n_saved": z3.IntVal(0), "last_saved": z3.Const("nothing_saved", V)},
    calls={"self.saver.save": _spy_save},
    loops={1: Loop(lambda S, a: [("numbers are consecutive", a.self.chunk_number == a.old.self.chunk_number + a.ghost.n_saved)],
                   body_ensures=lambda S, a: [("every chunk that is not None is saved (exactly once, in the order given)",
                                               S.Or(S.is_none(a.chunk), S.eq(a.ghost.last_saved, a.chunk)))])},
    loop_ghost={1: ["n_saved", "last_saved"]},
))


def _record(name):
    def h(eng, args, kw, st, fr, k, node):
        g = dict(st.ghost)
        g["order"] = g["order"] + 1
        g[name + "_at"] = g["order"]
        g[name + "_arg"] = eng.to_v(args[-1]) if args else NONE
        fr.on_raise(Exc("Any", Opq(eng.fresh("exc", "V"))), St(st.env, st.heap, st.pc, g))
        res = Opq(eng.fresh(name + "_result", "V"))
        g[name + "_res"] = res.t
        return k(res, St(st.env, st.heap, st.pc, g))
    return h


_SPY_GHOST = {"order": z3.IntVal(0)}
for _n in ("receive", "flush", "save_chunks", "close"):
    _SPY_GHOST[_n + "_at"] = z3.IntVal(0)
    _SPY_GHOST[_n + "_arg"] = z3.Const("no_arg_" + _n, V)
    _SPY_GHOST[_n + "_res"] = z3.Const("no_res_" + _n, V)

spy_receive = REG.add(Contract(
    FS, "SaverSpy.receive",
    params=dict(self=SPY, chunk="V"),
    ensures=lambda S, a, r: [("the chunk goes through the rechunker and what comes out is saved",
                              S.And(a.ghost.receive_at == 1, S.eq(a.ghost.receive_arg, a.chunk), a.ghost.save_chunks_at == 2,
                                    S.eq(a.ghost.save_chunks_arg, a.ghost.receive_res)))],
    raises={"Any": lambda S, a: S.true},
    ghost=dict(_SPY_GHOST),
    calls={"self.rechunker.receive": _record("receive"), "self._save_chunk": _record("save_chunks")},
))

spy_close = REG.add(Contract(
    FS, "SaverSpy.close",
    params=dict(self=SPY),
    ensures=lambda S, a, r: [("what the rechunker still holds is flushed and saved BEFORE the saver is closed",
                              S.And(a.ghost.flush_at == 1, a.ghost.save_chunks_at == 2, S.eq(a.ghost.save_chunks_arg, a.ghost.flush_res),
                                    a.ghost.close_at == 3))],
    raises={"Any": lambda S, a: S.true},
    ghost=dict(_SPY_GHOST),
    calls={"self.rechunker.flush": _record("flush"), "self._save_chunk": _record("save_chunks"), "self.saver.close": _record("close")},
))


# --------------------------------------------------------------------------------------
# PostOffice._ack_msg_produced: numbering, caching for readers, delivery to every spy
# --------------------------------------------------------------------------------------
GETITEM = z3.Function("getitem", V, V, V)
V2INT = z3.Function("v2int", V, z3.IntSort())


def _produced_store(eng, st, key, value, node):
    """self._last_msg_produced[topic] += 1"""
    selfv = st.env["self"].t
    old = V2INT(GETITEM(z3.Function("attr__last_msg_produced", V, V)(selfv), eng.to_v(key)))
    eng.oblige("post-office", "the new message gets the next number of its topic", st,
               z3.And(eng.to_v(key) == eng.to_v(st.env["topic"]), eng.to_int(value) == old + 1), node)
    g = dict(st.ghost)
    g["number"] = eng.to_int(value)
    g["numbered"] = z3.BoolVal(True)
    return St(st.env, st.heap, st.pc, g)


def _mail_append(eng, args, kw, st, fr, k, node):
    """self._saved_mail[topic].append((number, msg))"""
    item = args[-1]
    ok = isinstance(item, tuple) and len(item) == 2
    eng.oblige("post-office", "the message is cached for the readers under the number it was just given", st,
               z3.And(eng.to_v(item[1]) == eng.to_v(st.env["msg"]), st.ghost["numbered"]) if ok else z3.BoolVal(False), node)
    g = dict(st.ghost)
    g["cached"] = z3.BoolVal(True)
    return k(PNONE, St(st.env, st.heap, st.pc, g))


def _spy_receive_hook(eng, args, kw, st, fr, k, node):
    eng.oblige("post-office", "a spy receives exactly the produced message", st, eng.to_v(args[-1]) == eng.to_v(st.env["msg"]), node)
    g = dict(st.ghost)
    g["told"] = eng.to_v(st.env["spy"])
    fr.on_raise(Exc("Any", Opq(eng.fresh("spy_exc", "V"))), St(st.env, st.heap, st.pc, g))
    return k(PNONE, St(st.env, st.heap, st.pc, g))


ack_msg_produced = REG.add(Contract(
    FP, "PostOffice._ack_msg_produced",
    params=dict(self="V", msg="V", topic="V"),
    ensures=lambda S, a, r: [("the message was numbered", a.ghost.numbered)],
    raises={"AssertionError": lambda S, a: S.true, "Any": lambda S, a: S.true},
    ghost={"numbered": z3.BoolVal(False), "number": z3.IntVal(-1), "cached": z3.BoolVal(False), "told": z3.Const("nobody", V)},
    store_hooks={"self._last_msg_produced": _produced_store},
    calls={".append": _mail_append, "spy.receive": _spy_receive_hook},
    loops={1: Loop(lambda S, a: [("numbered before delivery", a.ghost.numbered)],
                   body_ensures=lambda S, a: [("EVERY spy of the topic receives the message", S.eq(a.ghost.told, a.spy))])},
    loop_ghost={1: ["told"]},
))


# --------------------------------------------------------------------------------------
# PostOffice._message_may_come: a reader stops only when nothing more can come
# --------------------------------------------------------------------------------------
message_may_come = REG.add(Contract(
    FP, "PostOffice._message_may_come",
    params=dict(self="V", topic="V", msg_number="int"),
    ensures=lambda S, a, r: [
        ("a reader is told that message n will never come exactly when the topic is exhausted and n is beyond the last message "
         "produced (so the last produced message is still delivered to a lagging reader)",
         S.Iff(S.Not(r if z3.is_bool(r) else S.truthy(r)),
               S.And(S.contains(S.attr(a.self, "_exhausted_topics"), a.topic),
                     a.msg_number > S.to_int(S.getitem(S.attr(a.self, "_last_msg_produced"), a.topic)))))],
    raises={},
))


# --------------------------------------------------------------------------------------
# PostOffice._read (per reader): messages 0, 1, 2, ... in order, each acknowledged before it is handed out, each taken from
# the cache under its own number or freshly fetched
# --------------------------------------------------------------------------------------
def _may_come(eng, args, kw, st, fr, k, node):
    eng.oblige("reader", "the reader asks for the message number it is waiting for", st,
               z3.And(eng.to_int(args[-1]) == eng.to_int(st.env["msg_number"]), eng.to_v(args[-2]) == eng.to_v(st.env["topic"])), node)
    return k(eng.fresh("may_come", "bool"), st)


def _fetch_new(eng, args, kw, st, fr, k, node):
    fr.on_raise(Exc("StopIteration"), st)
    fr.on_raise(Exc("Any", Opq(eng.fresh("producer_exc", "V"))), st)
    m = eng.fresh("fetched", "V")
    g = dict(st.ghost)
    g["fetched"] = m
    g["from_fetch"] = z3.BoolVal(True)
    return k(Opq(m), St(st.env, st.heap, st.pc, g))


def _ack_read(eng, args, kw, st, fr, k, node):
    eng.oblige("reader", "receipt is acknowledged for this reader, this topic and the number about to be handed out", st,
               z3.And(eng.to_v(args[-3]) == eng.to_v(st.env["reader"]), eng.to_v(args[-2]) == eng.to_v(st.env["topic"]),
                      eng.to_int(args[-1]) == eng.to_int(st.env["msg_number"])), node)
    g = dict(st.ghost)
    g["acked"] = eng.to_int(args[-1])
    fr.on_raise(Exc("AssertionError"), st)
    return k(PNONE, St(st.env, st.heap, st.pc, g))


def _read_yields(S, a, v):
    g = a.ghost
    return [("messages are handed out under consecutive numbers 0, 1, 2, ...", a.msg_number == g.n_handed),
            ("a message is acknowledged before it is handed out", g.acked == a.msg_number),
            ("what is handed out is the cached message of that number, or the one just fetched from the producer",
             S.Or(S.And(g.from_fetch, S.eq(S.v(v), g.fetched)),
                  S.And(S.Not(g.from_fetch), S.b(a._has("_msg_i")) if not a._has("_msg_i") else S.eq(S.v(a._msg_i), a.msg_number))))]


def _read_after_yield(eng, st, value):
    g = dict(st.ghost)
    g["n_handed"] = g["n_handed"] + 1
    g["from_fetch"] = z3.BoolVal(False)
    return St(st.env, st.heap, st.pc, g)


def _pop_single(eng, args, kw, st, fr, k, node):
    """result.pop() on the one-element list [result]"""
    lst = st.env["result"]
    if isinstance(lst, list) and len(lst) == 1:
        return k(lst[0], st)
    raise Unsupported("pop of something that is not the one-element list")


def _read_inner_inv(S, a):
    return []


post_office_read = REG.add(Contract(
    FP, "PostOffice._read",
    params=dict(self="V", topic="V", reader="V"),
    ensures=lambda S, a, r: [("the reader is recorded as done", a.ghost.done_recorded)],
    raises={"Any": lambda S, a: S.true, "AssertionError": lambda S, a: S.true},
    yields=_read_yields,
    ghost={"n_handed": z3.IntVal(0), "acked": z3.IntVal(-1), "fetched": z3.Const("nothing_fetched", V), "from_fetch": z3.BoolVal(False),
           "done_recorded": z3.BoolVal(False)},
    calls={"self._message_may_come": _may_come, "self._fetch_new": _fetch_new, "self._ack_reader_recieved": _ack_read,
           "self._count_time": Abstract(sort=None), "log.debug": Abstract(sort=None), "result.pop": _pop_single,
           ".append": lambda eng, args, kw, st, fr, k, node: k(PNONE, St(st.env, st.heap, st.pc, {**st.ghost, "done_recorded": z3.BoolVal(True)}))},
    loops={1: Loop(lambda S, a: [("the next number is the count of messages handed out so far; nothing fetched yet for it",
                                  S.And(a.msg_number == a.ghost.n_handed, S.Not(a.ghost.from_fetch)))]),
           2: Loop(lambda S, a: [])},
    loop_ghost={1: ["n_handed", "acked", "fetched", "from_fetch"], 2: []},
    local_sorts={"_msg_i": "V"},
))
post_office_read.after_yield = _read_after_yield
