"""Bounded stand-in for C08 on the real Plugin.iter / do_compute: every compute call sees time-aligned inputs, successive
calls are adjacent, every input row is delivered exactly once in order, undeliverable rows raise for plugins that save
by default.  The dependencies are fed as hand-made chunk iterators (no Context).  Concrete-only; labelled bounded."""

import contextlib
import io
import itertools
import warnings

import numpy as np

from pyvc.contract import Contract
from pyvc.harness import Harness

F = "strax/plugins/plugin.py"


def _dtype(tag):
    import strax
    return strax.time_fields + [((f"value of {tag}", f"v_{tag}"), np.int64)]


def _provider(name, kind):
    import strax
    return type("Prov_" + name, (strax.Plugin,), dict(provides=(name,), depends_on=(), data_kind=kind, dtype=_dtype(name),
                                                      __version__="0"))


def _chunks(name, kind, rows, cuts):
    """rows: [(time, endtime)], cuts: chunk boundaries c0 <= c1 <= ... (a repeated value gives a zero-duration chunk)"""
    import strax
    out = []
    for a, b in zip(cuts, cuts[1:]):
        sel = [(t, e) for (t, e) in rows if a <= t and e <= b and not (a == b)]
        # a row belongs to the first chunk [a, b) that contains it wholly; law-abiding cuts never split a row
        sel = [(t, e) for (t, e) in sel if not any((t, e) in prev for prev in out)]
        out.append(sel)
    res = []
    for (a, b), sel in zip(zip(cuts, cuts[1:]), out):
        d = np.zeros(len(sel), dtype=_dtype(name))
        for j, (t, e) in enumerate(sel):
            d[j]["time"], d[j]["endtime"], d[j]["v_" + name] = t, e, 100 * t + e
        res.append(strax.Chunk(start=a, end=b, data=d, data_type=name, data_kind=kind, dtype=d.dtype, run_id="0",
                               target_size_mb=200))
    return res


def _native(i):
    with contextlib.redirect_stdout(io.StringIO()), contextlib.redirect_stderr(io.StringIO()):
        return _native_(i)


def _native_(i):
    import strax
    warnings.simplefilter("ignore")
    deps = i["deps"]
    names = [f"d{j}" for j in range(len(deps))]
    kinds = sorted({d["kind"] for d in deps})
    calls = []

    sig = ", ".join(kinds)
    ns = {}
    per_chunk = i.get("per_chunk")
    if per_chunk:
        # per-chunk processing: compute takes chunk_i and the plugin is told which chunk numbers it is to process
        exec(f"def compute(self, {sig}, chunk_i, start, end):\n"
             f"    return self._compute(dict({', '.join(k + '=' + k for k in kinds)}), start, end, chunk_i)\n", ns)
    else:
        exec(f"def compute(self, {sig}, start, end):\n    return self._compute(dict({', '.join(k + '=' + k for k in kinds)}), start, end)\n", ns)

    def _compute(self, by_kind, start, end, chunk_i=None):
        calls.append(dict(start=int(start), end=int(end), chunk_i=None if chunk_i is None else int(chunk_i),
                          rows={k: [(int(r["time"]), int(r["endtime"])) for r in v] for k, v in by_kind.items()},
                          fields={k: list(v.dtype.names) for k, v in by_kind.items()},
                          values={k: {n: v[n].tolist() for n in v.dtype.names if n.startswith("v_")} for k, v in by_kind.items()}))
        first = by_kind[kinds[0]]
        r = np.zeros(len(first), dtype=strax.time_fields)
        r["time"], r["endtime"] = first["time"], first["endtime"]
        if self.multi_output:
            return dict(out=r, out2=r.copy())
        return r

    if i.get("mixed"):
        # a multi-output plugin with one never-saved and one always-saved output: it saves by default
        from immutabledict import immutabledict
        P = type("P", (strax.Plugin,), dict(provides=("out", "out2"), depends_on=tuple(names), data_kind=dict(out=kinds[0], out2="kout2"),
                                            dtype=dict(out=strax.time_fields, out2=strax.time_fields),
                                            compute=ns["compute"], _compute=_compute, __version__="0",
                                            save_when=immutabledict(out=strax.SaveWhen.NEVER, out2=strax.SaveWhen.ALWAYS)))
    else:
        P = type("P", (strax.Plugin,), dict(provides=("out",), depends_on=tuple(names), data_kind=kinds[0], dtype=strax.time_fields,
                                            compute=ns["compute"], _compute=_compute, __version__="0",
                                            save_when=strax.SaveWhen.ALWAYS if i["saving"] else strax.SaveWhen.NEVER))
    p = P()
    p.run_id = "0"
    p.deps = {n: _provider(n, d["kind"])() for n, d in zip(names, deps)}
    for n, q in p.deps.items():
        q.run_id = "0"
        q.fix_dtype()
    p.config = {}
    p.fix_dtype()
    iters = {n: iter(_chunks(n, d["kind"], [tuple(r) for r in d["rows"]], d["cuts"])) for n, d in zip(names, deps)}
    if per_chunk:
        p.chunk_number = list(per_chunk)
        iters = {n: iter([c for j, c in enumerate(_chunks(n, d["kind"], [tuple(r) for r in d["rows"]], d["cuts"])) if j in per_chunk])
                 for n, d in zip(names, deps)}
    res = dict(error=None, outputs=[])
    try:
        for c in p.iter(iters):
            c = c["out"] if isinstance(c, dict) else c
            res["outputs"].append((int(c.start), int(c.end), len(c)))
    except Exception as ex:  # noqa
        res["error"] = f"{type(ex).__name__}: {str(ex)[:140]}"
    res["calls"] = calls
    return res


def _ens(S, a, r):
    if a._has("per_chunk") and a.per_chunk:
        d = a.deps[0]
        want = [(k, d["cuts"][k], d["cuts"][k + 1]) for k in a.per_chunk]
        got = [(c["chunk_i"], c["start"], c["end"]) for c in r["calls"]]
        rows_want = [tuple(x) for x in d["rows"] if any(lo <= x[0] and x[1] <= hi for _, lo, hi in want)]
        rows_got = [row for c in r["calls"] for row in c["rows"][d["kind"]]]
        return [(f"per-chunk processing: one compute call per requested chunk number, with that number and that chunk's interval "
                 f"[got {got}, error {r['error']}]", got == want and r["error"] is None),
                ("every row of the requested chunks is delivered exactly once", rows_got == rows_want)]
    deps = a.deps
    kinds = sorted({d["kind"] for d in deps})
    ends = {d["cuts"][-1] for d in deps}
    starts = {d["cuts"][0] for d in deps}
    calls = r["calls"]
    out = [("successive compute calls cover adjacent intervals", all(x["end"] == y["start"] for x, y in zip(calls, calls[1:]))),
           ("every input row handed to a call lies wholly inside the interval of that call",
            all(c["start"] <= t and e <= c["end"] for c in calls for rows in c["rows"].values() for (t, e) in rows))]
    # same-kind inputs are row-aligned and merged: every field of every dependency of the kind is present, values belong to the row
    merged_ok = True
    for c in calls:
        for k in kinds:
            members = [f"d{j}" for j, d in enumerate(deps) if d["kind"] == k]
            for m in members:
                vs = c["values"][k].get("v_" + m)
                merged_ok = merged_ok and vs is not None and vs == [100 * t + e for (t, e) in c["rows"][k]]
    out.append(("same-kind inputs arrive merged row by row with the fields of every dependency of that kind", merged_ok))
    delivered = {k: [row for c in calls for row in c["rows"][k]] for k in kinds}
    all_rows = {k: [tuple(x) for x in next(d for d in deps if d["kind"] == k)["rows"]] for k in kinds}
    no_dup = all(len(set(v)) == len(v) and v == sorted(v) for v in delivered.values())
    out.append(("no input row is handed over twice, rows arrive in time order", no_dup))
    complete = all(delivered[k] == all_rows[k] for k in kinds)
    consistent = len(ends) == 1 and len(starts) == 1
    if consistent:
        out.append(("dependencies covering the same span are processed without error: " + str(r["error"]), r["error"] is None))
        out.append(("every input row is handed to the plugin exactly once", complete))
        if calls:
            out.append(("the calls cover the whole span", calls[0]["start"] == min(starts) and calls[-1]["end"] == max(ends)))
    elif a.saving:
        out.append(("rows that cannot be delivered raise an error instead of being dropped silently", r["error"] is not None or complete))
    else:
        out.append(("what is delivered is a prefix of each dependency's rows", all(delivered[k] == all_rows[k][:len(delivered[k])] for k in kinds)))
    return out


def _cutsets(T, rows, rng, n, zero):
    """law-abiding chunk boundaries 0 = c0 < ... <= T that split no row; optionally with zero-duration chunks"""
    inner = [t for t in range(1, T) if not any(a < t < b for a, b in rows)]
    out = []
    for k in range(0, min(len(inner), 3) + 1):
        for comb in itertools.combinations(inner, k):
            out.append([0] + list(comb) + [T])
    rng.shuffle(out)
    out = out[:n]
    if zero:
        extra = []
        for c in out[: max(2, n // 2)]:
            j = rng.randrange(len(c))
            extra.append(c[:j + 1] + c[j:])           # repeat one boundary: a zero-duration chunk there (also at the very end)
        out += extra
    return out


def _rowsets(T):
    pts = range(T)
    base = [[], [(0, 1)], [(1, 3)], [(0, 2), (2, 3)], [(0, 1), (3, 4)], [(1, 2), (2, 4), (5, 6)]]
    return [r for r in base if all(e <= T for _, e in r)]


def _gen(rng, tier):
    thorough = tier == "thorough"
    T = 6
    rs = _rowsets(T)
    shapes = [("k0", "k1"), ("k0", "k0"), ("k0", "k1", "k0")] + ([("k0", "k1", "k2"), ("k0", "k0", "k1", "k1")] if thorough else [])
    # dependencies ending at different times with rows that can never be delivered (always part of the scope)
    for long_rows, short_T in (([[0, 1], [3, 4]], 2), ([[1, 3], [4, 6]], 3), ([[0, 2], [5, 6]], 4)):
        d_long = dict(kind="k0", rows=long_rows, cuts=[0, T])
        d_short = dict(kind="k1", rows=[[0, 1]] if short_T > 1 else [], cuts=[0, short_T])
        for deps in ([d_long, d_short], [d_short, d_long]):
            yield dict(deps=deps, saving=True)
            yield dict(deps=deps, saving=False)
            yield dict(deps=deps, saving=True, mixed=True)
    # a dependency that is NOT the pacemaker runs out in the middle of the run (the pacemaker's first chunk ends earlier, but the
    # pacemaker goes on for longer), and a longer dependency that goes on - after a zero-duration chunk - with rows once the
    # pacemaker has ended: in both situations rows can never be delivered
    for kinds in (("k0", "k1"), ("k0", "k0")):
        same = kinds[0] == kinds[1]
        d_pace = dict(kind=kinds[0], rows=[[0, 1], [4, 6]], cuts=[0, 3, T])
        d_runs_out = dict(kind=kinds[1], rows=[[0, 1]], cuts=[0, 4])
        d_ends = dict(kind=kinds[0], rows=[[0, 1]], cuts=[0, 3])
        d_goes_on = dict(kind=kinds[1], rows=[[0, 1], [4, 5]], cuts=[0, 3, 3, T])
        for pair in ((d_pace, d_runs_out), (d_ends, d_goes_on)):
            if same and pair[0]["rows"] != pair[1]["rows"]:
                pair = (dict(pair[0], kind="k0"), dict(pair[1], kind="k1"), dict(pair[0], kind="k0"))
            for deps in (list(pair), list(pair)[::-1]):
                yield dict(deps=deps, saving=True)
                yield dict(deps=deps, saving=True, mixed=True)
                yield dict(deps=deps, saving=False)
    # per-chunk processing of a plugin whose compute takes chunk_i (one dependency, consecutive chunk numbers not starting at 0)
    for rows, cuts in (([[0, 1], [1, 3], [4, 5], [5, 6]], [0, 1, 3, 5, 6]), ([[0, 2], [2, 3], [3, 4]], [0, 2, 3, 4, 6])):
        for pc in ([1], [1, 2], [2, 3], [0, 1], [3]):
            yield dict(deps=[dict(kind="k0", rows=rows, cuts=cuts)], saving=True, per_chunk=pc)
            yield dict(deps=[dict(kind="k0", rows=rows, cuts=cuts)], saving=False, per_chunk=pc)
    for shape in shapes:
        for _ in range(60 if thorough else 12):
            rows_by_kind = {k: rng.choice(rs) for k in set(shape)}
            deps = []
            for k in shape:
                rows = rows_by_kind[k]
                cuts = rng.choice(_cutsets(T, rows, rng, 8, zero=True))
                deps.append(dict(kind=k, rows=[list(x) for x in rows], cuts=cuts))
            yield dict(deps=deps, saving=True)
            if rng.random() < 0.3:
                # one dependency ends earlier / later than the others
                j = rng.randrange(len(deps))
                d2 = [dict(d) for d in deps]
                Tj = rng.choice([T - 1, T + 2])
                if all(e <= Tj for _, e in d2[j]["rows"]) and all(c <= Tj for c in d2[j]["cuts"][:-1]):
                    d2[j]["cuts"] = d2[j]["cuts"][:-1] + [Tj]
                    yield dict(deps=d2, saving=True)
                    yield dict(deps=d2, saving=False)
                    yield dict(deps=d2, saving=True, mixed=True)


plugin_iter = Contract(
    F, "Plugin.iter", params=dict(deps="V", saving="bool", per_chunk="V", mixed="V"), ensures=_ens, raises={},
    harness=Harness(native=_native, gen=_gen,
                    scope="2..3 (thorough: 4) dependencies of 1..3 data kinds on the grid 0..6, 6 row sets per kind (empty, rows touching, rows "
                          "spanning several grid cells), every dependency in its own law-abiding chunking with up to 3 inner cuts and "
                          "zero-duration chunks, equal and unequal ends, saving, non-saving and mixed (multi-output: one never-saved, one always-saved output) plugin; the real Plugin.iter / do_compute / "
                          "Chunk.split / concatenate / merge driven by hand-made chunk iterators; per-chunk processing (compute takes chunk_i, "
                          "chunk numbers [1], [1,2], [2,3], [0,1], [3]) of one dependency",
                    nontrivial=lambda i: len(i["deps"]) > 1))
