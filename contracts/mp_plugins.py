"""Module-level plugin classes (picklable) for the multiprocess stand-in of C01."""
import numpy as np
import strax

N_CHUNKS = 10
ROWS_PER_CHUNK = 2


class MPSource(strax.Plugin):
    """a source computed in a process pool"""
    provides = "mp_src"
    depends_on = ()
    data_kind = "mpk"
    dtype = strax.time_fields + [(("value", "v"), np.int64)]
    parallel = "process"
    rechunk_on_save = False
    __version__ = "0"

    def source_finished(self):
        return True

    def is_ready(self, chunk_i):
        return chunk_i < N_CHUNKS

    def compute(self, chunk_i):
        r = np.zeros(ROWS_PER_CHUNK, self.dtype)
        t0 = 100 * chunk_i
        r["time"] = t0 + 10 * np.arange(ROWS_PER_CHUNK)
        r["endtime"] = r["time"] + 5
        r["v"] = 7 * chunk_i + np.arange(ROWS_PER_CHUNK)
        return self.chunk(start=t0, end=t0 + 100, data=r)


class MPRowwise(strax.Plugin):
    """stateless, may run anywhere"""
    provides = "mp_row"
    depends_on = ("mp_src",)
    data_kind = "mpk2"
    dtype = strax.time_fields + [(("value", "w"), np.int64)]
    parallel = "process"
    __version__ = "0"

    def compute(self, mpk):
        r = np.zeros(len(mpk), self.dtype)
        r["time"], r["endtime"], r["w"] = mpk["time"], mpk["endtime"], mpk["v"] * 3
        return r


class MPNumbering(strax.Plugin):
    """STATEFUL: numbers the rows of the whole run consecutively - it must run sequentially in one place (parallel = False)"""
    provides = "mp_numbered"
    depends_on = ("mp_row",)
    data_kind = "mpk3"
    dtype = strax.time_fields + [(("row number in the run", "n"), np.int64)]
    parallel = False
    __version__ = "0"

    def setup(self):
        self.count = 0

    def compute(self, mpk2):
        r = np.zeros(len(mpk2), self.dtype)
        r["time"], r["endtime"] = mpk2["time"], mpk2["endtime"]
        r["n"] = self.count + np.arange(len(mpk2))
        self.count += len(mpk2)
        return r
