"""Contract for C15: strax.utils.multi_run - every run is submitted with the caller's function and arguments, a result is
paired with the run id of the future it came from, failures raise or are skipped, the output is ordered by run id."""

import z3

from pyvc.contract import Contract, Loop, REG
from pyvc.engine import Opq, PNONE, V, St, Exc, int2v
from pyvc.library import Abstract

F = "strax/utils.py"
RUN_OF = z3.Function("run_of_future", V, V)            # ghost: the run id a future was submitted for
RESULT = z3.Function("method:result", V, V)
EXCEPTION = z3.Function("method:exception", V, V)
NONE = z3.Const("None", V)


def _submit(eng, args, kw, st, fr, k, node):
    """exc.submit(exec_function, r, *args, **kwargs)"""
    env = st.env
    ok_fn = len(args) >= 2 and isinstance(args[0], Opq) and args[0] is env["exec_function"]
    eng.oblige("submit", "the function submitted is the caller's exec_function", st, z3.BoolVal(bool(ok_fn)), node)
    r = env.get("r")
    eng.oblige("submit", "it is submitted for the run id currently taken from the (sorted) list of run ids", st,
               z3.BoolVal(r is not None and len(args) >= 2 and args[1] is r), node)
    extra = tuple(args[2:])
    eng.oblige("submit", "with exactly the caller's extra positional arguments", st,
               z3.BoolVal(len(extra) == len(env["args"]) and all(x is y for x, y in zip(extra, env["args"]))), node)
    eng.oblige("submit", "and the caller's keyword arguments without the bookkeeping keywords, with the per-run progress bar defaulting to off", st,
               z3.BoolVal("add_run_id_field" not in kw and "run_id_as_bytes" not in kw and "progress_bar" in kw
                          and all(kw.get(key) is val for key, val in env["#entry_kwargs"].items()
                                  if key not in ("add_run_id_field", "run_id_as_bytes"))), node)
    fut = eng.fresh("future", "V")
    g = dict(st.ghost)
    g["n_submitted"] = g["n_submitted"] + 1
    g["last_submitted"] = fut
    st = St(st.env, st.heap, st.pc + [RUN_OF(fut) == eng.to_v(args[1]) if len(args) >= 2 else z3.BoolVal(True), fut != NONE], g)
    return k(Opq(fut), st)


def _futures_store(eng, st, key, value, node):
    """futures[fut] = r"""
    eng.oblige("pairing", "a future is filed under the run id it was submitted for", st, RUN_OF(eng.to_v(key)) == eng.to_v(value), node)
    return St(st.env, st.heap, st.pc, {**st.ghost, "last_filed": eng.to_v(key)})


def _futures_pop(eng, args, kw, st, fr, k, node):
    """futures.pop(f): by the invariant of the futures dict (every entry pairs a future with its run id) the value is run_of(f)"""
    f = eng.to_v(args[-1])
    return k(Opq(RUN_OF(f)), st)


def _np_array(eng, args, kw, st, fr, k, node):
    if "dtype" in kw and st.env.get("f") is not None and "_run_id" in st.env:
        # ids = np.array([_run_id] * len(result), dtype=[("run_id", ...)])
        rep = z3.Function("fn:repeat", V, z3.IntSort(), V)
        want = rep(eng.to_v(st.env["_run_id"]), z3.Function("len", V, z3.IntSort())(RESULT(st.env["f"].t)))
        eng.oblige("pairing", "the run-id column holds the run id of the finished future, once per result row", st,
                   eng.to_v(args[0]) == want, node)
        dt = kw["dtype"]
        dt_ok = (isinstance(dt, list) and len(dt) == 1 and isinstance(dt[0], tuple) and len(dt[0]) == 2 and dt[0][0] == "run_id")
        eng.oblige("pairing", "the run-id column has the type of the run-id array as it was finally cast (bytes when run_id_as_bytes asks "
                              "for it) - not the type the array had before the cast", st,
                   eng.to_v(dt[0][1]) == z3.Function("attr_dtype", V, V)(eng.to_v(st.env["run_id_numpy"])) if dt_ok else z3.BoolVal(False), node)
        g = dict(st.ghost)
        g["ids"] = eng.fresh("ids", "V")
        return k(Opq(g["ids"]), St(st.env, st.heap, st.pc, g))
    if len(args) == 1 and not kw and args[0] is st.env.get("run_ids"):
        # run_id_numpy = np.array(run_ids): every requested run id, in the order given, duplicates included
        return k(Opq(ARRAY_OF(eng.to_v(args[0]))), st)
    return k(Opq(eng.fresh("array", "V")), st)


ARRAY_OF = z3.Function("fn:np.array", V, V)
SORTED = z3.Function("fn:stable_sort", V, V)


def _stable_sort(eng, args, kw, st, fr, k, node):
    eng.oblige("scheduling", "the list the runs are scheduled from holds every requested run id (duplicates included), sorted: "
                             "stable_sort of np.array(run_ids)", st, eng.to_v(args[0]) == ARRAY_OF(eng.to_v(st.env["run_ids"])), node)
    r = SORTED(eng.to_v(args[0]))
    return k(Opq(r), St(st.env, st.heap, st.pc, {**st.ghost, "sorted_ids": r}))


def _merge_arrs(eng, args, kw, st, fr, k, node):
    lst = args[0]
    ok = isinstance(lst, list) and len(lst) == 2
    eng.oblige("pairing", "the run-id column is merged with the result of the same future", st,
               z3.And(eng.to_v(lst[0]) == st.ghost["ids"], eng.to_v(lst[1]) == RESULT(st.env["f"].t)) if ok else z3.BoolVal(False), node)
    m = eng.fresh("with_run_id", "V")
    g = dict(st.ghost)
    g["merged"] = m
    return k(Opq(m), St(st.env, st.heap, st.pc, g))


def _append_result(eng, args, kw, st, fr, k, node):
    v = eng.to_v(args[-1])
    f = st.env["f"].t
    add = eng.truth(st.env["add_run_id_field"])
    eng.oblige("pairing", "what is collected is the finished future's result (with its run-id column when asked for)", st,
               z3.If(add, v == st.ghost["merged"], v == RESULT(f)), node)
    g = dict(st.ghost)
    g["n_results"] = g["n_results"] + 1
    g["last_result_of"] = f
    return k(PNONE, St(st.env, st.heap, st.pc, g))


def _append_id(eng, args, kw, st, fr, k, node):
    v = eng.to_v(args[-1])
    f = st.env["f"].t
    eng.oblige("pairing", "the run id recorded for ordering is the one of the future whose result was just collected", st,
               z3.And(v == RUN_OF(f), st.ghost["last_result_of"] == f, st.ghost["n_results"] == st.ghost["n_ids"] + 1), node)
    g = dict(st.ghost)
    g["n_ids"] = g["n_ids"] + 1
    return k(PNONE, St(st.env, st.heap, st.pc, g))


def _argsort(eng, args, kw, st, fr, k, node):
    eng.oblige("ordering", "the results are re-ordered by the run ids recorded alongside them", st,
               eng.equal(args[0], st.env["run_id_output"]), node)
    g = dict(st.ghost)
    g["sorted"] = z3.BoolVal(True)
    return k(Opq(eng.fresh("order", "V")), St(st.env, st.heap, st.pc, g))


def _islice(eng, args, kw, st, fr, k, node):
    """itertools.islice(run_id_numpy, lo, hi): which runs are scheduled next"""
    env = st.env
    eng.oblige("scheduling", "runs are scheduled from the sorted list of run ids", st, z3.BoolVal(args[0] is env.get("run_id_numpy")), node)
    eng.oblige("scheduling", "that list is the sorted array of ALL requested run ids, or its cast to bytes", st,
               z3.Or(eng.to_v(args[0]) == st.ghost["sorted_ids"],
                     eng.to_v(args[0]) == z3.Function("method:astype", V, V, V)(st.ghost["sorted_ids"], eng.to_v("S"))), node)
    if "futures_done" in env:
        n_done = z3.Function("len", V, z3.IntSort())(eng.to_v(env["futures_done"]))
        eng.oblige("scheduling", "after a round, as many further runs are scheduled as futures finished in it - failed and ignored ones "
                                 "included - starting at the first run not yet scheduled", st,
                   z3.And(eng.to_int(args[1]) == eng.to_int(env["task_index"]), eng.to_int(args[2]) == eng.to_int(env["task_index"]) + n_done,
                          z3.BoolVal("f" not in env or True)), node)
        eng.oblige("scheduling", "the refill happens once per round, not inside the handling of a single finished future", st,
                   z3.BoolVal(st.ghost.get("py:in_done_loop") is not True), node)
    else:
        eng.oblige("scheduling", "the first round schedules the first 2 x workers runs", st,
                   z3.And(eng.to_int(args[1]) == 0, eng.to_int(args[2]) == 2 * eng.to_int(env["max_workers"])), node)
    vs = [eng.to_v(x) for x in args]
    return k(Opq(z3.Function("fn:itertools.islice", V, V, V, V)(*vs)), st)


def _wait(eng, args, kw, st, fr, k, node):
    """wait(futures, return_when=FIRST_COMPLETED): a new round starts"""
    g = dict(st.ghost)
    g["ti_at_wait"] = eng.to_int(st.env["task_index"])
    g["round_handled"] = z3.BoolVal(False)
    return k((Opq(eng.fresh("done", "V")), Opq(eng.fresh("not_done", "V"))), St(st.env, st.heap, st.pc, g))


def _setup(eng, st):
    env = dict(st.env)
    env["#entry_kwargs"] = dict(st.env["kwargs"])
    return St(env, st.heap, st.pc, st.ghost)


def _mr_inv_done(S, a):
    g = a.ghost
    return [("results and their run ids are collected in lock step", g.n_results == g.n_ids)]


multi_run = REG.add(Contract(
    F, "multi_run",
    params=dict(exec_function="V", run_ids="V", args=("V",), max_workers="V", throw_away_result="bool", multi_run_progress_bar="bool",
                ignore_errors="bool", log="V", kwargs={"some_kw": "V"}),
    setup=_setup,
    ensures=lambda S, a, r: [("a returned list was put in run-id order; results are dropped only on request",
                              S.If(a.throw_away_result, r is PNONE, S.And(a.ghost.sorted, a.ghost.n_results == a.ghost.n_ids)))],
    raises={"Any": lambda S, a: S.Not(a.ignore_errors)},
    ghost={"n_submitted": z3.IntVal(0), "n_results": z3.IntVal(0), "n_ids": z3.IntVal(0), "sorted": z3.BoolVal(False),
           "last_submitted": z3.Const("no_future_submitted", V), "last_filed": z3.Const("no_future_filed", V), "ti_at_wait": z3.IntVal(0),
           "round_handled": z3.BoolVal(False), "sorted_ids": z3.Const("no_sorted_ids", V),
           "ids": z3.Const("no_ids", V), "merged": z3.Const("nothing_merged", V), "last_result_of": z3.Const("no_future", V)},
    calls={"exc.submit": _submit, "futures.pop": _futures_pop, "np.array": _np_array, "merge_arrs": _merge_arrs,
           "final_result.append": _append_result, "run_id_output.append": _append_id, "stable_argsort": _argsort,
           "stable_sort": _stable_sort, "np.unique": Abstract(pure=True), "np.sort": Abstract(pure=True), "sorted": Abstract(pure=True),
           "set": Abstract(pure=True), "np.any": Abstract(sort="bool"), "warn": Abstract(sort=None), "tqdm": Abstract(),
           "ThreadPoolExecutor": Abstract(), "itertools.islice": _islice, "wait": _wait,
           "logging.getLogger": Abstract(), "failures.append": Abstract(sort=None),
           "log.debug": Abstract(sort=None), "log.warning": Abstract(sort=None), "pbar.update": Abstract(sort=None), "pbar.close": Abstract(sort=None)},
    store_hooks={"futures": _futures_store},
    loops={1: Loop(_mr_inv_done, body_ensures=lambda S, a: [
               ("in every round ALL futures that finished are handled (the loop over them is not left early)", a.ghost.round_handled)]),
           2: Loop(_mr_inv_done, body_ensures=lambda S, a: [
               ("the handling of a finished future completes normally only if it succeeded or its failure is to be ignored "
                "(also when results are thrown away)", S.Or(EXCEPTION(S.v(a.f)) == NONE, a.ignore_errors))],
               on_exit=lambda eng, st: St(st.env, st.heap, st.pc, {**st.ghost, "round_handled": z3.BoolVal(True)})),
           3: Loop(lambda S, a: _mr_inv_done(S, a) + [
               ("each run scheduled in the refill advances the position in the list of run ids by one", a.task_index == a.ghost.ti_at_wait + a.k_)],
               body_ensures=lambda S, a: [("every future submitted in the refill is filed in the futures dict", a.ghost.last_filed == a.ghost.last_submitted)])},
    loop_ghost={1: ["n_submitted", "n_results", "n_ids", "ids", "merged", "last_result_of", "last_submitted", "last_filed", "ti_at_wait", "round_handled"],
                2: ["n_results", "n_ids", "ids", "merged", "last_result_of"], 3: ["n_submitted", "last_submitted", "last_filed"]},
    local_sorts={"futures": "V", "final_result": "V", "run_id_output": "V", "failures": "V", "task_index": "int", "tasks_done": "int"},
))
from pyvc.library import plain_with  # noqa: E402
multi_run.with_handler = plain_with

# the same contract for a call that passes the bookkeeping keywords (run_id_as_bytes / add_run_id_field): the branch that casts the
# run ids to bytes is only reachable then
import copy as _copy  # noqa: E402
multi_run_bytes = _copy.copy(multi_run)
multi_run_bytes.variant = "run_id_as_bytes / add_run_id_field given"
multi_run_bytes.params = dict(multi_run.params, kwargs={"some_kw": "V", "run_id_as_bytes": "bool", "add_run_id_field": "bool"})
REG.add(multi_run_bytes)
