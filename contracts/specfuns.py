"""Concrete definitions of the spec functions that appear as uninterpreted symbols in the proofs."""


def runs_overlap(runs):
    if runs is None:
        return False
    vals = sorted(runs.values(), key=lambda x: x["start"])
    return any(vals[i]["end"] > vals[i + 1]["start"] for i in range(len(vals) - 1))


def bad_subruns(subruns):
    if subruns is None:
        return False
    return (isinstance(subruns, dict) and None in subruns) or runs_overlap(subruns)


def bad_superrun(superrun, run_id):
    if superrun is None:
        return run_id is None
    if not isinstance(superrun, dict):
        return True
    return len(superrun) == 0 or None in superrun or (len(superrun) == 1 and run_id is None) or runs_overlap(superrun)
