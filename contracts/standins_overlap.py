"""Bounded stand-in for C09 on the real OverlapWindowPlugin: for window-local computations the concatenated output over any
chunking equals one computation over the whole run; output chunks are contiguous and, for multi-output plugins, aligned.
Driven through the real Plugin.iter with hand-made chunk iterators.  Concrete-only; labelled bounded."""

import contextlib
import io
import itertools
import warnings

import numpy as np

from pyvc.contract import Contract
from pyvc.harness import Harness

F = "strax/plugins/overlap_window_plugin.py"


def _in_dtype():
    import strax
    return strax.time_fields + [(("input value", "x"), np.int64)]


def _whole(rows, wl, wr, mode):
    """the window-local computation on the whole run"""
    out = []
    if mode == "per_row":
        for (t, e) in rows:
            n = sum(1 for (t2, e2) in rows if e2 > t - wl and t2 < e + wr)      # rows touching [t - wl, e + wr)
            out.append((t, e, n))
    else:   # per group: rows closer than the look-ahead window are one group (needs wr >= 1)
        group = []
        for (t, e) in rows:
            if group and t - group[-1][1] > wr:
                out.append((group[0][0], group[-1][1], len(group)))
                group = []
            group.append((t, e))
        if group:
            out.append((group[0][0], group[-1][1], len(group)))
    return out


def _native(i):
    with contextlib.redirect_stdout(io.StringIO()), contextlib.redirect_stderr(io.StringIO()):
        return _native_(i)


def _native_(i):
    import strax
    warnings.simplefilter("ignore")
    wl, wr, mode = i["window"][0], i["window"][1], i["mode"]
    out_dtype = strax.time_fields + [(("neighbours", "n"), np.int64)]

    def compute(self, k):
        rows = [(int(r["time"]), int(r["endtime"])) for r in k]
        res = _whole(rows, wl, wr, mode)
        r = np.zeros(len(res), dtype=out_dtype)
        for j, (t, e, n) in enumerate(res):
            r[j]["time"], r[j]["endtime"], r[j]["n"] = t, e, n
        if self.multi_output:
            return {"out": r, "out2": r.copy()}
        return r

    attrs = dict(depends_on=("src",), data_kind={"out": "ko", "out2": "ko2"} if i["multi"] else "ko",
                 provides=("out", "out2") if i["multi"] else ("out",), compute=compute, __version__="0",
                 get_window_size=(lambda self: (wl, wr)) if i["tuple_window"] else (lambda self: wl))
    if i["multi"]:
        attrs["dtype"] = {"out": out_dtype, "out2": out_dtype}
    else:
        attrs["dtype"] = out_dtype
    P = type("OW", (strax.OverlapWindowPlugin,), attrs)
    Src = type("Src", (strax.Plugin,), dict(provides=("src",), depends_on=(), data_kind="k", dtype=_in_dtype(), __version__="0"))
    p = P()
    p.run_id = "0"
    p.deps = {"src": Src()}
    p.deps["src"].run_id = "0"
    p.deps["src"].fix_dtype()
    p.config = {}
    p.fix_dtype()
    rows = [tuple(r) for r in i["rows"]]
    cuts = i["cuts"]
    chunks = []
    for a, b in zip(cuts, cuts[1:]):
        sel = [(t, e) for (t, e) in rows if a <= t and e <= b and a != b]
        d = np.zeros(len(sel), dtype=_in_dtype())
        for j, (t, e) in enumerate(sel):
            d[j]["time"], d[j]["endtime"], d[j]["x"] = t, e, t
        chunks.append(strax.Chunk(start=a, end=b, data=d, data_type="src", data_kind="k", dtype=d.dtype, run_id="0", target_size_mb=200))
    res = dict(error=None, out=[], out2=[], spans=[], spans2=[])
    try:
        for c in p.iter({"src": iter(chunks)}):
            both = c if isinstance(c, dict) else {"out": c}
            for name, key, skey in (("out", "out", "spans"), ("out2", "out2", "spans2")):
                if name in both:
                    ch = both[name]
                    res[key] += [(int(r["time"]), int(r["endtime"]), int(r["n"])) for r in ch.data]
                    res[skey].append((int(ch.start), int(ch.end)))
    except Exception as ex:  # noqa
        res["error"] = f"{type(ex).__name__}: {str(ex)[:140]}"
    return res


def _ens(S, a, r):
    rows = [tuple(x) for x in a.rows]
    wl, wr = (a.window[0], a.window[1]) if a.tuple_window else (a.window[0], a.window[0])
    want = _whole(rows, wl, wr, a.mode)
    out = [("no error: " + str(r["error"]), r["error"] is None),
           ("the concatenated output equals one computation over the whole run (nothing lost, duplicated or computed from incomplete "
            "neighbours at a chunk boundary)", [tuple(x) for x in r["out"]] == want),
           ("output chunks are contiguous and cover the run", bool(r["spans"]) and r["spans"][0][0] == a.cuts[0] and r["spans"][-1][1] == a.cuts[-1]
            and all(x[1] == y[0] for x, y in zip(r["spans"], r["spans"][1:])))]
    if a.multi:
        out += [("both outputs of a multi-output plugin carry the same rows", [tuple(x) for x in r["out2"]] == want),
                ("and their chunks are mutually aligned", r["spans2"] == r["spans"])]
    return out


def _row_sets(T):
    return [[], [(0, 1)], [(1, 2), (2, 3)], [(0, 1), (2, 3), (4, 5), (6, 7)], [(0, 3), (3, 4), (6, 8)], [(1, 2), (3, 7)],
            [(0, 1), (1, 2), (2, 3), (3, 4), (4, 5), (5, 6), (6, 7), (7, 8)]]


def _gen(rng, tier):
    T = 8
    thorough = tier == "thorough"
    windows = [(0, 0), (1, 1), (2, 2), (0, 2), (2, 0), (1, 3)]
    # three and more chunks with a middle chunk SHORTER than the windows (inputs must be carried over more than one call), dense rows,
    # also windows with a look-back much larger than the look-ahead
    for T2, cuts in ((24, [0, 10, 12, 24]), (24, [0, 8, 9, 10, 24]), (30, [0, 10, 13, 30]), (24, [0, 10, 10, 12, 24])):
        dense = [[t, t + 1] for t in range(T2)]
        for (wl, wr) in ((2, 2), (3, 1), (5, 1), (1, 4)):
            for multi in (False, True):
                yield dict(rows=dense, cuts=cuts, window=[wl, wr], tuple_window=True, multi=multi, mode="per_row")
        yield dict(rows=dense, cuts=cuts, window=[3, 3], tuple_window=False, multi=False, mode="per_row")
    for rows in _row_sets(T):
        inner = [t for t in range(1, T) if not any(x < t < y for x, y in rows)]
        cutsets = []
        for k in range(0, min(4, len(inner)) + 1):
            for comb in itertools.combinations(inner, k):
                cutsets.append([0] + list(comb) + [T])
        rng.shuffle(cutsets)
        for cuts in cutsets[: (25 if thorough else 4)]:
            if rng.random() < 0.3 and len(cuts) > 2:
                j = rng.randrange(1, len(cuts) - 1)
                cuts = cuts[:j + 1] + cuts[j:]      # a zero-duration (empty) chunk
            for (wl, wr) in (windows if thorough else rng.sample(windows, 3)):
                for multi in (False, True):
                    tuple_window = wl != wr or rng.random() < 0.5
                    w = (wl, wr) if tuple_window else (wl, wl)
                    yield dict(rows=[list(x) for x in rows], cuts=cuts, window=list(w), tuple_window=tuple_window, multi=multi, mode="per_row")
                    if w[1] >= 1 and not multi:
                        yield dict(rows=[list(x) for x in rows], cuts=cuts, window=list(w), tuple_window=tuple_window, multi=False, mode="per_group")


overlap_window = Contract(
    F, "OverlapWindowPlugin.iter / do_compute", params=dict(rows="V", cuts="V", window="V", tuple_window="bool", multi="bool", mode="V"),
    ensures=_ens, raises={},
    harness=Harness(native=_native, gen=_gen,
                    scope="dense rows on 0..24 / 0..30 in 3-4 chunks with a middle chunk shorter than the windows x windows (2,2) (3,1) (5,1) (1,4) 3; "
                          "7 sets of disjoint sorted rows on the grid 0..8 (rows longer than the window, touching rows, gaps), law-abiding "
                          "chunkings with up to 4 inner cuts and zero-duration chunks (quick: 4, thorough: 25 per row set), windows "
                          "(0,0) (1,1) (2,2) (0,2) (2,0) (1,3) given as a number or a pair, single- and two-output plugin, one output row per input row "
                          "(neighbour count within the window) or per group (rows closer than the look-ahead window)",
                    nontrivial=lambda i: len(i["cuts"]) > 2))
