"""Contracts for strax/chunk.py (laws of chunking: C07, C12, C14)."""

from pyvc.contract import Contract, Loop, REG
from pyvc.engine import RowsT, ArrT, ObjT, TupleT

F = "strax/chunk.py"

INTERVALS = RowsT(time="int", endtime="int")


# --------------------------------------------------------------------------------------
# data-model predicates (laws of chunking for one array)
# --------------------------------------------------------------------------------------
def sorted_by_time(S, x):
    return S.forall2(0, x.n, 0, x.n, lambda i, j: S.Implies(i <= j, x.f("time", i) <= x.f("time", j)))


def positive_duration(S, x):
    return S.forall(0, x.n, lambda i: x.f("endtime", i) > x.f("time", i))


def nonneg_times(S, x):
    return S.forall(0, x.n, lambda i: x.f("time", i) >= 0)


def straddles(S, x, j, s):
    return S.And(x.f("time", j) < s, s < x.f("endtime", j))


# --------------------------------------------------------------------------------------
# split_array
# --------------------------------------------------------------------------------------
def _sa_requires(S, a):
    d = a.data
    return [("data sorted by time", sorted_by_time(S, d)),
            ("rows have positive duration", positive_duration(S, d)),
            ("times are non-negative", nonneg_times(S, d))]


def _sa_ensures(S, a, r):
    left, right, t2 = r
    d, t = a.data, a.t
    N, k = d.n, left.n
    some_straddle = S.exists(0, N, lambda j: straddles(S, d, j, t))
    return [
        ("rows concatenate to the original (left = data[:k], right = data[k:])",
         S.And(0 <= k, k <= N, S.is_slice(left, d, 0, k), S.is_slice(right, d, k, N - k))),
        ("every left row ends at or before the split time", S.forall(0, k, lambda j: d.f("endtime", j) <= t2)),
        ("every right row starts at or after the split time", S.forall(k, N, lambda j: d.f("time", j) >= t2)),
        ("split time is never later than requested", t2 <= t),
        ("no row straddles t  =>  split exactly at t", S.Implies(S.Not(some_straddle), t2 == t)),
        ("a moved split time only with allow_early_split", S.Implies(some_straddle, a.allow_early_split)),
        ("early split goes to the LATEST admissible time: every s in (t', t] is straddled by a row",
         S.forall_val(t2 + 1, t + 1, lambda s: S.exists(0, N, lambda j: straddles(S, d, j, s)))),
    ]


def _sa_inv(S, a):
    d, t, i = a.data, a.old.t, a.k_
    L, sp = a.latest_end_seen, a.splittable_i
    N = d.n
    return [
        ("entry facts", S.And(a.i_first_beyond == -1, N > 0, d.f("time", 0) < t, a.t == t)),
        ("latest_end_seen is the running maximum of the ends seen (or -1)",
         S.Or(S.And(i == 0, L == -1),
              S.And(i > 0, S.forall(0, i, lambda j: d.f("endtime", j) <= L),
                    S.exists(0, i, lambda j: d.f("endtime", j) == L)))),
        ("nothing seen ends after t", L <= t),
        ("all rows seen start before t", S.forall(0, i, lambda j: d.f("time", j) < t)),
        ("splittable_i is a seen index", S.And(0 <= sp, S.Implies(i > 0, sp < i), S.Implies(i == 0, sp == 0))),
        ("rows before splittable_i end before it starts",
         S.forall(0, sp, lambda j: d.f("endtime", j) <= d.f("time", sp))),
        ("every time between splittable_i's start and the running maximum is straddled",
         S.Implies(i > 0, S.forall_val(d.f("time", sp) + 1, L, lambda s: S.exists(0, i, lambda j: straddles(S, d, j, s))))),
        ("running maximum covers splittable_i", S.Implies(i > 0, L >= d.f("endtime", sp))),
    ]


def _sa_result(eng, st, bound):
    from pyvc.engine import Arr
    import z3
    d = bound["data"]
    k = eng.fresh("split_k")
    t2 = eng.fresh("split_t")
    left = Arr(d.base, None, d.lo, k)
    right = Arr(d.base, None, z3.simplify(d.lo + k), d.n - k)
    return (left, right, t2), st


split_array = REG.add(Contract(
    F, "split_array",
    params=dict(data=INTERVALS, t="int", allow_early_split="bool"),
    requires=_sa_requires,
    ensures=_sa_ensures,
    raises={"CannotSplit": lambda S, a: S.And(
        S.Not(a.allow_early_split), S.exists(0, a.data.n, lambda j: straddles(S, a.data, j, a.t)))},
    loops={1: Loop(_sa_inv)},
    call_names=("split_array", "strax.split_array"),
    make_result=_sa_result,
))


# --------------------------------------------------------------------------------------
# Chunk objects
# --------------------------------------------------------------------------------------
from pyvc.engine import ClassModel, Opq, PNONE  # noqa: E402
from pyvc.library import (Abstract, attr_alias, inline_property, setter_contract, inline_source)  # noqa: E402

RTFD = "strax.remove_titles_from_dtype"
INT_KEY = "int+np.integer"

# -- property setters (sub/superrun bookkeeping; their ValueErrors carry the modelling class ValueError:runs)
_SELF_BARE = ObjT("Chunk")

subruns_setter = REG.add(Contract(
    F, "Chunk.subruns@setter", params=dict(self=_SELF_BARE, subruns="V"),
    raises={"ValueError:runs": lambda S, a: S.call("contracts.specfuns.bad_subruns", a.subruns, sort="bool")},
    ensures=lambda S, a, r: [("stored", S.true)], modifies=["self._subruns"]))

superrun_setter = REG.add(Contract(
    F, "Chunk.superrun@setter", params=dict(self=_SELF_BARE, superrun="V"),
    raises={"ValueError:runs": lambda S, a: S.true},
    ensures=lambda S, a, r: [("stored", S.true)], modifies=["self._superrun"]))

INIT_MODEL = ClassModel(setters={"subruns": setter_contract(subruns_setter), "superrun": setter_contract(superrun_setter)})

_INIT_CALLS = {
    "np.dtype": Abstract(pure=True, note="dtype normalisation"),
    RTFD: Abstract(pure=True, note="pure function of the dtype"),
}


def _init_data_ok(S, a, data):
    """The constructor's range clauses for a structured array ``data``."""
    start, end = S.to_int(a.start), S.to_int(a.end)
    n = data.n
    lo = S.max(n - 500, 0)
    return S.Implies(n > 0, S.And(data.f("time", 0) >= start,
                                  S.forall(lo, n, lambda i: data.f("endtime", i) <= end)))


def _init_common_ens(S, a, data_clauses):
    o = a.self
    return [
        ("start and end are integers", S.And(S.is_instance(a.start, INT_KEY), S.is_instance(a.end, INT_KEY))),
        ("start / end stored as given", S.And(o.start == S.to_int(a.start), o.end == S.to_int(a.end))),
        ("0 <= start <= end", S.And(0 <= o.start, o.start <= o.end)),
        ("metadata stored as given", S.And(S.eq(o.data_type, a.data_type), S.eq(o.data_kind, a.data_kind),
                                           S.eq(o.run_id, a.run_id), S.eq(o.target_size_mb, a.target_size_mb))),
    ] + data_clauses


def _init_rows_ens(S, a, r):
    o = a.self
    return _init_common_ens(S, a, [
        ("the data is the array given", S.is_slice(o.data, a.data, 0, a.data.n)),
        ("dtype of the data equals the declared dtype (titles removed)",
         S.eq(S.call(RTFD, S.arr_dtype(a.data)), S.call(RTFD, a.dtype))),
        ("first row starts inside, and the last 500 rows end inside the chunk", _init_data_ok(S, a, a.data)),
    ])


def _init_rows_raise(S, a):
    start, end = S.to_int(a.start), S.to_int(a.end)
    return S.Or(S.Not(S.And(S.is_instance(a.start, INT_KEY), S.is_instance(a.end, INT_KEY))),
                S.Not(S.eq(S.call(RTFD, S.arr_dtype(a.data)), S.call(RTFD, a.dtype))),
                start < 0, start > end, S.Not(_init_data_ok(S, a, a.data)))


def _dtype_axiom(S, a):
    return [("library axiom: remove_titles_from_dtype(np.dtype(x)) = remove_titles_from_dtype(x) "
             "(the function itself starts with np.dtype(x))",
             S.eq(S.call(RTFD, S.call("np.dtype", a.dtype)), S.call(RTFD, a.dtype)))]


_INIT_PARAMS = dict(self=ObjT("Chunk", model=INIT_MODEL), data_type="V", data_kind="V", dtype="V", run_id="V",
                    start="V", end="V", subruns="V", superrun="V", target_size_mb="V")

chunk_init_rows = REG.add(Contract(
    F, "Chunk.__init__", variant="data=ndarray",
    params=dict(_INIT_PARAMS, data=INTERVALS),
    ensures=_init_rows_ens,
    raises={"ValueError": _init_rows_raise, "ValueError:runs": lambda S, a: S.true},
    calls=_INIT_CALLS, constructor=True,
    call_names=("strax.Chunk", "Chunk"),
))

chunk_init_none = REG.add(Contract(
    F, "Chunk.__init__", variant="data=None",
    params=dict(_INIT_PARAMS, data=lambda eng, name, st: (PNONE, st)),
    ensures=lambda S, a, r: _init_common_ens(S, a, [("an empty array stands in for None", a.self.data.n == 0)]),
    raises={"ValueError": lambda S, a: S.Or(
        S.Not(S.And(S.is_instance(a.start, INT_KEY), S.is_instance(a.end, INT_KEY))),
        S.to_int(a.start) < 0, S.to_int(a.start) > S.to_int(a.end)),
        "ValueError:runs": lambda S, a: S.true},
    calls=_INIT_CALLS, constructor=True, lemma_facts=_dtype_axiom,
))

chunk_init_other = REG.add(Contract(
    F, "Chunk.__init__", variant="data=not-an-array",
    params=dict(_INIT_PARAMS, data="V"),
    requires=lambda S, a: [("data is neither None nor an ndarray",
                            S.And(S.Not(S.is_none(a.data)), S.Not(S.is_instance(a.data, "np.ndarray"))))],
    ensures=lambda S, a, r: [("a chunk is never created around something that is not an array", S.false)],
    # any exception will do: formatting the error message may itself fail on a non-array (AttributeError from
    # __repr__), which still stops processing - the property only asks for "an exception"
    raises={"Exception": lambda S, a: S.true},
    calls=_INIT_CALLS, constructor=True,
))


# -- fully formed chunks ---------------------------------------------------------------------
def _get_subrun_model(eng, args, kw, st, fr, k, node):
    import z3
    from pyvc.engine import V
    ref, idx = args[0], args[1]
    f = z3.Function("fn:get_subrun", V, V, V)
    return k(Opq(f(st.heap[ref.base]["_subruns"].t, eng.to_v(idx))), st)


def _chunk_len(eng, ref, st, fr, k, node):
    return k(st.heap[ref.base]["data"].n, st)


CHUNK_MODEL = ClassModel(
    props={"subruns": attr_alias("_subruns"), "superrun": attr_alias("_superrun"),
           "is_superrun": inline_property(F, "Chunk.is_superrun"),
           "promised_continuity": inline_property(F, "Chunk.promised_continuity"),
           "first_subrun": inline_property(F, "Chunk.first_subrun"),
           "last_subrun": inline_property(F, "Chunk.last_subrun"),
           "duration": inline_property(F, "Chunk.duration")},
    methods={"_get_subrun": _get_subrun_model},
    len_handler=_chunk_len)

CHUNK = ObjT("Chunk", model=CHUNK_MODEL, data=INTERVALS, start="int", end="int", dtype="V", data_type="V",
             data_kind="V", run_id="V", target_size_mb="V", _subruns="V", _superrun="V")


def _init_obj(eng, st, bound, ref):
    """Callers' view of a constructed chunk: its attributes are the arguments themselves."""
    import z3
    st = st.with_cell(ref.base, "data", bound["data"])
    st = st.with_cell(ref.base, "start", eng.to_int(bound["start"]))
    st = st.with_cell(ref.base, "end", eng.to_int(bound["end"]))
    for a in ("data_type", "data_kind", "run_id", "target_size_mb"):
        st = st.with_cell(ref.base, a, Opq(eng.to_v(bound[a])))
    st = st.with_cell(ref.base, "dtype", Opq(z3.Function("fn:np.dtype", __import__("pyvc.engine", fromlist=["V"]).V,
                                                        __import__("pyvc.engine", fromlist=["V"]).V)(eng.to_v(bound["dtype"]))))
    st = st.with_cell(ref.base, "_subruns", Opq(z3.Function("fn:contracts.specfuns.norm_runs", __import__("pyvc.engine", fromlist=["V"]).V, __import__("pyvc.engine", fromlist=["V"]).V)(eng.to_v(bound["subruns"]))))
    return st


chunk_init_rows.new_obj = CHUNK
chunk_init_rows.init_obj = _init_obj


def chunk_wf(S, c):
    """Data-model invariant of a chunk (laws of chunking)."""
    d = c.data
    return [("0 <= start <= end", S.And(0 <= c.start, c.start <= c.end)),
            ("rows sorted by time", sorted_by_time(S, d)),
            ("rows have positive duration", positive_duration(S, d)),
            ("every row lies wholly inside the chunk",
             S.forall(0, d.n, lambda i: S.And(c.start <= d.f("time", i), d.f("endtime", i) <= c.end))),
            ("dtype of the data is the chunk's dtype",
             S.eq(S.call(RTFD, S.arr_dtype(d)), S.call(RTFD, c.dtype))),
            ("the chunk's dtype attribute is a numpy dtype", S.eq(S.call("np.dtype", c.dtype), c.dtype))]


def _split_runs_result(eng, st, bound):
    import z3
    from pyvc.engine import V
    sr, t = eng.to_v(bound["subruns"]), eng.to_v(bound["t"])
    f0 = z3.Function("fn:split_runs_first", V, V, V)
    f1 = z3.Function("fn:split_runs_second", V, V, V)
    return (Opq(f0(sr, t)), Opq(f1(sr, t))), st


def _runs_half(which, runs, t, what="runs"):
    """the run annotation the constructor stores for one half: normalised split of ``runs`` at t"""
    import z3
    from pyvc.engine import V, int2v
    f = z3.Function("fn:split_runs_first" if which == 0 else "fn:split_runs_second", V, V, V)
    norm = z3.Function("fn:contracts.specfuns.norm_runs" if what == "runs" else "fn:contracts.specfuns.norm_superrun", V, V)
    return norm(f(runs, int2v(t) if z3.is_int(t) else t))


split_runs_abstract = Contract(
    F, "_split_runs_in_chunk", params=dict(subruns="V", t="int"), raises={},
    make_result=_split_runs_result,
    notes="callers' view: a pure function of (subruns, t); its own proof obligation is in the C14 group")


def _csplit_ensures(S, a, r):
    c1, c2 = r
    o = a.self
    d = o.data
    that = S.max(S.min(a.t, o.end), o.start)        # the requested time clamped into the chunk
    t2 = c1.end
    k = c1.data.n
    inside = S.And(o.start < that, that < o.end)
    some_straddle = S.exists(0, d.n, lambda j: straddles(S, d, j, that))
    meta = lambda c: S.And(S.eq(c.data_type, o.data_type), S.eq(c.data_kind, o.data_kind),
                           S.eq(c.target_size_mb, o.target_size_mb),
                           S.eq(c.dtype, o.dtype))
    return [
        ("two adjacent chunks covering the original range",
         S.And(c1.start == o.start, c1.end == c2.start, c2.end == o.end, o.start <= t2, t2 <= o.end)),
        ("hint: the requested time clamped into the chunk", S.And(o.start <= that, that <= o.end)),
        ("hint: the time the rows were split at lies inside the chunk", S.And(a.local.t >= o.start, t2 == a.local.t)),
        ("rows concatenate to the original", S.And(0 <= k, k <= d.n, c2.data.n == d.n - k,
                                                   S.forall(0, k, lambda j: S.And(
                                                       c1.data.f("time", j) == d.f("time", j),
                                                       c1.data.f("endtime", j) == d.f("endtime", j))),
                                                   S.forall(0, d.n - k, lambda j: S.And(
                                                       c2.data.f("time", j) == d.f("time", k + j),
                                                       c2.data.f("endtime", j) == d.f("endtime", k + j))))),
        ("every row lies entirely on one side of the split time",
         S.And(S.forall(0, k, lambda j: d.f("endtime", j) <= t2), S.forall(k, d.n, lambda j: d.f("time", j) >= t2))),
        ("split time never later than requested", t2 <= that),
        ("no straddling row => split exactly at the (clamped) requested time", S.Implies(S.Not(some_straddle), t2 == that)),
        ("a moved split time only with allow_early_split", S.Implies(t2 != that, a.allow_early_split)),
        ("early split goes to the latest admissible time",
         S.forall_val(t2 + 1, that + 1, lambda s: S.exists(0, d.n, lambda j: straddles(S, d, j, s)))),
        ("metadata carried over to both halves", S.And(meta(c1), meta(c2))),
        ("each half records the parts of the subruns on its side of the split time (C14)",
         S.And(S.eq(c1._subruns, _runs_half(0, o._subruns, t2)), S.eq(c2._subruns, _runs_half(1, o._subruns, t2)))),
        ("both halves are well-formed chunks again", S.And(S.And(*[f for _, f in chunk_wf(S, c1)]),
                                                           S.And(*[f for _, f in chunk_wf(S, c2)]))),
    ]


chunk_split = REG.add(Contract(
    F, "Chunk.split",
    params=dict(self=CHUNK, t="int", allow_early_split="bool"),
    requires=lambda S, a: chunk_wf(S, a.self),
    ensures=_csplit_ensures,
    raises={"CannotSplit": lambda S, a: S.And(
        S.Not(a.allow_early_split),
        S.exists(0, a.self.data.n, lambda j: straddles(
            S, a.self.data, j, S.max(S.min(a.t, a.self.end), a.self.start)))),
        "ValueError:runs": lambda S, a: S.true},
    calls={"_split_runs_in_chunk": split_runs_abstract},
    notes="ValueError from the sub/superrun bookkeeping of the two constructor calls is not analysed here (C14)",
    returns=TupleT(CHUNK, CHUNK),
))
CHUNK_MODEL.methods["split"] = chunk_split


# --------------------------------------------------------------------------------------
# continuity_check (generator over an input iterator)
# --------------------------------------------------------------------------------------
from pyvc.generators import IterT  # noqa: E402
import z3 as _z3  # noqa: E402
from pyvc.engine import V as _V  # noqa: E402


def _attr(S, name, v):
    """attribute ``name`` of an opaque chunk value (the same symbol the engine uses)."""
    if S.symbolic:
        return _z3.Function("attr_" + name, _V, _V)(v)
    return getattr(v, name)


def _getitem(S, v, key):
    if S.symbolic:
        from pyvc.engine import strv
        return _z3.Function("getitem", _V, _V, _V)(v, strv(key))
    return v[key] if v is not None else None


def _expected_start(S, prev, cur):
    """(defined, value): where chunk ``cur`` has to start, given its predecessor ``prev``."""
    same_run = S.eq(_attr(S, "run_id", cur), _attr(S, "run_id", prev))
    is_super = S.truthy(_attr(S, "is_superrun", cur))
    same_subrun = S.eq(_getitem(S, _attr(S, "first_subrun", cur), "run_id"),
                       _getitem(S, _attr(S, "last_subrun", prev), "run_id"))
    defined = S.And(same_run, S.Or(S.Not(is_super), same_subrun))
    if S.symbolic:
        value = _z3.If(is_super, _getitem(S, _attr(S, "last_subrun", prev), "end"), _attr(S, "end", prev))
    else:
        value = _getitem(S, _attr(S, "last_subrun", prev), "end") if is_super else _attr(S, "end", prev)
    return defined, value


def _pair_ok(S, prev, cur):
    """Continuity law: within one run (and, for superruns, within one subrun) a chunk that promises
    continuity starts where its predecessor (resp. the predecessor's last subrun) ended."""
    defined, value = _expected_start(S, prev, cur)
    return S.Implies(S.And(defined, S.Not(S.is_none(value)), S.truthy(_attr(S, "promised_continuity", cur))),
                     S.eq(_attr(S, "start", cur), value))


def _plain_pair_ok(S, prev, cur):
    """Corollary for two consecutive ordinary (non-superrun) chunks of the same run."""
    same_run = S.eq(_attr(S, "run_id", cur), _attr(S, "run_id", prev))
    plain = S.Not(S.truthy(_attr(S, "is_superrun", cur)))
    return S.Implies(S.And(same_run, plain), S.eq(_attr(S, "start", cur), _attr(S, "end", prev)))


def _cc_inv(S, a):
    k, it = a.k_, a.chunk_iter
    prev = it.at(k - 1)
    return [
        ("everything consumed so far has been yielded, in order",
         S.And(a.out.n == k, S.forall(0, k, lambda j: a.out.at(j) == it.at(j)))),
        ("all consecutive pairs seen so far are continuous",
         S.forall(1, k, lambda j: _pair_ok(S, it.at(j - 1), it.at(j)))),
        ("bookkeeping: nothing remembered before the first chunk",
         S.Implies(k == 0, S.And(S.is_none(a.last_end), S.is_none(a.last_runid)))),
        ("bookkeeping: last_end / last_runid / last_subrun describe the previous chunk",
         S.Implies(k > 0, S.And(S.eq(a.last_end, _attr(S, "end", prev)), S.eq(a.last_runid, _attr(S, "run_id", prev)),
                                S.eq(a.last_subrun, _attr(S, "last_subrun", prev))))),
    ]


def _cc_exc(S, a, exc):
    """State at a raise: position k (number of chunks already yielded) breaks the law."""
    it = a.chunk_iter
    k = a.out.n
    return [("the chunks before the offender were yielded in order, the offender itself is not yielded",
             S.And(k >= 1, k < it.n, S.forall(0, k, lambda j: a.out.at(j) == it.at(j)))),
            ("the offender really breaks the continuity law", S.Not(_pair_ok(S, it.at(k - 1), it.at(k))))]


continuity_check = REG.add(Contract(
    F, "continuity_check",
    params=dict(chunk_iter=IterT()),
    requires=lambda S, a: [
        ("run ids and chunk ends are never None", S.forall(
            0, a.chunk_iter.n, lambda j: S.And(S.Not(S.is_none(_attr(S, "run_id", a.chunk_iter.at(j)))),
                                               S.Not(S.is_none(_attr(S, "end", a.chunk_iter.at(j))))))),
        ("subrun ids of superrun chunks are never None (enforced by the subruns setter)", S.forall(
            0, a.chunk_iter.n, lambda j: S.Implies(
                S.truthy(_attr(S, "is_superrun", a.chunk_iter.at(j))),
                S.And(S.Not(S.is_none(_getitem(S, _attr(S, "first_subrun", a.chunk_iter.at(j)), "run_id"))),
                      S.Not(S.is_none(_getitem(S, _attr(S, "last_subrun", a.chunk_iter.at(j)), "run_id"))))))),
        ("an ordinary chunk always promises continuity (contract of Chunk.promised_continuity, proved below)",
         S.forall(0, a.chunk_iter.n, lambda j: S.Implies(
             S.Not(S.truthy(_attr(S, "is_superrun", a.chunk_iter.at(j)))),
             S.truthy(_attr(S, "promised_continuity", a.chunk_iter.at(j))))))],
    ensures=lambda S, a, r: [
        ("every input chunk is yielded exactly once, in order",
         S.And(a.out.n == a.chunk_iter.n, S.forall(0, a.out.n, lambda j: a.out.at(j) == a.chunk_iter.at(j)))),
        ("consecutive chunks obey the continuity law (also across subrun borders of a superrun)",
         S.forall(1, a.chunk_iter.n, lambda j: _pair_ok(S, a.chunk_iter.at(j - 1), a.chunk_iter.at(j)))),
        ("in particular consecutive ordinary chunks of one run are contiguous",
         S.forall(1, a.chunk_iter.n, lambda j: _plain_pair_ok(S, a.chunk_iter.at(j - 1), a.chunk_iter.at(j))))],
    raises={"ValueError": lambda S, a: S.true},
    exc_ensures=_cc_exc,
    loops={1: Loop(_cc_inv)},
    local_sorts={"last_end": "V", "last_runid": "V", "last_subrun": "V"},
    yields=lambda S, a, v: [("the chunk yielded is the one just received", S.true)],
    call_names=("continuity_check", "strax.continuity_check"),
))


promised_continuity = REG.add(Contract(
    F, "Chunk.promised_continuity",
    params=dict(self=CHUNK),
    ensures=lambda S, a, r: [("an ordinary (non-superrun) chunk always promises continuity",
                              S.Implies(S.Not(S.And(S.truthy(a.self._subruns), _z3.Function(
                                  "startswith", _V, _V, _z3.BoolSort())(a.self.run_id, __import__("pyvc.engine", fromlist=["strv"]).strv("_")))), r))],
    raises={},
))


# --------------------------------------------------------------------------------------
# Chunk.concatenate (two chunks of one run): spans both, rows of the first followed by the rows of the second
# --------------------------------------------------------------------------------------
from pyvc.contract import make_symbolic as _mk  # noqa: E402
from pyvc.engine import St as _St, Exc as _Exc, Unsupported  # noqa: E402
import z3  # noqa: E402


def _np_concatenate(eng, args, kw, st, fr, k, node):
    """np.concatenate([a, b]) of two structured arrays of one dtype (library model): a new array, rows of a then rows of b"""
    parts = args[0]
    if not (isinstance(parts, list) and len(parts) == 2):
        raise Unsupported("np.concatenate of other than two arrays")
    a, b = parts
    res, st = _mk(eng, eng.new_base("concatenated"), INTERVALS, st, set())
    S = eng.S
    rv, av, bv = eng.resolve(res, st.heap), eng.resolve(a, st.heap), eng.resolve(b, st.heap)
    eng.assumptions.add("library model: np.concatenate([a, b]) of equally typed arrays holds the rows of a followed by the rows of b and has their dtype")
    st = st.assume(S.b(rv.n == av.n + bv.n))
    for f in ("time", "endtime"):
        st = st.assume(S.b(S.forall(0, av.n, lambda j: rv.f(f, j) == av.f(f, j))))
        st = st.assume(S.b(S.forall(0, bv.n, lambda j: rv.f(f, av.n + j) == bv.f(f, j))))
    st = st.assume(S.b(S.eq(S.arr_dtype(rv), S.arr_dtype(av))))
    g = dict(st.ghost)
    g["py:cat"] = res
    return k(res, _St(st.env, st.heap, st.pc, g))


def _merge_ann(eng, args, kw, st, fr, k, node):
    fr.on_raise(_Exc("ValueError:runs"), st)
    return k(Opq(eng.fresh("merged_annotation", "V")), st)


def _cc2_requires(S, a):
    c0, c1 = a.chunks
    return chunk_wf(S, c0) + chunk_wf(S, c1) + [
        ("both chunks have the same dtype, data type and kind (they belong to one data type)",
         S.And(S.eq(c0.dtype, c1.dtype), S.eq(c0.data_type, c1.data_type), S.eq(c0.data_kind, c1.data_kind))),
        ("chunks of one run", S.And(S.eq(c0.run_id, c1.run_id), S.Not(S.is_none(c0.run_id))))]


def _cc2_ens(S, a, r):
    c0, c1 = a.chunks
    return [("the result spans both chunks", S.And(r.start == c0.start, r.end == c1.end)),
            ("it holds the rows of the first chunk followed by the rows of the second, unchanged",
             S.And(r.data.n == c0.data.n + c1.data.n,
                   S.forall(0, c0.data.n, lambda j: S.And(r.data.f("time", j) == c0.data.f("time", j), r.data.f("endtime", j) == c0.data.f("endtime", j))),
                   S.forall(0, c1.data.n, lambda j: S.And(r.data.f("time", c0.data.n + j) == c1.data.f("time", j),
                                                          r.data.f("endtime", c0.data.n + j) == c1.data.f("endtime", j))))),
            ("data type, kind and run id are those of the parts", S.And(S.eq(r.data_type, c0.data_type), S.eq(r.data_kind, c0.data_kind),
                                                                         S.eq(r.run_id, c0.run_id))),
            ("only chunks in time order are joined", c0.end <= c1.start),
            ("the result is a well-formed chunk again", S.And(*[f for _, f in chunk_wf(S, r)]))]


concatenate2 = REG.add(Contract(
    F, "Chunk.concatenate", variant="two chunks of one run",
    params=dict(cls="V", chunks=(CHUNK, CHUNK), allow_superrun="V"),
    requires=_cc2_requires,
    ensures=_cc2_ens,
    raises={"ValueError": lambda S, a: a.chunks[1].start < a.chunks[0].end, "ValueError:runs": lambda S, a: S.true},
    calls={"cls": chunk_init_rows, "np.concatenate": _np_concatenate, "_merge_superrun_in_chunk": _merge_ann,
           "_merge_subruns_in_chunk": _merge_ann, "warn": Abstract(sort=None), "max": Abstract(pure=True)},
    static=True, returns=CHUNK,
    expected_dead=[("raise ValueError", "Need at least one chunk to concatenate"),
                   ("raise ValueError", "Cannot concatenate chunks of different data types"),
                   ("raise ValueError", "chunks with different run ids")],
))


# --------------------------------------------------------------------------------------
# Chunk.merge (two chunks of one kind): same span, same number of rows, refused otherwise
# --------------------------------------------------------------------------------------
def _merge_arrs_model(eng, args, kw, st, fr, k, node):
    """strax.merge_arrs([a, b], dtype=...): ASSUMED contract - an array with as many rows as its (equally long) parts whose
    time / endtime are those of the LAST part (on field collisions the later array wins)"""
    parts = args[0]
    chunks = st.env.get("chunks")
    in_order = isinstance(parts, list) and len(parts) == 2 and isinstance(chunks, (list, tuple)) and len(chunks) == 2 and all(
        getattr(p_, "base", None) == st.heap[c_.base]["data"].base for p_, c_ in zip(parts, chunks))
    eng.oblige("merge", "merge_arrs is given the chunks' data in the order the chunks were passed (on shared fields the LAST dependency wins)",
               st, z3.BoolVal(bool(in_order)), node)
    if not in_order:
        res, st = _mk(eng, eng.new_base("merged"), INTERVALS, st, set())
        return k(res, st)
    eng.assumptions.add("assumed contract of strax.merge_arrs for two equally long arrays (time / endtime of the last array win)")
    a, b = parts
    res, st = _mk(eng, eng.new_base("merged"), INTERVALS, st, set())
    S = eng.S
    rv, bv = eng.resolve(res, st.heap), eng.resolve(b, st.heap)
    st = st.assume(S.b(rv.n == bv.n))
    for f in ("time", "endtime"):
        st = st.assume(S.b(S.forall(0, bv.n, lambda j: rv.f(f, j) == bv.f(f, j))))
    st = st.assume(S.b(S.eq(S.arr_dtype(rv), S.call("fn:merged_dtype_of", S.v(eng.to_v(kw.get("dtype", PNONE)))))))
    return k(res, st)


def _merged_dtype(eng, args, kw, st, fr, k, node):
    return k(Opq(eng.fresh("merged_dtype", "V")), st)


def _cm2_ens(S, a, r):
    c0, c1 = a.chunks
    return [("the merged chunk covers the common time range and carries the common kind and run id",
             S.And(r.start == c0.start, r.end == c0.end, r.start == c1.start, r.end == c1.end, S.eq(r.data_kind, c0.data_kind), S.eq(r.run_id, c0.run_id))),
            ("it has one row per input row, at the position of that row (time and endtime of the last dependency)",
             S.And(r.data.n == c0.data.n, r.data.n == c1.data.n,
                   S.forall(0, r.data.n, lambda j: S.And(r.data.f("time", j) == c1.data.f("time", j), r.data.f("endtime", j) == c1.data.f("endtime", j))))),
            ("only chunks of one kind, one run, equal length and identical time range are merged",
             S.And(S.eq(c0.data_kind, c1.data_kind), S.eq(c0.run_id, c1.run_id), c0.data.n == c1.data.n, c0.start == c1.start, c0.end == c1.end))]


def _cm2_raise(S, a):
    c0, c1 = a.chunks
    return S.Not(S.And(S.eq(c0.data_kind, c1.data_kind), S.eq(c0.run_id, c1.run_id), c0.data.n == c1.data.n, c0.start == c1.start, c0.end == c1.end))


merge2 = REG.add(Contract(
    F, "Chunk.merge", variant="two chunks",
    params=dict(cls="V", chunks=(CHUNK, CHUNK), data_type="V"),
    requires=lambda S, a: chunk_wf(S, a.chunks[0]) + chunk_wf(S, a.chunks[1]),
    ensures=_cm2_ens,
    raises={"ValueError": _cm2_raise, "ValueError:runs": lambda S, a: S.true},
    calls={"cls": chunk_init_rows, "strax.merge_arrs": _merge_arrs_model, "strax.merged_dtype": _merged_dtype,
           "_merge_superrun_in_chunk": _merge_ann, "_merge_subruns_in_chunk": _merge_ann, "max": Abstract(pure=True), "sorted": Abstract(pure=True)},
    static=True,
    expected_dead=[("raise ValueError", "Need at least one chunk to merge")],
))
