"""Contracts for strax/chunk.py (laws of chunking: C07, C12, C14)."""

from pyvc.contract import Contract, Loop, REG
from pyvc.engine import RowsT, ArrT, ObjT

F = "strax/chunk.py"

INTERVALS = RowsT(time="int", endtime="int")


# --------------------------------------------------------------------------------------
# data-model predicates (laws of chunking for one array)
# --------------------------------------------------------------------------------------
def sorted_by_time(S, x):
    return S.forall2(0, x.n, 0, x.n, lambda i, j: S.Implies(i <= j, x.f("time", i) <= x.f("time", j)))


def positive_duration(S, x):
    return S.forall(0, x.n, lambda i: x.f("endtime", i) > x.f("time", i))


def nonneg_times(S, x):
    return S.forall(0, x.n, lambda i: x.f("time", i) >= 0)


def straddles(S, x, j, s):
    return S.And(x.f("time", j) < s, s < x.f("endtime", j))


# --------------------------------------------------------------------------------------
# split_array
# --------------------------------------------------------------------------------------
def _sa_requires(S, a):
    d = a.data
    return [("data sorted by time", sorted_by_time(S, d)),
            ("rows have positive duration", positive_duration(S, d)),
            ("times are non-negative", nonneg_times(S, d))]


def _sa_ensures(S, a, r):
    left, right, t2 = r
    d, t = a.data, a.t
    N, k = d.n, left.n
    some_straddle = S.exists(0, N, lambda j: straddles(S, d, j, t))
    return [
        ("rows concatenate to the original (left = data[:k], right = data[k:])",
         S.And(0 <= k, k <= N, S.is_slice(left, d, 0, k), S.is_slice(right, d, k, N - k))),
        ("every left row ends at or before the split time", S.forall(0, k, lambda j: d.f("endtime", j) <= t2)),
        ("every right row starts at or after the split time", S.forall(k, N, lambda j: d.f("time", j) >= t2)),
        ("split time is never later than requested", t2 <= t),
        ("no row straddles t  =>  split exactly at t", S.Implies(S.Not(some_straddle), t2 == t)),
        ("a moved split time only with allow_early_split", S.Implies(some_straddle, a.allow_early_split)),
        ("early split goes to the LATEST admissible time: every s in (t', t] is straddled by a row",
         S.forall_val(t2 + 1, t + 1, lambda s: S.exists(0, N, lambda j: straddles(S, d, j, s)))),
    ]


def _sa_inv(S, a):
    d, t, i = a.data, a.old.t, a.k_
    L, sp = a.latest_end_seen, a.splittable_i
    N = d.n
    return [
        ("entry facts", S.And(a.i_first_beyond == -1, N > 0, d.f("time", 0) < t, a.t == t)),
        ("latest_end_seen is the running maximum of the ends seen (or -1)",
         S.Or(S.And(i == 0, L == -1),
              S.And(i > 0, S.forall(0, i, lambda j: d.f("endtime", j) <= L),
                    S.exists(0, i, lambda j: d.f("endtime", j) == L)))),
        ("nothing seen ends after t", L <= t),
        ("all rows seen start before t", S.forall(0, i, lambda j: d.f("time", j) < t)),
        ("splittable_i is a seen index", S.And(0 <= sp, S.Implies(i > 0, sp < i), S.Implies(i == 0, sp == 0))),
        ("rows before splittable_i end before it starts",
         S.forall(0, sp, lambda j: d.f("endtime", j) <= d.f("time", sp))),
        ("every time between splittable_i's start and the running maximum is straddled",
         S.Implies(i > 0, S.forall_val(d.f("time", sp) + 1, L, lambda s: S.exists(0, i, lambda j: straddles(S, d, j, s))))),
        ("running maximum covers splittable_i", S.Implies(i > 0, L >= d.f("endtime", sp))),
    ]


def _sa_result(eng, st, bound):
    from pyvc.engine import Arr
    import z3
    d = bound["data"]
    k = eng.fresh("split_k")
    t2 = eng.fresh("split_t")
    left = Arr(d.base, None, d.lo, k)
    right = Arr(d.base, None, z3.simplify(d.lo + k), d.n - k)
    return (left, right, t2), st


split_array = REG.add(Contract(
    F, "split_array",
    params=dict(data=INTERVALS, t="int", allow_early_split="bool"),
    requires=_sa_requires,
    ensures=_sa_ensures,
    raises={"CannotSplit": lambda S, a: S.And(
        S.Not(a.allow_early_split), S.exists(0, a.data.n, lambda j: straddles(S, a.data, j, a.t)))},
    loops={1: Loop(_sa_inv)},
    call_names=("split_array", "strax.split_array"),
    make_result=_sa_result,
))
