"""Bounded stand-ins for C14 on the real code: (a) a superrun equals the ordered concatenation of its subruns
(real Context, DataDirectory, both processors), (b) split / concatenate round trip of the run annotations of real
Chunks.  Concrete-only; labelled bounded."""

import atexit
import datetime
import itertools
import json
import logging
import shutil
import tempfile
import warnings

import numpy as np

from pyvc.contract import Contract
from pyvc.harness import Harness

F = "strax/context.py"
SPECS = {}
_TMP_ROOT = tempfile.mkdtemp(prefix="verif_c14_")
atexit.register(lambda: shutil.rmtree(_TMP_ROOT, ignore_errors=True))
_CLS = {}


def _classes(level, rechunk):
    """src (never superrun-capable) -> mid -> top; ``level`` = how far below the target superrun processing starts:
    0: mid and top are superrun-capable (subruns of src are combined), 1: only top is (subruns of mid are combined)"""
    import strax
    key = (level, rechunk)
    if key in _CLS:
        return _CLS[key]
    dtype = strax.time_fields + [(("value", "v"), np.int64)]

    class Src(strax.Plugin):
        provides = "src"
        depends_on = ()
        data_kind = "k"
        rechunk_on_save = False
        __version__ = "0"

        def source_finished(self):
            return True

        def is_ready(self, chunk_i):
            return chunk_i < len(SPECS[self.run_id]["chunks"])

        def compute(self, chunk_i):
            sp = SPECS[self.run_id]
            n = sp["chunks"][chunk_i]
            r = np.zeros(n, self.dtype)
            t0 = sp["t0"] + 10 * chunk_i
            r["time"] = t0 + np.arange(n)
            r["endtime"] = r["time"] + 1
            r["v"] = sp["t0"] * 1000 + 10 * chunk_i + np.arange(n)
            return self.chunk(start=t0, end=t0 + 10, data=r)
    Src.dtype = dtype

    def mk(name, dep, allow):
        def compute(self, k):
            r = np.zeros(len(k), self.dtype)
            r["time"], r["endtime"], r["v"] = k["time"], k["endtime"], k["v"] + 1
            return r
        return type(name.capitalize(), (strax.Plugin,), dict(
            provides=name, depends_on=(dep,), data_kind="k", dtype=dtype, allow_superrun=allow, rechunk_on_save=rechunk,
            compute=compute, __version__="0", chunk_target_size_mb=(1e-4 if rechunk else 200)))
    _CLS[key] = [Src, mk("mid", "src", level == 0), mk("top", "mid", True)]
    return _CLS[key]


def _ctx(tmp, level, rechunk, write):
    import strax
    st = strax.Context(storage=[strax.DataDirectory(tmp, provide_run_metadata=True, deep_scan=True)],
                       register=_classes(level, rechunk),
                       store_run_fields=("name", "number", "start", "end", "livetime", "mode", "source"))
    st.set_context_config({"write_superruns": write, "use_per_run_defaults": False})
    st.log.setLevel(logging.CRITICAL)
    return st


def _chunk_info(c):
    return dict(start=int(c.start), end=int(c.end), n=len(c), run_id=c.run_id,
                subruns=None if c.subruns is None else {k: (int(v["start"]), int(v["end"])) for k, v in c.subruns.items()},
                times=[int(t) for t in c.data["time"]])


def _native(i):
    import contextlib
    import io
    with contextlib.redirect_stdout(io.StringIO()), contextlib.redirect_stderr(io.StringIO()):
        return _native_(i)


def _native_(i):
    import pytz
    from bson import json_util
    warnings.simplefilter("ignore")
    epoch = datetime.datetime(2020, 1, 1, tzinfo=pytz.utc)
    runs = i["runs"]
    SPECS.clear()
    SPECS.update({r["id"]: r for r in runs})
    tmp = tempfile.mkdtemp(dir=_TMP_ROOT)
    kw = dict(progress_bar=False, processor=i["processor"])
    res = dict(error=None)
    try:
        st = _ctx(tmp, i["level"], i["rechunk"], i["write"])
        per = {}
        for r in runs:
            per[r["id"]] = st.get_array(r["id"], "top", **kw)
            doc = {"name": r["id"], "start": epoch + datetime.timedelta(seconds=r["t0"]),
                   "end": epoch + datetime.timedelta(seconds=r["t0"] + 10 * len(r["chunks"])), "mode": "m", "source": "s"}
            with open(st.storage[0]._run_meta_path(r["id"]), "w") as fp:
                json.dump(doc, fp, sort_keys=True, indent=4, default=json_util.default)
        res["per_run"] = {k: v["v"].tolist() for k, v in per.items()}
        st.define_run("_s", data=[runs[j]["id"] for j in i["order"]])
        res["spec_order"] = list(st.run_metadata("_s")["sub_run_spec"])
        chunks = list(st.get_iter("_s", "top", **kw))
        res["chunks"] = [_chunk_info(c) for c in chunks]
        res["rows"] = [int(x) for c in chunks for x in c.data["v"]]
        res["stored"] = bool(st.is_stored("_s", "top"))
        # a second request (re-reads the stored superrun if it was written)
        chunks2 = list(st.get_iter("_s", "top", **kw))
        res["rows_again"] = [int(x) for c in chunks2 for x in c.data["v"]]
        res["chunks_again"] = [_chunk_info(c) for c in chunks2]
        # a fresh context on the same directory
        st2 = _ctx(tmp, i["level"], i["rechunk"], i["write"])
        res["rows_fresh"] = st2.get_array("_s", "top", **kw)["v"].tolist()
        if i["redefine"]:
            keep = [runs[j]["id"] for j in i["order"]][:-1]
            st2.define_run("_s", data=keep)
            res["redefined_to"] = keep
            res["stored_after_redefinition"] = bool(st2.is_stored("_s", "top"))
            res["rows_redefined"] = st2.get_array("_s", "top", **kw)["v"].tolist()
    except Exception as ex:  # noqa
        res["error"] = f"{type(ex).__name__}: {str(ex)[:160]}"
    finally:
        shutil.rmtree(tmp, ignore_errors=True)
    return res


def _by_start(runs, ids=None):
    return [r for r in sorted(runs, key=lambda r: r["t0"]) if ids is None or r["id"] in ids]


def _run_of(runs, t):
    for r in runs:
        if r["t0"] <= t < r["t0"] + 10 * len(r["chunks"]):
            return r["id"]
    return None


def _annotation_clauses(runs, chunks, exact):
    span = {r["id"]: (r["t0"], r["t0"] + 10 * len(r["chunks"])) for r in runs}
    listed = all(c["subruns"] is not None and all(
        (_run_of(runs, t) in c["subruns"] and c["subruns"][_run_of(runs, t)][0] <= t < c["subruns"][_run_of(runs, t)][1])
        for t in c["times"]) for c in chunks)
    within = all(all(k in span and span[k][0] <= a <= b <= span[k][1] for k, (a, b) in c["subruns"].items())
                 for c in chunks if c["subruns"] is not None)
    ordered = all(list(c["subruns"]) == [r["id"] for r in _by_start(runs) if r["id"] in c["subruns"]]
                  for c in chunks if c["subruns"] is not None)
    out = [("every row's subrun is recorded in its chunk, with a time span that contains the row", listed),
           ("recorded subrun spans lie inside the subruns they name", within),
           ("recorded subruns are listed in order of run start", ordered)]
    if exact:
        exactly = all(set(c["subruns"]) == {_run_of(runs, t) for t in c["times"]} or not c["times"] for c in chunks
                      if c["subruns"] is not None)
        # per run the recorded spans tile the run without overlap
        tiles = True
        for rid, (a, b) in span.items():
            pieces = sorted(c["subruns"][rid] for c in chunks if c["subruns"] and rid in c["subruns"])
            tiles = tiles and bool(pieces) and pieces[0][0] == a and pieces[-1][1] == b and all(
                x[1] == y[0] for x, y in zip(pieces, pieces[1:]))
        out += [("a chunk records exactly the subruns it holds rows of", exactly),
                ("per subrun the recorded spans tile the subrun (no overlap, no gap)", tiles)]
    return out


def _ens(S, a, r):
    runs = a.runs
    if r["error"] is not None:
        return [("a superrun of valid subruns is delivered without error: " + r["error"], False)]
    want = [v for run in _by_start(runs) for v in r["per_run"][run["id"]]]
    out = [("define_run lists the subruns in order of run start", r["spec_order"] == [x["id"] for x in _by_start(runs)]),
           ("the superrun is the subruns' rows concatenated in order of run start", r["rows"] == want),
           ("a second request (re-reading what was stored) gives the same rows", r["rows_again"] == want),
           ("a fresh context on the same storage gives the same rows", r["rows_fresh"] == want),
           ("the superrun is stored exactly when write_superruns is on", r["stored"] == bool(a.write))]
    out += _annotation_clauses(runs, r["chunks"], exact=True)
    out += [("re-read: " + l, f) for l, f in _annotation_clauses(runs, r["chunks_again"], exact=True)]
    if a.redefine:
        want2 = [v for run in _by_start(runs, r["redefined_to"]) for v in r["per_run"][run["id"]]]
        out += [("after the superrun is redefined its previously stored data is not available",
                 r["stored_after_redefinition"] is False),
                ("and a request returns the rows of the new definition, not stale ones", r["rows_redefined"] == want2)]
    return out


def _layouts(n_runs, rng, many):
    base = [[1], [2, 1], [1, 1, 2], [1, 0], [0, 2, 0]]      # rows per chunk, chunks without rows included
    combos = list(itertools.product(base, repeat=n_runs))
    rng.shuffle(combos)
    return combos[: (len(combos) if many else 2)]


def _gen(rng, tier):
    # run ids in and out of lexicographic order relative to the run starts
    ids_sets = {1: [["a"]], 2: [["a", "b"], ["b", "a"]], 3: [["a", "b", "c"], ["c", "a", "b"]], 4: [["a", "b", "c", "d"], ["b", "d", "a", "c"]]}
    thorough = tier == "thorough"
    for n in (1, 2, 3) + ((4,) if thorough else ()):
        for ids in ids_sets[n]:
            for layout in _layouts(n, rng, thorough and n <= 2):
                runs = [dict(id=ids[j], t0=100 * j, chunks=list(layout[j])) for j in range(n)]
                orders = list(itertools.permutations(range(n)))
                rng.shuffle(orders)
                for order in orders[: (3 if thorough else 1)]:
                    for level in (0, 1):
                        for write in (False, True):
                            for proc in (("single_thread", "threaded_mailbox") if thorough else ("single_thread",)):
                                for rechunk in ((False, True) if (thorough or write) else (False,)):
                                    yield dict(runs=runs, order=list(order), level=level, write=write, processor=proc,
                                               rechunk=rechunk, redefine=(n > 1 and write))


superrun_concat = Contract(
    F, "Context.get_iter (superrun)", params=dict(runs="V", order="V", level="int", write="bool", processor="V", rechunk="bool",
                                                   redefine="bool"),
    ensures=_ens, raises={},
    harness=Harness(native=_native, gen=_gen,
                    scope="1..3 (thorough: 4) subruns with chunk layouts from {[1],[2,1],[1,1,2],[1,0],[0,2,0]} rows per chunk, subrun ids passed to "
                          "define_run in permuted order, superrun processing starting one or two levels below the target, "
                          "write_superruns on/off, rechunk_on_save with a tiny target size (rechunking across subrun borders), "
                          "single_thread (thorough: also threaded_mailbox) processor, redefinition with the last subrun dropped; "
                          "real Context with a DataDirectory",
                    nontrivial=lambda i: len(i["runs"]) > 1))
