"""Bounded stand-in for the planning recursion of Context.get_components (C11): the real Context on small plugin
DAGs, against the reachability definition of the property.  Concrete-only; labelled bounded."""

import atexit
import glob
import itertools
import logging
import os
import shutil
import tempfile
import warnings

import numpy as np

from pyvc.contract import Contract
from pyvc.harness import Harness

F = "strax/context.py"
N = 4
COUNTS = {}
_BASES = {}
_TMP_ROOT = tempfile.mkdtemp(prefix="verif_c11_")
atexit.register(lambda: shutil.rmtree(_TMP_ROOT, ignore_errors=True))


def _strax():
    import strax
    return strax


def make_classes(edges, policies):
    strax = _strax()
    classes = []
    for i in range(N):
        deps = tuple(f"p{j}" for j in range(i) if (j, i) in edges)
        if not deps:
            def compute(self, chunk_i, _i=i):
                COUNTS[_i] = COUNTS.get(_i, 0) + 1
                r = np.zeros(2, self.dtype)
                r["time"] = [chunk_i * 10, chunk_i * 10 + 1]
                r["endtime"] = r["time"] + 1
                r["v"] = _i
                return self.chunk(start=chunk_i * 10, end=(chunk_i + 1) * 10, data=r)
            attrs = dict(depends_on=(), compute=compute, is_ready=lambda self, c: c < 2, source_finished=lambda self: True)
        else:
            def _c(self, kk, _i=i):
                COUNTS[_i] = COUNTS.get(_i, 0) + 1
                r = np.zeros(len(kk), self.dtype)
                r["time"], r["endtime"], r["v"] = kk["time"], kk["endtime"], _i
                return r
            ns = {}
            exec("def compute(self, kk):\n    return self._c(kk)\n", ns)
            attrs = dict(depends_on=deps, compute=ns["compute"], _c=_c)
        attrs.update(provides=f"p{i}", data_kind="kk", dtype=strax.time_fields + [(("value", "v"), np.int64)],
                     save_when=policies[i], __version__="0", rechunk_on_save=False)
        classes.append(type(f"P{i}", (strax.Plugin,), attrs))
    return classes


def _base_storage(edges):
    """Every data type of the DAG, made once with ALWAYS policies (save_when is not part of the lineage)."""
    strax = _strax()
    key = tuple(sorted(edges))
    if key not in _BASES:
        base = tempfile.mkdtemp(dir=_TMP_ROOT)
        st = strax.Context(storage=[strax.DataDirectory(base)], register=make_classes(edges, (strax.SaveWhen.ALWAYS,) * N))
        st.log.setLevel(logging.CRITICAL)
        for i in range(N):
            st.make("0", f"p{i}", progress_bar=False)
        _BASES[key] = base
    return _BASES[key]


def _native(i):
    strax = _strax()
    warnings.simplefilter("ignore")
    SW = strax.SaveWhen
    edges = set(map(tuple, i["edges"]))
    policies = [SW(p) for p in i["policies"]]
    base = _base_storage(edges)
    tmp = tempfile.mkdtemp(dir=_TMP_ROOT)
    try:
        for s in i["stored"]:
            for d in glob.glob(os.path.join(base, f"0-p{s}-*")):
                shutil.copytree(d, os.path.join(tmp, os.path.basename(d)))
        st = strax.Context(storage=[strax.DataDirectory(tmp)], register=make_classes(edges, policies),
                           forbid_creation_of=tuple(f"p{k}" for k in i["forbid"]))
        st.log.setLevel(logging.CRITICAL)
        COUNTS.clear()
        kwargs = dict(save=tuple(f"p{k}" for k in i["save"]), progress_bar=False)
        if i["time_range"] is not None:
            kwargs["time_range"] = tuple(i["time_range"])
        err = None
        out = None
        try:
            out = st.get_array("0", f"p{i['target']}", **kwargs)
        except Exception as ex:  # noqa
            err = type(ex).__name__
        ran = {k: c for k, c in COUNTS.items() if c > 0}
        newly = sorted(k for k in range(N) if k not in i["stored"] and st.is_stored("0", f"p{k}"))
        return dict(error=err, ran=ran, newly_saved=newly, n_rows=None if out is None else len(out),
                    values=None if out is None else sorted(set(out["v"].tolist())))
    finally:
        shutil.rmtree(tmp, ignore_errors=True)


def oracle(i):
    edges = set(map(tuple, i["edges"]))
    need, stack = set(), [i["target"]]
    while stack:
        x = stack.pop()
        if x in need or x in i["stored"]:
            continue
        need.add(x)
        stack += [j for j in range(N) if (j, x) in edges]
    pol = i["policies"]   # NEVER 0, EXPLICIT 1, TARGET 2, ALWAYS 3
    err = None
    if any(pol[k] == 0 for k in i["save"]):
        err = "ValueError"
    if i["time_range"] is not None and any(pol[k] > 1 for k in need):
        err = "DataNotAvailable"
    if any(k in i["forbid"] for k in need):
        err = "DataNotAvailable"
    saved = set()
    if i["time_range"] is None:
        saved = {k for k in need if pol[k] == 3 or (pol[k] == 2 and k == i["target"]) or (pol[k] == 1 and k in i["save"])}
    return need, err, saved


def _ens(S, a, r):
    i = dict(edges=a.edges, policies=a.policies, stored=a.stored, target=a.target, save=a.save, forbid=a.forbid,
             time_range=a.time_range)
    need, err, saved = oracle(i)
    if err is not None:
        return [("an explicit error is raised instead of computing data that may not be created / saved", r["error"] is not None),
                ("and nothing new is left in storage", r["newly_saved"] == [] or err == "ValueError")]
    out = [("no error for a request that can be served", r["error"] is None),
           ("exactly the plugins between the target and the nearest stored data run", set(r["ran"]) == need),
           ("each of them computes every chunk exactly once", all(c == 2 for c in r["ran"].values()) or a.time_range is not None),
           ("newly stored data is exactly what the save policies dictate (nothing for a partial request)",
            set(r["newly_saved"]) == saved)]
    if a.time_range is None:
        out.append(("the target's rows are delivered once", r["n_rows"] == 4 and r["values"] == [a.target]))
    return out


def _dags(rng):
    all_edges = [(j, i) for i in range(N) for j in range(i)]
    dags = []
    for r in range(len(all_edges) + 1):
        for es in itertools.combinations(all_edges, r):
            es = set(es)
            if all(any((j, i) in es for j in range(i)) for i in range(1, N)):   # only p0 is a source
                dags.append(sorted(es))
    rng.shuffle(dags)
    return dags


def _gen(rng, tier):
    dags = _dags(rng)
    pols = [(3, 3, 3, 3), (3, 2, 1, 2), (3, 0, 3, 1), (2, 1, 2, 3)]
    n_dags = 3 if tier == "quick" else len(dags)
    for edges in dags[:n_dags]:
        for policies in pols:
            subsets = list(itertools.chain.from_iterable(itertools.combinations(range(N), k) for k in range(N + 1)))
            rng.shuffle(subsets)
            for stored in subsets[: (5 if tier == "quick" else len(subsets))]:
                for target in range(N):
                    for save, forbid, tr in (((), (), None), ((2,), (), None), ((), (1,), None), ((), (), (0, 30))):
                        yield dict(edges=[list(e) for e in edges], policies=list(policies), stored=list(stored), target=target,
                                   save=list(save), forbid=list(forbid), time_range=None if tr is None else list(tr))


planning = Contract(
    F, "Context.get_components", params=dict(edges="V", policies="V", stored="V", target="int", save="V", forbid="V", time_range="V"),
    ensures=_ens, raises={},
    harness=Harness(native=_native, gen=_gen,
                    scope="DAGs of 4 single-output plugins (one source) x 4 save-policy vectors x stored subsets x every target x "
                          "{plain, save=(p2,), forbid_creation_of=(p1,), time_range} on the real Context with a DataDirectory "
                          "(quick: 3 DAGs x 5 stored subsets; thorough: all 64 DAGs x all 16 subsets)",
                    nontrivial=lambda i: len(i["stored"]) < N))


# ---- Context.to_absolute_time_range: seconds since run start -> integer ns ----------------------------------
def _tatr_native(i):
    strax = _strax()

    class Ctx(strax.Context):
        def estimate_run_start_and_end(self, run_id, targets=None):
            return i["t0"], float("inf")
    st = Ctx()
    return st.to_absolute_time_range("0", seconds_range=tuple(i["seconds_range"]))


def _tatr_ens(S, a, r):
    want = tuple(a.t0 + int(1_000_000_000 * s) for s in a.seconds_range)     # exact integer arithmetic
    return [("the range is the run start plus the whole number of ns in each bound (exact integers, no float rounding)",
             tuple(int(x) for x in r) == want and all(isinstance(x, int) for x in r))]


def _tatr_gen(rng, tier):
    t0s = [0, 10 ** 9, 1_600_000_000 * 10 ** 9, 1_700_000_001 * 10 ** 9, 2 ** 62]
    secs = [0.0, 0.5, 1.25, 3.0, 10.000000001, 1234.5, 0.000000001]
    for t0 in t0s:
        for s0 in secs:
            for s1 in secs:
                if s1 >= s0:
                    yield dict(t0=t0, seconds_range=[s0, s1])


to_absolute_time_range = Contract(
    F, "Context.to_absolute_time_range", params=dict(t0="int", seconds_range="V"), ensures=_tatr_ens, raises={},
    harness=Harness(native=_tatr_native, gen=_tatr_gen,
                    scope="run starts {0, 1 s, two real epoch times (1.6e18, 1.7e18 ns), 2^62} x second bounds with exact binary fractions",
                    nontrivial=lambda i: i["t0"] > 2 ** 53))
