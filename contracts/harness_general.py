"""Concrete harnesses (real strax) for the general.py / sort_enforcement contracts."""

import itertools

import numpy as np

from pyvc.harness import Harness, intervals, all_sorted_intervals, random_sorted_intervals
import contracts.general as G
import contracts.sort_enforcement as SE
import contracts.chunk as CH


def _g():
    import strax.processing.general as g
    return g


def _pyf(f):
    return getattr(f, "py_func", f)


def _ivs_gen(max_n, grid, disjoint=False, min_len=1):
    return list(all_sorted_intervals(max_n, grid, min_len=min_len, disjoint=disjoint))


# ---- overlap_indices ----------------------------------------------------------------
def _ov_gen(rng, tier):
    R = range(-3, 6)
    for a1, n_a, b1, n_b in itertools.product(range(-2, 5), range(-1, 5), range(-2, 5), range(-1, 5)):
        yield dict(a1=a1, n_a=n_a, b1=b1, n_b=n_b)
    for _ in range(2000 if tier == "quick" else 50000):
        yield dict(a1=rng.randint(-50, 50), n_a=rng.randint(-2, 40), b1=rng.randint(-50, 50), n_b=rng.randint(-2, 40))


G.overlap_indices.harness = Harness(
    native=lambda i: _g().overlap_indices(i["a1"], i["n_a"], i["b1"], i["n_b"]),
    variants=[("py_func", lambda i: _pyf(_g().overlap_indices)(i["a1"], i["n_a"], i["b1"], i["n_b"]))],
    gen=_ov_gen, scope="all a1,b1 in -2..4, n_a,n_b in -1..4 (exhaustive) + random to |50|/40",
    nontrivial=lambda i: i["n_a"] > 0 and i["n_b"] > 0)


# ---- _fc_in / _fully_contained_in / fully_contained_in ----------------------------------
def _things_containers(rng, tier, enc=("endtime",), things_min_len=1):
    small_t = _ivs_gen(3, 5, min_len=things_min_len)
    small_c = _ivs_gen(2, 5, disjoint=True, min_len=0)
    for t in small_t:
        for c in small_c:
            for e in enc:
                yield t, c, e
    n_rand = 1500 if tier == "quick" else 40000
    for _ in range(n_rand):
        t = random_sorted_intervals(rng, rng.randint(0, 8), 40, 8, min_len=things_min_len)
        c = random_sorted_intervals(rng, rng.randint(0, 5), 40, 12, min_len=0, disjoint=True)
        yield t, c, rng.choice(enc)


def _fc_in_gen(rng, tier):
    for t, c, e in _things_containers(rng, tier):
        ta, ca = intervals(t), intervals(c)
        yield dict(a_starts=ta["time"].copy(), b_starts=ca["time"].copy(), a_ends=ta["endtime"].copy(),
                   b_ends=ca["endtime"].copy(), result=np.full(len(t), -1, dtype=np.int32))


def _fc_in_native(f):
    def run(i):
        f(i["a_starts"], i["b_starts"], i["a_ends"], i["b_ends"], i["result"])
        return None
    return run


G.fc_in.harness = Harness(
    native=_fc_in_native(lambda *a: _g()._fc_in(*a)),
    variants=[("py_func", _fc_in_native(lambda *a: _pyf(_g()._fc_in)(*a)))],
    gen=_fc_in_gen, scope="<=3 things x <=2 disjoint containers on grid 0..5 (exhaustive) + random <=8 x <=5",
    nontrivial=lambda i: len(i["a_starts"]) > 0 and len(i["b_starts"]) > 0)


def _fci_gen(rng, tier):
    for t, c, e in _things_containers(rng, tier, enc=("endtime", "dt")):
        yield dict(things=intervals(t, e), containers=intervals(c, e))


G.fully_contained_core.harness = Harness(
    native=lambda i: _g()._fully_contained_in(i["things"], i["containers"]),
    variants=[("py_func", lambda i: _pyf(_g()._fully_contained_in)(i["things"], i["containers"]))],
    gen=_fci_gen, scope="<=3 things x <=2 disjoint containers, grid 0..5, both endtime encodings + random",
    nontrivial=lambda i: len(i["things"]) > 0 and len(i["containers"]) > 0)


def _fci_wrapper_gen(rng, tier):
    yield from _fci_gen(rng, tier)
    # inputs violating sortedness must be rejected
    for _ in range(300 if tier == "quick" else 5000):
        t = [(rng.randint(0, 10), 0) for _ in range(rng.randint(2, 4))]
        t = [(s, s + rng.randint(1, 3)) for s, _ in t]
        c = random_sorted_intervals(rng, rng.randint(0, 3), 10, 4, min_len=0, disjoint=True)
        if rng.random() < 0.5:
            c = list(reversed(c))
        yield dict(things=intervals(t), containers=intervals(c))


G.fully_contained_in.harness = Harness(
    native=lambda i: _g().fully_contained_in(i["things"], i["containers"]),
    gen=_fci_wrapper_gen, scope="as _fully_contained_in + unsorted things / containers",
    nontrivial=lambda i: len(i["things"]) > 0 and len(i["containers"]) > 0)


# ---- touching windows -----------------------------------------------------------------
def _tw_inputs(rng, tier):
    small_t = _ivs_gen(3, 4, min_len=0)
    small_c = _ivs_gen(2, 4, min_len=0)
    for t in small_t:
        for c in small_c:
            for w in (-2, -1, 0, 1, 2, 3):
                yield t, c, w
    for _ in range(1500 if tier == "quick" else 40000):
        t = random_sorted_intervals(rng, rng.randint(0, 8), 40, 8, min_len=0, disjoint=rng.random() < 0.5)
        c = random_sorted_intervals(rng, rng.randint(0, 5), 40, 12, min_len=0)
        yield t, c, rng.randint(-2, 3)


def _tw_core_gen(rng, tier):
    for t, c, w in _tw_inputs(rng, tier):
        ta, ca = intervals(t), intervals(c)
        yield dict(thing_start=ta["time"].copy(), thing_end=ta["endtime"].copy(), container_start=ca["time"].copy(),
                   container_end=ca["endtime"].copy(), window=w, endtime_sort_kind="mergesort")
    ta, ca = intervals([(0, 1)]), intervals([(0, 2)])
    yield dict(thing_start=ta["time"].copy(), thing_end=ta["endtime"].copy(), container_start=ca["time"].copy(),
               container_end=ca["endtime"].copy(), window=0, endtime_sort_kind="quicksort")


def _tw_core(f):
    return lambda i: f(i["thing_start"], i["thing_end"], i["container_start"], i["container_end"],
                       window=i["window"], endtime_sort_kind=i["endtime_sort_kind"])


G.touching_windows_core.harness = Harness(
    native=_tw_core(lambda *a, **k: _g()._touching_windows(*a, **k)),
    variants=[("py_func", _tw_core(lambda *a, **k: _pyf(_g()._touching_windows)(*a, **k)))],
    gen=_tw_core_gen, scope="<=3 things x <=2 containers on grid 0..4, windows -2..3 (exhaustive) + random",
    nontrivial=lambda i: len(i["thing_start"]) > 0 and len(i["container_start"]) > 0)


def _tw_gen(rng, tier):
    for t, c, w in _tw_inputs(rng, tier):
        for e in ("endtime", "dt"):
            yield dict(things=intervals(t, e), containers=intervals(c, e), window=w)
    for _ in range(200 if tier == "quick" else 4000):
        t = [(rng.randint(0, 10), 0) for _ in range(rng.randint(2, 4))]
        t = [(s, s + rng.randint(0, 3)) for s, _ in t]
        c = [(rng.randint(0, 10), 0) for _ in range(rng.randint(1, 3))]
        c = [(s, s + rng.randint(0, 3)) for s, _ in c]
        yield dict(things=intervals(t), containers=intervals(c), window=rng.randint(-2, 3))


G.touching_windows.harness = Harness(
    native=lambda i: _g().touching_windows(i["things"], i["containers"], window=i["window"]),
    gen=_tw_gen, scope="as _touching_windows, both endtime encodings, + unsorted inputs",
    nontrivial=lambda i: len(i["things"]) > 0 and len(i["containers"]) > 0)


# ---- diff / breaks -----------------------------------------------------------------------
def _rows_gen(max_n, grid, n_rand_q, n_rand_t, min_len=1):
    def gen(rng, tier):
        for t in _ivs_gen(max_n, grid, min_len=min_len):
            for e in ("endtime", "dt"):
                yield t, e
        for _ in range(n_rand_q if tier == "quick" else n_rand_t):
            yield random_sorted_intervals(rng, rng.randint(0, 10), 50, 9, min_len=min_len), rng.choice(("endtime", "dt"))
    return gen


def _diff_gen(rng, tier):
    for t, e in _rows_gen(4, 5, 1500, 40000)(rng, tier):
        yield dict(data=intervals(t, e))


G.diff.harness = Harness(
    native=lambda i: _g().diff(i["data"]),
    variants=[("py_func", lambda i: _pyf(_g().diff)(i["data"]))],
    gen=_diff_gen, scope="all sorted interval arrays of <=4 rows on grid 0..5, both encodings + random <=10 rows",
    nontrivial=lambda i: len(i["data"]) >= 2)


def _fbi_gen(rng, tier):
    for t, e in _rows_gen(4, 5, 1000, 30000)(rng, tier):
        for sb in (0, 1, 2, 3):
            for nb in (0, 2, 4):
                yield dict(data=intervals(t, e), safe_break=sb, not_before=nb)


G.find_break_i.harness = Harness(
    native=lambda i: _g()._find_break_i(i["data"], i["safe_break"], i["not_before"]),
    variants=[("py_func", lambda i: _pyf(_g()._find_break_i)(i["data"], i["safe_break"], i["not_before"]))],
    gen=_fbi_gen, scope="<=4 rows grid 0..5 x safe_break 0..3 x not_before {0,2,4} + random",
    nontrivial=lambda i: len(i["data"]) >= 2)


def _fb_gen(rng, tier):
    for i in _fbi_gen(rng, tier):
        for left in (True, False):
            yield dict(x=i["data"], safe_break=i["safe_break"], not_before=i["not_before"], left=left, tolerant=False)
    yield dict(x=intervals([(0, 1), (5, 6)]), safe_break=1, not_before=0, left=True, tolerant=True)


G.from_break.harness = Harness(
    native=lambda i: _g().from_break(i["x"], i["safe_break"], not_before=i["not_before"], left=i["left"],
                                     tolerant=i["tolerant"]),
    gen=_fb_gen, scope="as _find_break_i x left/right", nontrivial=lambda i: len(i["x"]) >= 2)


# ---- sanity checks ------------------------------------------------------------------------
def _arr_gen(rng, tier):
    for n in range(0, 4):
        for vals in itertools.product(range(0, 4), repeat=n):
            yield dict(time=np.array(vals, dtype=np.int64))


G.check_sorted.harness = Harness(
    native=lambda i: _g()._check_time_is_sorted(i["time"]),
    gen=_arr_gen, scope="all int arrays of <=3 elements over 0..3", nontrivial=lambda i: len(i["time"]) >= 2)


def _any_intervals(rng, tier):
    ivs = [(s, e) for s in range(0, 4) for e in range(0, 4)]
    for n in range(0, 3):
        for rows in itertools.product(ivs, repeat=n):
            yield intervals(list(rows))
    for _ in range(500 if tier == "quick" else 5000):
        yield intervals([(rng.randint(0, 9), rng.randint(0, 9)) for _ in range(rng.randint(0, 5))])


G.check_nonneg.harness = Harness(
    native=lambda i: _g()._check_objects_non_negative_length(i["objects"]),
    gen=lambda rng, tier: (dict(objects=x) for x in _any_intervals(rng, tier)),
    scope="all arrays of <=2 arbitrary (start,end) rows over 0..3 + random", nontrivial=lambda i: len(i["objects"]) >= 1)

G.check_no_overlap.harness = Harness(
    native=lambda i: _g()._check_objects_are_not_overlapping(i["objects"]),
    gen=lambda rng, tier: (dict(objects=x) for x in _any_intervals(rng, tier)),
    scope="all arrays of <=2 arbitrary (start,end) rows over 0..3 + random", nontrivial=lambda i: len(i["objects"]) >= 2)


def _two_any(rng, tier):
    xs = list(_any_intervals(rng, "quick"))
    for _ in range(2000 if tier == "quick" else 30000):
        yield dict(things=rng.choice(xs), containers=rng.choice(xs))


G.fc_sanity.harness = Harness(
    native=lambda i: _g()._fully_contained_in_sanity(i["things"], i["containers"]),
    gen=_two_any, scope="random pairs of arbitrary (unsorted, negative-length) small interval arrays",
    nontrivial=lambda i: len(i["things"]) >= 1)


# ---- sorting ---------------------------------------------------------------------------------
def _sort_gen(rng, tier):
    for n in range(0, 5):
        for vals in itertools.product(range(0, 3), repeat=n):
            yield dict(arr=np.array(vals, dtype=np.int64), kind="mergesort")
    for k in ("quicksort", "heapsort", "stable"):
        yield dict(arr=np.array([2, 1, 2], dtype=np.int64), kind=k)
    for _ in range(300 if tier == "quick" else 5000):
        yield dict(arr=np.array([rng.randint(0, 5) for _ in range(rng.randint(0, 30))], dtype=np.int64), kind="mergesort")


def _sort_native(i):
    import strax
    return strax.stable_argsort(i["arr"], kind=i["kind"])


SE.stable_argsort.harness = Harness(
    native=_sort_native, gen=_sort_gen, scope="all arrays of <=4 elements over 0..2 + random <=30 elements; rejected kinds",
    nontrivial=lambda i: len(i["arr"]) >= 2)


# ---- split_array -----------------------------------------------------------------------------
def _sa_gen(rng, tier):
    for t, e in _rows_gen(4, 5, 1500, 40000)(rng, tier):
        for ts in range(0, 8):
            for allow in (False, True):
                yield dict(data=intervals(t, e), t=ts, allow_early_split=allow)


def _sa_native(f):
    return lambda i: f(i["data"], i["t"], i["allow_early_split"])


def _split_array():
    import strax
    return strax.split_array


CH.split_array.harness = Harness(
    native=_sa_native(lambda *a: _split_array()(*a)),
    variants=[("py_func", _sa_native(lambda *a: _pyf(_split_array())(*a)))],
    gen=_sa_gen, scope="all sorted interval arrays of <=4 rows on grid 0..5 x t in 0..7 x allow_early_split + random",
    nontrivial=lambda i: len(i["data"]) >= 1)


# ---- _get_empty_container_ids ------------------------------------------------------------------
def _gec_gen(rng, tier):
    for n in range(0, 6):
        for m in range(0, n + 1):
            for full in itertools.combinations(range(n), m):
                yield dict(n_containers=n, full_container_ids=np.array(full, dtype=np.int64))
    for _ in range(300 if tier == "quick" else 20000):
        n = rng.randint(0, 30)
        full = sorted(rng.sample(range(n), rng.randint(0, n))) if n else []
        yield dict(n_containers=n, full_container_ids=np.array(full, dtype=np.int64))


G.get_empty_container_ids.harness = Harness(
    native=lambda i: _g()._get_empty_container_ids(i["n_containers"], i["full_container_ids"]),
    variants=[("py_func", lambda i: _pyf(_g()._get_empty_container_ids)(i["n_containers"], i["full_container_ids"]))],
    gen=_gec_gen, scope="every subset of full ids of 0..5 containers (exhaustive) + random subsets of up to 30 containers",
    nontrivial=lambda i: i["n_containers"] > 0)
