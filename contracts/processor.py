"""Contracts for the wiring done by ThreadedMailboxProcessor.__init__ (C13, C06): lazy mode only without worker pools,
savers of computed data do not drive in lazy mode, every mailbox gets its capacity."""

import z3

from pyvc.contract import Contract, Loop, REG
from pyvc.engine import Opq, PNONE, V, St, truthy, strv
from pyvc.library import Abstract

F = "strax/processors/threaded_mailbox.py"

CONTAINS = z3.Function("contains", V, V, z3.BoolSort())
GETITEM = z3.Function("getitem", V, V, V)
ATTR = lambda n: z3.Function("attr_" + n, V, V)
NONEV = z3.Const("None", V)


def _lazy_spec(eng, st):
    """lazy mode exactly when there is no worker pool (max_workers None or 1) and it is allowed"""
    mw = st.env["#entry"]["max_workers"] if "#entry" in st.env else st.env["max_workers"]
    no_pool = z3.Or(eng.equal(mw, PNONE), eng.equal(mw, z3.IntVal(1)))
    return z3.And(no_pool, eng.truth(st.env["allow_lazy"]))


def _mailboxdict(eng, args, kw, st, fr, k, node):
    lazy = eng.truth(kw["lazy"]) if "lazy" in kw else z3.BoolVal(False)
    eng.oblige("wiring", "the mailboxes are lazy exactly when there is no worker pool and lazy mode is allowed", st,
               lazy == _lazy_spec(eng, st), node)
    g = dict(st.ghost)
    g["lazy"] = lazy
    g["dict_made"] = z3.BoolVal(True)
    return k(Opq(eng.fresh("mailboxes", "V")), St(st.env, st.heap, st.pc, g))


def _add_reader(eng, args, kw, st, fr, k, node):
    g = dict(st.ghost)
    if "can_drive" in kw:
        # the saver site
        d = eng.to_v(st.env["d"])
        built = eng.to_v(st.env["dtypes_built"])
        cd = eng.truth(kw["can_drive"])
        eng.oblige("wiring", "a saver of data computed in this run may drive its mailbox only in eager mode "
                             "(a saver of loaded data - storage conversion - always drives)", st,
                   cd == z3.Or(z3.Not(st.ghost["lazy"]), z3.Not(CONTAINS(built, d))), node)
        eng.oblige("wiring", "readers are added after the mailboxes were created", st, st.ghost["dict_made"], node)
        g["saver_wired"] = z3.BoolVal(True)
    return k(PNONE, St(st.env, st.heap, st.pc, g))


def _divide_partial(eng, args, kw, st, fr, k, node):
    if "lazy" in kw:
        eng.oblige("wiring", "divide_outputs gets the processor's lazy flag", st, eng.truth(kw["lazy"]) == st.ghost["lazy"], node)
    if "outputs" in kw:
        comps = st.env["components"]
        loaders = z3.Function("attr_loaders", V, V)(eng.to_v(comps))
        q = z3.Const("out_q", V)
        ct = CONTAINS
        eng.oblige("wiring", "the divider of a multi-output plugin feeds only outputs that are not loaded from storage "
                             "(a loaded output already has its loader as sender)", st,
                   z3.ForAll([q], z3.Implies(ct(eng.to_v(kw["outputs"]), q), z3.Not(ct(loaders, q)))), node)
    if "flow_freely" in kw:
        # outputs exempt from flow control in lazy mode: (produced - required) united with the plugin's OTHER outputs, whether or
        # not something downstream requires them (both outputs of a doubly used multi-output plugin must be able to flow)
        ff = kw["flow_freely"]
        env = st.env
        dd = env.get("double_dependency")
        sub = z3.Function("fn:Sub", V, V, V)
        fset = z3.Function("fn:set", V, V)
        want_dd = None
        try:
            want_dd = sub(fset(eng.to_v(eng_attr(eng, env["p"], "provides"))), fset(z3.Function("fn:strax.to_str_tuple", V, V)(eng.to_v(env["d"]))))
        except Exception:  # noqa
            pass
        ok_shape = isinstance(ff, Opq) and z3.is_app(ff.t) and ff.t.decl().name() == "fn:BitOr" and isinstance(dd, Opq) \
            and ff.t.arg(1).eq(dd.t) and ff is env.get("to_flow_freely")
        eng.oblige("wiring", "the outputs exempt from flow control include ALL other outputs of the multi-output plugin", st,
                   z3.BoolVal(bool(ok_shape)), node)
        if want_dd is not None and isinstance(dd, Opq):
            eng.oblige("wiring", "the other outputs of a multi-output plugin are its provides minus the output being wired", st,
                       dd.t == want_dd, node)
    return k(Opq(eng.fresh("partial", "V")), st)


def eng_attr(eng, v, name):
    return Opq(z3.Function("attr_" + name, V, V)(eng.to_v(v)))


def _store_mm(eng, st, obj, v, node):
    g = dict(st.ghost)
    g["mm_last"] = eng.to_v(v)
    g["mm_owner"] = obj.t
    return St(st.env, st.heap, st.pc, g)


def _store_any(eng, st, obj, v, node):
    return st


def _capacity_spec(S, a):
    """capacity of the mailbox of data type d: the plugin's own max_messages if it declares one, else the processor-wide value"""
    plugins = S.attr(a.components, "plugins")
    own = S.attr(S.getitem(plugins, a.d), "max_messages")
    return S.If(S.And(S.contains(plugins, a.d), S.Not(S.is_none(own))), own, S.v(a.max_messages))


_NOINV = Loop(lambda S, a: [])

tmp_init = REG.add(Contract(
    F, "ThreadedMailboxProcessor.__init__",
    params=dict(self="V", components="V", allow_rechunk="bool", allow_shm="bool", allow_multiprocess="bool", allow_lazy="bool",
                max_workers="V", max_messages="V", timeout="V", is_superrun="bool"),
    ensures=lambda S, a, r: [("the mailboxes were created", a.ghost.dict_made)],
    raises={"RuntimeError": lambda S, a: S.true, "ValueError": lambda S, a: S.true, "AssertionError": lambda S, a: S.true},
    ghost={"lazy": z3.BoolVal(False), "dict_made": z3.BoolVal(False), "saver_wired": z3.BoolVal(False),
           "mm_last": z3.Const("mm_none", V), "mm_owner": z3.Const("mm_none_owner", V)},
    calls={"MailboxDict": _mailboxdict, ".add_reader": _add_reader, ".add_sender": Abstract(sort=None),
           "partial": _divide_partial, "logging.getLogger": Abstract(), "self.log.debug": Abstract(sort=None),
           "futures.ThreadPoolExecutor": Abstract(), "ProcessPoolExecutor": Abstract(), "_proc_ex": Abstract(),
           "strax.ParallelSourcePlugin.inline_plugins": Abstract(), "strax.to_str_tuple": Abstract(pure=True),
           "loader": Abstract(), "print": Abstract(sort=None), "np.argmin": Abstract(sort="int"), ".iter": Abstract(),
           ".subscribe": Abstract(), ".can_rechunk": Abstract(pure=True)},
    consts={"os.name": "posix", "SHMExecutor": PNONE},
    store_hooks={"attr:max_messages": _store_mm, "attr:*": _store_any},
    loops={i: _NOINV for i in range(1, 7)} | {7: Loop(lambda S, a: [], body_ensures=lambda S, a: [
        ("every mailbox gets its capacity: the plugin's own max_messages if declared, else the processor-wide value",
         S.And(S.eq(a.ghost.mm_last, _capacity_spec(S, a)), S.eq(a.ghost.mm_owner, S.v(a.m))))])},
    loop_ghost={1: [], 2: [], 3: [], 4: ["saver_wired"], 5: ["saver_wired"], 6: [], 7: ["mm_last", "mm_owner"]},
))
tmp_init.opaque_sub = True


# --------------------------------------------------------------------------------------
# ThreadedMailboxProcessor.iter / SingleThreadProcessor.iter: a failure kills everything and reaches the caller (C06)
# --------------------------------------------------------------------------------------
from pyvc.engine import Exc  # noqa: E402

ARGS0 = lambda t: GETITEM(z3.Function("attr_args", V, V)(t), z3.Function("int2v", z3.IntSort(), V)(z3.IntVal(0)))


def _kill_hook(eng, args, kw, st, fr, k, node):
    g = dict(st.ghost)
    g["killed_last"] = eng.to_v(st.env["m"])
    g["kill_reason_ok"] = z3.BoolVal("reason" in kw and kw["reason"] is st.env.get("reason"))
    g["kill_upstream"] = eng.truth(kw.get("upstream", z3.BoolVal(False)))
    return k(PNONE, St(st.env, st.heap, st.pc, g))


def _cleanup_hook(eng, args, kw, st, fr, k, node):
    g = dict(st.ghost)
    g["cleaned_last"] = eng.to_v(st.env["m"])
    return k(PNONE, St(st.env, st.heap, st.pc, g))


def _tmi_exc(S, a, exc):
    g = a.ghost
    out = []
    if exc.cls != "TypeError":
        out.append(("before an exception leaves the processor every mailbox was cleaned up (threads joined) and - when the pipeline "
                    "or the consumer failed - killed (the loops ran)",
                    S.And(g.cleanup_loop_done, S.Implies(g.yf_failed, g.kill_loop_done))))
    return out


def _method(S, name, recv):
    return z3.Function("method:" + name, V, V)(S.v(recv))


def _shutdown_hook(eng, args, kw, st, fr, k, node):
    """executor.shutdown(wait=True)"""
    eng.oblige("relay", "the executors are shut down WAITING for their workers (wait=True) - also when a failure is about to be "
                        "re-raised: no worker thread is left running when the call returns", st,
               eng.truth(kw["wait"]) if "wait" in kw else z3.BoolVal(False), node)
    return k(PNONE, st)


tmp_iter = REG.add(Contract(
    F, "ThreadedMailboxProcessor.iter",
    params=dict(self="V"),
    ensures=lambda S, a, r: [("on normal completion every mailbox was cleaned up (threads joined) and no saver holds an unreported failure",
                              a.ghost.cleanup_loop_done),
                             ("the processor completes normally only if the pipeline did (a failure or a closed consumer is re-raised, "
                              "never swallowed)", S.Not(a.ghost.yf_failed))],
    raises={"Any": lambda S, a: S.true, "GeneratorExit": lambda S, a: S.true, "MailboxKilled": lambda S, a: S.true,
            "TypeError": lambda S, a: S.true, "OutsideException": lambda S, a: S.true},
    exc_ensures=_tmi_exc,
    ghost={"killed_last": z3.Const("nobody_killed", V), "kill_reason_ok": z3.BoolVal(False), "kill_upstream": z3.BoolVal(False),
           "cleaned_last": z3.Const("nobody_cleaned", V), "kill_loop_done": z3.BoolVal(False), "cleanup_loop_done": z3.BoolVal(False),
           "yf_failed": z3.BoolVal(False)},
    calls={"m.kill": _kill_hook, "m.cleanup": _cleanup_hook, "m.start": Abstract(sort=None), "self.log.debug": Abstract(sort=None),
           "self.log.fatal": Abstract(sort=None), "print": Abstract(sort=None), "sys.exc_info": Abstract(),
           ".subscribe": Abstract(), ".shutdown": _shutdown_hook},
    store_hooks={"reason": lambda eng, st, key, v, node: ("raise", Exc("TypeError", origin="stmt"), st)},   # reason is a tuple
    loops={1: Loop(lambda S, a: []),
           2: Loop(lambda S, a: [], body_ensures=lambda S, a: [
               ("EVERY mailbox is killed, upstream, with the reason of the failure (the code's exemption 'm != target' compares a mailbox "
                "with the target's NAME and never applies)",
                S.Or(S.eq(S.v(a.m), S.v(a.target)), S.And(S.eq(a.ghost.killed_last, a.m), a.ghost.kill_upstream, a.ghost.kill_reason_ok)))],
                   on_exit=lambda eng, st: St(st.env, st.heap, st.pc, {**st.ghost, "kill_loop_done": z3.BoolVal(True)})),
           3: Loop(lambda S, a: [], body_ensures=lambda S, a: [("EVERY mailbox is cleaned up (its threads joined)", S.eq(a.ghost.cleaned_last, a.m))],
                   on_exit=lambda eng, st: St(st.env, st.heap, st.pc, {**st.ghost, "cleanup_loop_done": z3.BoolVal(True)})),
           4: Loop(lambda S, a: [], iterates=lambda S, a: [
               ("the final scan goes over the savers of EVERY data type (components.savers), not only of the targets",
                S.Or(S.eq(a.it_, _method(S, "items", S.attr(S.attr(a.self, "components"), "savers"))),
                     S.eq(a.it_, _method(S, "values", S.attr(S.attr(a.self, "components"), "savers")))))]),
           5: Loop(lambda S, a: [], iterates=lambda S, a: [("every saver of the data type is looked at", S.eq(a.it_, a.saver_list))],
                   body_ensures=lambda S, a: [
                       ("a saver that holds an exception does not pass the scan (the exception is raised)",
                        S.Not(S.truthy(S.attr(a.s, "got_exception"))))])},
    loop_ghost={1: [], 2: ["killed_last", "kill_reason_ok", "kill_upstream"], 3: ["cleaned_last"], 4: [], 5: []},
))
tmp_iter.yield_from_raises = ("Any", "GeneratorExit", "MailboxKilled", "OutsideException")
tmp_iter.generator = True
_I2V = z3.Function("int2v", z3.IntSort(), V)
tmp_iter.yield_from_facts = lambda eng, cls, t: [
    ("an exception object is not None", t != z3.Const("None", V)),
    ("a MailboxKilled raised by the target mailbox carries the kill reason (class, exception, traceback) and its exception is not None "
     "(kill reasons are built by Mailbox.kill_from_exception - contract KFE - and by this very function)",
     # (stated on the term e.args[0][1], which the code evaluates only when e is a MailboxKilled)
     GETITEM(ARGS0(t), _I2V(z3.IntVal(1))) != z3.Const("None", V))]


def _kill_spies(eng, args, kw, st, fr, k, node):
    g = dict(st.ghost)
    g["spies_killed"] = z3.BoolVal(True)
    g["killed_while_handling"] = z3.BoolVal(st.ghost.get("#handling") is not None)
    return k(PNONE, St(st.env, st.heap, st.pc, g))


stp_iter = REG.add(Contract(
    "strax/processors/single_thread.py", "SingleThreadProcessor.iter",
    params=dict(self="V"),
    ensures=lambda S, a, r: [("normal completion, or the consumer closed the iterator and the savers were closed with an exception on record",
                              S.Or(S.Not(a.ghost.spies_killed), a.ghost.killed_while_handling)),
                             ("if the pipeline or the consumer failed, the savers were closed with an exception on record",
                              S.Implies(a.ghost.yf_failed, S.And(a.ghost.spies_killed, a.ghost.killed_while_handling)))],
    raises={"Any": lambda S, a: S.true, "OutsideException": lambda S, a: S.true},
    exc_ensures=lambda S, a, exc: [("a failure in a producer closes every saver (while the exception is being handled, so that it is recorded) "
                                    "before it is re-raised to the caller", S.And(a.ghost.spies_killed, a.ghost.killed_while_handling))],
    ghost={"spies_killed": z3.BoolVal(False), "killed_while_handling": z3.BoolVal(False), "yf_failed": z3.BoolVal(False)},
    calls={"self.post_office.kill_spies": _kill_spies, "self.post_office.get_iter": Abstract(), "self.log.debug": Abstract(sort=None),
           "self.log.fatal": Abstract(sort=None)},
))
stp_iter.yield_from_raises = ("Any", "GeneratorExit", "OutsideException")
stp_iter.generator = True
