"""Contracts for strax/processing/pulse_processing.py and data_reduction.py (C18)."""

from pyvc.contract import Contract, Loop, REG
from pyvc.engine import RowsT, ArrT

F = "strax/processing/pulse_processing.py"

RECORDS = RowsT(time="int", length="int", dt="int", channel="int", record_i="int", data="int2",
                pulse_length="int", area="int", reduction_level="int", baseline="real", baseline_rms="real",
                amplitude_bit_shift="int")


# --------------------------------------------------------------------------------------
# record_links
# --------------------------------------------------------------------------------------
def _continues(S, r, w, j, i):
    """record i is the time-adjacent continuation of record j (same channel, nothing of that channel in between)."""
    return S.And(0 <= j, j < i, r.f("channel", j) == r.f("channel", i),
                 S.forall(j + 1, i, lambda m: r.f("channel", m) != r.f("channel", i)),
                 r.f("record_i", i) != 0,
                 r.f("time", i) == r.f("time", j) + w * r.f("dt", j))


def _prev_ok(S, r, w, prev, i):
    p = prev.at(i)
    return S.And(S.Or(p == -1, _continues(S, r, w, p, i)),
                 S.forall(0, i, lambda j: S.Implies(_continues(S, r, w, j, i), p == j)))


def _next_ok(S, prev, nxt, n, upto):
    """next is the inverse of prev restricted to records < upto."""
    return S.And(
        S.forall(0, n, lambda j: S.Or(nxt.at(j) == -1, S.And(0 <= nxt.at(j), nxt.at(j) < upto, prev.at(nxt.at(j)) == j))),
        S.forall(0, upto, lambda i: S.Implies(prev.at(i) >= 0, nxt.at(prev.at(i)) == i)))


def _rl_width(S, r):
    if S.symbolic:
        return S.eng.row_width(r.base, "data")
    return len(r.arr[0]["data"]) if r.n else 0


def _rl_inv(S, a):
    r, k, n = a.records, a.k_, a.records.n
    w = a.samples_per_record
    lrs, ens, nch = a.last_record_seen, a.expected_next_start, a.n_channels
    return [
        ("shapes", S.And(n > 0, a.previous_record.n == n, a.next_record.n == n, lrs.n == nch, ens.n == nch,
                         w == _rl_width(S, r), S.forall(0, n, lambda j: r.f("channel", j) < nch))),
        ("last_record_seen[c] is the last record < k of channel c (or -1)",
         S.forall(0, nch, lambda c: S.And(
             -1 <= lrs.at(c), lrs.at(c) < k,
             S.Implies(lrs.at(c) >= 0, r.f("channel", lrs.at(c)) == c),
             S.forall(lrs.at(c) + 1, k, lambda m: r.f("channel", m) != c)))),
        ("expected_next_start[c] is where a continuation of that record would start",
         S.forall(0, nch, lambda c: S.If(lrs.at(c) >= 0,
                                         ens.at(c) == r.f("time", lrs.at(c)) + w * r.f("dt", lrs.at(c)),
                                         ens.at(c) == 0))),
        ("previous links correct below k", S.forall(0, k, lambda i: _prev_ok(S, r, w, a.previous_record, i))),
        ("previous links untouched from k on", S.forall(k, n, lambda i: a.previous_record.at(i) == -1)),
        ("next links are the inverse of the previous links so far", _next_ok(S, a.previous_record, a.next_record, n, k)),
    ]


def _rl_ens(S, a, r):
    prev, nxt = r
    rec, n = a.records, a.records.n
    w = _rl_width(S, rec)
    return [
        ("one link per record", S.And(prev.n == n, nxt.n == n)),
        ("previous_record[i] = the time-adjacent earlier fragment of the same pulse in the same channel, else -1",
         S.forall(0, n, lambda i: _prev_ok(S, rec, w, prev, i))),
        ("next_record is exactly the inverse of previous_record", _next_ok(S, prev, nxt, n, n)),
    ]


record_links = REG.add(Contract(
    F, "record_links",
    params=dict(records=RECORDS),
    ensures=_rl_ens,
    raises={"ValueError": lambda S, a: S.exists(0, a.records.n, lambda j: a.records.f("channel", j) < 0)},
    loops={1: Loop(_rl_inv)},
    consts={"NO_RECORD_LINK": __import__("z3").IntVal(-1)},
    call_names=("record_links", "strax.record_links"),
    returns=(ArrT("int"), ArrT("int")),
))


# --------------------------------------------------------------------------------------
# zero_out_of_bounds
# --------------------------------------------------------------------------------------
META = ("time", "length", "dt", "channel", "record_i", "pulse_length", "area", "reduction_level", "amplitude_bit_shift")


def _meta_same(S, new, old, lo, hi, fields=META):
    return S.forall(lo, hi, lambda i: S.And(*[new.f(f, i) == old.f(f, i) for f in fields]))


def _zoob_data_ok(S, new, old, w, lo, hi):
    return S.forall2(lo, hi, 0, w, lambda i, s: new.f2("data", i, s) == S.If(
        s >= old.f("length", i), 0, old.f2("data", i, s)))


def _zoob_inv(S, a):
    r, old, k = a.records, a.old.records, a.k_
    w = a.samples_per_record
    return [("width", S.And(w == _rl_width(S, r), r.n > 0)),
            ("samples beyond the pulse length are zero, all others unchanged, for records done",
             _zoob_data_ok(S, r, old, w, 0, k)),
            ("records not yet visited are unchanged",
             S.forall2(k, r.n, 0, w, lambda i, s: r.f2("data", i, s) == old.f2("data", i, s))),
            ("metadata never changes", _meta_same(S, r, old, 0, r.n))]


zero_out_of_bounds = REG.add(Contract(
    F, "zero_out_of_bounds",
    params=dict(records=RECORDS),
    requires=lambda S, a: [("pulse lengths are non-negative", S.forall(0, a.records.n, lambda i: a.records.f("length", i) >= 0))],
    ensures=lambda S, a, r: [
        ("exactly the samples at or beyond the pulse length are zeroed; every other sample is unchanged",
         _zoob_data_ok(S, a.records, a.old.records, _rl_width(S, a.records), 0, a.records.n)),
        ("record metadata is never altered", _meta_same(S, a.records, a.old.records, 0, a.records.n))],
    raises={},
    loops={1: Loop(_zoob_inv)},
    modifies=["records"],
    call_names=("zero_out_of_bounds", "strax.zero_out_of_bounds"),
))


# --------------------------------------------------------------------------------------
# cut_baseline (data_reduction.py)
# --------------------------------------------------------------------------------------
FR = "strax/processing/data_reduction.py"
import z3 as _z3  # noqa: E402


def _cb_cleared(S, old, w, n_before, n_after, i, s):
    clear_from = S.max(0, old.f("pulse_length", i) - n_after - old.f("record_i", i) * w)
    return S.Or(S.And(old.f("record_i", i) == 0, s < n_before), s >= clear_from)


def _cb_data_ok(S, new, old, w, n_before, n_after, lo, hi):
    return S.forall2(lo, hi, 0, w, lambda i, s: new.f2("data", i, s) == S.If(
        _cb_cleared(S, old, w, n_before, n_after, i, s), 0, old.f2("data", i, s)))


_CB_META = tuple(f for f in META if f != "reduction_level")


def _cb_inv(S, a):
    r, old, k = a.records, a.old.records, a.k_
    w = a.samples_per_record
    return [("width", S.And(w == _rl_width(S, r), r.n > 0)),
            ("records done: exactly the leading / trailing baseline samples are zero",
             _cb_data_ok(S, r, old, w, a.n_before, a.n_after, 0, k)),
            ("records done are marked BASELINE_CUT", S.forall(0, k, lambda i: r.f("reduction_level", i) == 1)),
            ("records not yet visited are unchanged",
             S.And(S.forall2(k, r.n, 0, w, lambda i, s: r.f2("data", i, s) == old.f2("data", i, s)),
                   S.forall(k, r.n, lambda i: r.f("reduction_level", i) == old.f("reduction_level", i)))),
            ("other metadata never changes", _meta_same(S, r, old, 0, r.n, _CB_META))]


cut_baseline = REG.add(Contract(
    FR, "cut_baseline",
    params=dict(records=RECORDS, n_before="int", n_after="int"),
    requires=lambda S, a: [("n_before is non-negative", a.n_before >= 0)],
    ensures=lambda S, a, r: [
        ("exactly the first n_before samples of a pulse and the samples within n_after of its end are zeroed",
         _cb_data_ok(S, a.records, a.old.records, _rl_width(S, a.records), a.n_before, a.n_after, 0, a.records.n)),
        ("every record is marked BASELINE_CUT", S.forall(0, a.records.n, lambda i: a.records.f("reduction_level", i) == 1)),
        ("no other metadata is altered", _meta_same(S, a.records, a.old.records, 0, a.records.n, _CB_META))],
    raises={},
    loops={1: Loop(_cb_inv)},
    modifies=["records"],
    consts={"ReductionLevel.BASELINE_CUT": _z3.IntVal(1), "np.int32": None},
    call_names=("cut_baseline", "strax.cut_baseline"),
))


# --------------------------------------------------------------------------------------
# _cut_outside_hits (data_reduction.py): exactly the samples near a hit survive - in the hit's own record and, where the
# extension reaches over the record's edge, in the linked previous / next fragment of the same pulse
# --------------------------------------------------------------------------------------
from pyvc.engine import ArrT  # noqa: E402,F811

HITS = RowsT(time="int", length="int", dt="int", channel="int", left="int", right="int", record_i="int", area="real")

_COH_KEPT = _z3.Function("coh_kept", _z3.IntSort(), _z3.IntSort(), _z3.IntSort(), _z3.BoolSort())   # kept(k, r, s): covered by a hit < k
_COH_PREV = _z3.Function("coh_prev", _z3.IntSort(), _z3.IntSort())
_COH_NEXT = _z3.Function("coh_next", _z3.IntSort(), _z3.IntSort())


class _FnArr:
    """array-like view of an uninterpreted function (for the link predicates of record_links)"""

    def __init__(self, fn, n):
        self._fn, self.n = fn, n

    def at(self, i):
        return self._fn(i)


def _coh_covers(S, a, prev, nxt, w, h, r, s):
    """sample s of record r lies within the extensions of hit h (own record, or the linked previous / next fragment)"""
    hits, rec = a.hits, a.records
    ri = hits.f("record_i", h)
    start_keep = hits.f("left", h) - a.left_extension
    end_keep = hits.f("right", h) + a.right_extension
    own = S.And(r == ri, 0 <= s, s < rec.f("length", ri), start_keep <= s, s < end_keep)
    before = S.And(prev(ri) == r, start_keep < 0, s >= w + start_keep)
    after = S.And(nxt(ri) == r, end_keep > w, s < end_keep - w)
    return S.Or(own, before, after)


def _coh_kept(S, a, k, r, s):
    if S.symbolic:
        return _COH_KEPT(k, r, s)
    import strax
    prev, nxt = strax.record_links(a.records.arr)
    w = _rl_width(S, a.records)
    return any(bool(_coh_covers(S, a, lambda i: int(prev[int(i)]), lambda i: int(nxt[int(i)]), w, h, r, s)) for h in range(int(k)))


def _coh_data_ok(S, a, new, k):
    rec = a.records
    w = _rl_width(S, rec)
    return S.forall2(0, rec.n, 0, w, lambda r, s: new.f2("data", r, s) == S.If(_coh_kept(S, a, k, r, s), rec.f2("data", r, s), 0))


def _coh_requires(S, a):
    rec, hits, new = a.records, a.hits, a.new_recs
    w = _rl_width(S, rec)
    out = [("one blank output record per record", S.And(new.n == rec.n, a.left_extension >= 0, a.right_extension >= 0)),
           ("pulse lengths fit the records", S.forall(0, rec.n, lambda i: S.And(0 <= rec.f("length", i), rec.f("length", i) <= w))),
           ("every hit lies inside the valid samples of the record it names",
            S.forall(0, hits.n, lambda h: S.And(0 <= hits.f("record_i", h), hits.f("record_i", h) < rec.n, 0 <= hits.f("left", h),
                                                hits.f("left", h) < hits.f("right", h),
                                                hits.f("right", h) <= rec.f("length", hits.f("record_i", h))))),
           ("the output waveforms start blank", S.forall2(0, rec.n, 0, w, lambda r, s: new.f2("data", r, s) == 0))]
    if S.symbolic:
        out.append(("both arrays have the same number of samples per record",
                    S.And(S.eng.row_width(new.arr.base, "data") == w, w > 0)))
    return out


def _coh_axioms(S, a):
    if not S.symbolic:
        return []
    rec, hits = a.records, a.hits
    w = _rl_width(S, rec)
    n = rec.n
    k, r, s = _z3.Ints("coh_k coh_r coh_s")
    gp, gn = _FnArr(_COH_PREV, n), _FnArr(_COH_NEXT, n)
    kept0 = _z3.ForAll([r, s], _z3.Not(_COH_KEPT(0, r, s)), patterns=[_COH_KEPT(0, r, s)])
    k2 = _z3.Int("coh_k2")
    # unfolding stated over two indices (k2 = k + 1) so that the trigger holds no arithmetic: both kept(k, r, s) - from the
    # invariant before the step - and kept(k + 1, r, s) - from the invariant after it - are terms of the obligation
    step = _z3.ForAll([k, k2, r, s], _z3.Implies(_z3.And(0 <= k, k < hits.n, k2 == k + 1),
                                                 _COH_KEPT(k2, r, s) == _z3.Or(_COH_KEPT(k, r, s),
                                                                               S.b(_coh_covers(S, a, _COH_PREV, _COH_NEXT, w, k, r, s)))),
                      patterns=[_z3.MultiPattern(_COH_KEPT(k2, r, s), _COH_KEPT(k, r, s))])
    links = S.And(S.forall(0, n, lambda i: _prev_ok(S, rec, w, gp, i)), _next_ok(S, gp, gn, n, n))
    return [("definition of kept(k, r, s): sample s of record r is covered by one of the first k hits (unfolding)", _z3.And(kept0, step)),
            ("coh_prev / coh_next are the links record_links defines (its proved postcondition determines them uniquely)", S.b(links))]


def _coh_links_eq(S, a, n):
    """previous_record[i] / next_record[i] are the ghost links, for every record; triggered by the array reads themselves (the code
    reads the links at hits[k].record_i, an index no goal marks)"""
    i = _z3.Int("coh_i")
    p_, n_ = a.previous_record.at(i), a.next_record.at(i)
    return _z3.And(_z3.ForAll([i], _z3.Implies(_z3.And(0 <= i, i < n), p_ == _COH_PREV(i)), patterns=[p_, _COH_PREV(i)]),
                   _z3.ForAll([i], _z3.Implies(_z3.And(0 <= i, i < n), n_ == _COH_NEXT(i)), patterns=[n_, _COH_NEXT(i)]))


def _coh_inv(S, a):
    rec, new, k = a.records, a.new_recs, a.k_
    n = rec.n
    return [("shape", S.And(a.samples_per_record == _rl_width(S, rec), n > 0, a.previous_record.n == n, a.next_record.n == n)),
            ("the links in use are the links of record_links", _coh_links_eq(S, a, n)),
            ("samples covered by the hits done are copied, all others are still blank", _coh_data_ok(S, a, new, k)),
            ("metadata of the output records is untouched", _meta_same(S, new, a.old.new_recs, 0, n, META))]


cut_outside_hits_core = REG.add(Contract(
    FR, "_cut_outside_hits",
    params=dict(records=RECORDS, hits=HITS, new_recs=RECORDS, left_extension="int", right_extension="int"),
    requires=_coh_requires,
    ensures=lambda S, a, r: [
        ("a sample survives exactly if it lies within the extensions of some hit - in the hit's record or continuing into the "
         "linked previous / next fragment of the pulse; every other sample is zero",
         _coh_data_ok(S, a, a.new_recs, a.hits.n)),
        ("record metadata is never altered", _meta_same(S, a.new_recs, a.old.new_recs, 0, a.records.n, META))],
    raises={"ValueError": lambda S, a: S.exists(0, a.records.n, lambda j: a.records.f("channel", j) < 0)},
    loops={1: Loop(_coh_inv)},
    modifies=["new_recs"],
    lemma_facts=_coh_axioms,
    consts={"NO_RECORD_LINK": _z3.IntVal(-1)},
    call_names=("_cut_outside_hits",),
))
