"""Bounded stand-ins for the object-level laws of chunking that are not (yet) under a proved contract:
split/concatenate round trip incl. sub/superrun bookkeeping and run-id recovery, concatenate / merge rejections,
the Rechunker stream law and get_splits.  Concrete-only contracts evaluated on the real code."""

import itertools

import numpy as np

from pyvc.contract import Contract
from pyvc.harness import Harness, intervals, random_sorted_intervals, all_sorted_intervals, INTERVAL_DT
from pyvc.engine import RowsT

F = "strax/chunk.py"


def _strax():
    import strax
    return strax


def mk_chunk(rows, start, end, run_id="r0", data_type="things", subruns=None, dtype=INTERVAL_DT, extra=None):
    strax = _strax()
    data = np.zeros(len(rows), dtype=dtype)
    for k, (s, e) in enumerate(rows):
        data[k]["time"], data[k]["endtime"] = s, e
    if extra:
        for f, vals in extra.items():
            data[f] = vals
    return strax.Chunk(data_type=data_type, data_kind="things", dtype=dtype, run_id=run_id, start=start, end=end,
                       data=data, subruns=subruns, target_size_mb=200)


def same_chunk(a, b):
    return (a.start == b.start and a.end == b.end and a.run_id == b.run_id and a.data_type == b.data_type
            and a.data.dtype == b.data.dtype and a.data.tobytes() == b.data.tobytes()
            and a.subruns == b.subruns and a.superrun == b.superrun)


# ---- split / concatenate round trip with run annotations ---------------------------------------------
def _rt_native(i):
    strax = _strax()
    chunks = i["chunks"]
    big = strax.Chunk.concatenate(chunks, allow_superrun=True) if len(chunks) > 1 else chunks[0]
    try:
        c1, c2 = big.split(t=i["t"], allow_early_split=i["allow_early_split"])
    except strax.CannotSplit:
        return dict(big=big, split=None)
    back = strax.Chunk.concatenate([c1, c2], allow_superrun=True)
    return dict(big=big, split=(c1, c2), back=back)


def _rt_ens(S, a, r):
    big = r["big"]._obj
    out = []
    if r["split"] is None:
        # refusal only if a row straddles the (clamped) time
        t = max(min(a.t, big.end), big.start)
        strad = any(int(x["time"]) < t < int(x["endtime"]) for x in big.data)
        return [("CannotSplit only when a row straddles and early split is off", strad and not a.allow_early_split)]
    c1, c2 = r["split"][0]._obj, r["split"][1]._obj
    back = r["back"]._obj
    out.append(("concatenating the two halves gives back the original chunk (rows, range, run id, sub/superrun annotations)",
                same_chunk(back, big)))
    out.append(("halves are adjacent", c1.start == big.start and c1.end == c2.start and c2.end == big.end))
    for name, c in (("left", c1), ("right", c2)):
        runs = list(c.superrun.keys())
        out.append((f"{name} half: run id is the single run it covers, or None when it spans several",
                    c.run_id == (runs[0] if len(runs) == 1 else None) or (len(runs) > 1 and c.run_id == big.run_id)))
        out.append((f"{name} half: its superrun spans lie inside the half",
                    all(c.start <= v["start"] <= v["end"] <= c.end for v in c.superrun.values())))
    out.append(("every run of the original is recorded in the halves, split at the split time",
                set(big.superrun) == set(c1.superrun) | set(c2.superrun)
                and all(min(c.superrun[k]["start"] for c in (c1, c2) if k in c.superrun) == big.superrun[k]["start"]
                        and max(c.superrun[k]["end"] for c in (c1, c2) if k in c.superrun) == big.superrun[k]["end"]
                        for k in big.superrun)))
    return out


def _rt_gen(rng, tier):
    n_iter = 600 if tier == "quick" else 40000
    for _ in range(n_iter):
        k = rng.randint(1, 3)
        chunks, t0 = [], 0
        for ci in range(k):
            rows = random_sorted_intervals(rng, rng.randint(0, 3), 10, 4)
            rows = [(s + t0, e + t0) for s, e in rows]
            end = max([e for _, e in rows], default=t0) + rng.randint(0, 2)
            end = max(end, t0 + 1)     # runs of zero duration are outside this stand-in's scope
            chunks.append(mk_chunk(rows, t0, end, run_id=f"r{ci}"))
            t0 = end
        t = rng.randint(-1, t0 + 1)
        if rng.random() < 0.4 and len(chunks) > 1:
            t = rng.choice([c.start for c in chunks] + [c.end for c in chunks])
        yield dict(chunks=chunks, t=t, allow_early_split=rng.random() < 0.6)


def _f19_region(inputs, outcome):
    """Known finding F19: concatenating two chunks that each span several runs (run_id None on both) fails."""
    if outcome.raised != "ValueError" or "None as run_id in superrun" not in outcome.detail:
        return False
    chunks = inputs["chunks"]
    t = inputs["t"]
    # the split time lies strictly inside the middle of >= 3 runs, or both halves keep >= 2 runs
    left = [c for c in chunks if c.start < t]
    right = [c for c in chunks if c.end > t]
    return len(left) >= 2 and len(right) >= 2


split_concat_roundtrip = Contract(
    F, "Chunk.split+concatenate", params=dict(chunks="V", t="int", allow_early_split="bool"),
    ensures=_rt_ens, raises={},
    harness=Harness(native=_rt_native, gen=_rt_gen,
                    scope="random 1..3 contiguous chunks of different runs (0..3 rows each), concatenated with allow_superrun, split at "
                          "every kind of time (inside rows, on row / chunk / run borders, outside), early split on/off",
                    nontrivial=lambda i: True))


split_concat_roundtrip.known_regions["F19"] = _f19_region


# ---- concatenate / merge rejections ----------------------------------------------------------------------
def _cat_native(i):
    return _strax().Chunk.concatenate(i["chunks"], allow_superrun=i["allow_superrun"])


def _cat_ens(S, a, r):
    chunks = [c._obj for c in a.chunks if c is not None]
    c = r._obj
    bad = _cat_bad(chunks, a.allow_superrun)
    if len(chunks) == 1:
        return [("a single chunk is returned as is", c is chunks[0] or same_chunk(c, chunks[0]))]
    return [("accepted only for in-order, non-overlapping chunks of one data type (and one run unless superruns are allowed)", not bad),
            ("range spans first start to last end", c.start == chunks[0].start and c.end == chunks[-1].end),
            ("rows are the inputs' rows in order", c.data.tobytes() == np.concatenate([x.data for x in chunks]).tobytes())]


def _cat_bad(chunks, allow_superrun):
    if not chunks:
        return True
    if len({c.data_type for c in chunks}) != 1:
        return True
    if len({c.run_id for c in chunks}) != 1 and not allow_superrun:
        return True
    return any(chunks[k + 1].start < chunks[k].end for k in range(len(chunks) - 1))


def _cat_gen(rng, tier):
    for _ in range(500 if tier == "quick" else 30000):
        k = rng.randint(0, 3)
        chunks, t0 = [], 0
        for ci in range(k):
            rows = [(t0, t0 + 1)] if rng.random() < 0.6 else []
            end = t0 + rng.randint(1, 3)
            chunks.append(mk_chunk(rows, t0, end, run_id=rng.choice(("r0", "r0", "r1")),
                                   data_type=rng.choice(("things", "things", "other"))))
            t0 = end + rng.choice((0, 0, 0, 1, -1))
            t0 = max(t0, 0)
        if rng.random() < 0.2:
            rng.shuffle(chunks)
        if rng.random() < 0.2:
            chunks.insert(rng.randint(0, len(chunks)), None)
        yield dict(chunks=chunks, allow_superrun=rng.random() < 0.3)


def _runs_not_contiguous(chunks):
    """In superrun mode the pieces of one run must be contiguous (the bookkeeping refuses gaps inside a run)."""
    spans = {}
    for c in chunks:
        for rid, se in (c.superrun or {}).items():
            spans.setdefault(rid, []).append((se["start"], se["end"]))
    for rid, lst in spans.items():
        lst.sort()
        if any(lst[k + 1][0] != lst[k][1] for k in range(len(lst) - 1)):
            return True
    return False


def _cat_raise_ok(S, a):
    chunks = [c._obj for c in a.chunks if c is not None]
    if _cat_bad(chunks, a.allow_superrun):
        return True
    # several runs: the superrun bookkeeping additionally refuses a run whose pieces leave a gap
    return len({c.run_id for c in chunks}) > 1 and a.allow_superrun and _runs_not_contiguous(chunks)


concatenate = Contract(
    F, "Chunk.concatenate", params=dict(chunks="V", allow_superrun="bool"), ensures=_cat_ens,
    raises={"ValueError": _cat_raise_ok},
    harness=Harness(native=_cat_native, gen=_cat_gen,
                    scope="random lists of 0..3 chunks with gaps / overlaps / shuffles / None entries / mixed data types and run ids",
                    nontrivial=lambda i: len(i["chunks"]) >= 2))


MERGE_A = np.dtype([("time", np.int64), ("endtime", np.int64), ("a", np.int32)])
MERGE_B = np.dtype([("time", np.int64), ("endtime", np.int64), ("b", np.float32), ("a", np.int32)])


def _merge_native(i):
    return _strax().Chunk.merge(i["chunks"], data_type="merged")


def _merge_bad(chunks):
    if not chunks:
        return True
    return (len({c.data_kind for c in chunks}) != 1 or len({c.run_id for c in chunks}) != 1
            or len({len(c) for c in chunks}) != 1 or len({(c.start, c.end) for c in chunks}) != 1)


def _merge_ens(S, a, r):
    chunks = [c._obj for c in a.chunks if c is not None]
    c = r._obj
    if len(chunks) == 1:
        return [("a single chunk is returned as is", same_chunk(c, chunks[0]))]
    out = [("accepted only for equal-length chunks of one kind, one run and one time range", not _merge_bad(chunks)),
           ("same range and row count", c.start == chunks[0].start and c.end == chunks[0].end and len(c) == len(chunks[0]))]
    ok = True
    for f in c.data.dtype.names:
        src = [x for x in chunks if f in x.data.dtype.names][-1]
        ok &= bool((c.data[f] == src.data[f]).all())
    out.append(("every field comes from the last chunk that has it", ok))
    out.append(("all input fields are present", set(c.data.dtype.names) == set().union(*[x.data.dtype.names for x in chunks])))
    return out


def _merge_gen(rng, tier):
    for _ in range(400 if tier == "quick" else 30000):
        n = rng.randint(0, 3)
        rows = [(2 * k, 2 * k + 1) for k in range(n)]
        end = 2 * n + 1
        chunks = []
        for ci in range(rng.randint(1, 3)):
            dt = rng.choice((MERGE_A, MERGE_B))
            r = rows if rng.random() < 0.85 else rows[:-1] if rows else [(0, 1)]
            e = end if rng.random() < 0.85 else end + 1
            extra = {f: [rng.randint(0, 9) for _ in r] for f in dt.names if f not in ("time", "endtime")}
            c = mk_chunk(r, 0, e, run_id=rng.choice(("r0", "r0", "r0", "r1")), data_type=f"t{ci}", dtype=dt, extra=extra)
            chunks.append(c)
        yield dict(chunks=chunks)


merge = Contract(
    F, "Chunk.merge", params=dict(chunks="V"), ensures=_merge_ens,
    raises={"ValueError": lambda S, a: _merge_bad([c._obj for c in a.chunks if c is not None])},
    harness=Harness(native=_merge_native, gen=_merge_gen,
                    scope="random 1..3 chunks of 0..3 rows with overlapping field sets, occasionally unequal lengths / ranges / run ids",
                    nontrivial=lambda i: len(i["chunks"]) >= 2))


# ---- Rechunker stream law ---------------------------------------------------------------------------------
def _rech_native(i):
    strax = _strax()
    r = strax.Rechunker(rechunk=i["rechunk"], run_id="r0")
    out = []
    for c in i["chunks"]:
        out.extend(r.receive(c))
    out.extend(r.flush())
    return out


def _rech_ens(S, a, r):
    chunks = [c._obj for c in a.chunks]
    out_chunks = [c._obj for c in r]
    rows_in = np.concatenate([c.data for c in chunks])
    rows_out = np.concatenate([c.data for c in out_chunks]) if out_chunks else rows_in[:0]
    res = [("identical rows in the same order", rows_in.tobytes() == rows_out.tobytes()),
           ("the stream stays contiguous", all(out_chunks[k].end == out_chunks[k + 1].start for k in range(len(out_chunks) - 1))),
           ("the overall range is unchanged", bool(out_chunks) and out_chunks[0].start == chunks[0].start
            and out_chunks[-1].end == chunks[-1].end)]
    cut_ok = True
    for c in out_chunks:
        for t in (c.start, c.end):
            cut_ok &= not any(int(x["time"]) < t < int(x["endtime"]) for x in rows_in)
    res.append(("cuts only where no row is straddled", cut_ok))
    if not a.rechunk:
        res.append(("without rechunking the chunks pass through unchanged",
                    len(out_chunks) == len(chunks) and all(same_chunk(x, y) for x, y in zip(out_chunks, chunks))))
    return res


def _rech_gen(rng, tier):
    strax = _strax()
    itemsize = INTERVAL_DT.itemsize
    for _ in range(400 if tier == "quick" else 30000):
        n_rows = rng.randint(0, 8)
        t, rows = 0, []
        for _k in range(n_rows):
            t += rng.choice((0, 1, 5, 1001, 1500, 3000))
            ln = rng.choice((1, 2, 10, 600))
            rows.append((t, t + ln))
            t += rng.choice((0, ln))
        # partition into contiguous chunks, with possible empty chunks (also at the very start)
        ok_cuts = [b for b in range(0, n_rows + 1)
                   if b == n_rows or rows[b][0] >= max([e for _, e in rows[:b]], default=0)]
        cuts = sorted(rng.sample(ok_cuts, rng.randint(0, min(3, len(ok_cuts)))))
        bounds = [0] + cuts + [n_rows]
        chunks, start = [], 0
        if rng.random() < 0.4:
            # leading empty chunk(s), possibly of positive duration: shift the run to the right
            lead = rng.randint(0, 5)
            rows = [(s_ + lead, e_ + lead) for s_, e_ in rows]
            mid = rng.randint(0, lead)
            chunks.append(mk_chunk([], 0, mid))
            if rng.random() < 0.5:
                chunks.append(mk_chunk([], mid, lead))
                start = lead
            else:
                start = mid
        for b0, b1 in zip(bounds[:-1], bounds[1:]):
            part = rows[b0:b1]
            end = max([e for _, e in rows[:b1]], default=start)
            end = max(end, start)
            c = mk_chunk(part, start, end)
            c.target_size_mb = rng.choice((1, 2, 3)) * itemsize / 1e6
            chunks.append(c)
            start = end
        if rng.random() < 0.3:
            chunks.append(mk_chunk([], start, start + rng.randint(0, 5)))
        yield dict(chunks=chunks, rechunk=rng.random() < 0.85)


rechunker_stream = Contract(
    F, "Rechunker.receive+flush", params=dict(chunks="V", rechunk="bool"), ensures=_rech_ens, raises={},
    harness=Harness(native=_rech_native, gen=_rech_gen,
                    scope="random runs of 0..8 rows (gaps 0..3000 ns, lengths 1..600) in all kinds of contiguous partitions incl. empty "
                          "chunks at the start / end, target sizes of 1..3 rows, rechunk on / off",
                    nontrivial=lambda i: len(i["chunks"]) >= 1))


# ---- get_splits ---------------------------------------------------------------------------------------------
def _gs_native(i):
    return _strax().Rechunker.get_splits(i["data"], i["target_size"], i["min_gap"])


def _gs_ens(S, a, r):
    strax = _strax()
    idx = [int(v) for v in r.arr]
    d = strax.diff(a.data.arr)
    return [("starts at 0 and is strictly increasing", idx[0] == 0 and all(x < y for x, y in zip(idx, idx[1:]))),
            ("every later split index sits right after a gap larger than min_gap",
             all(0 < g < a.data.n and d[g - 1] > a.min_gap for g in idx[1:]))]


def _gs_gen(rng, tier):
    itemsize = INTERVAL_DT.itemsize
    gaps = (0, 1, 5)
    for n in range(0, 6):
        for gs in itertools.product(gaps, repeat=max(0, n - 1)):
            rows, t = [], 0
            for k in range(n):
                rows.append((t, t + 1))
                t += 1 + (gs[k] if k < n - 1 else 0)
            for target_rows in (1, 2, 3):
                yield dict(data=intervals(rows), target_size=target_rows * itemsize, min_gap=2)
    for _ in range(300 if tier == "quick" else 20000):
        rows = random_sorted_intervals(rng, rng.randint(0, 12), 60, 4)
        yield dict(data=intervals(rows), target_size=rng.randint(1, 4) * itemsize, min_gap=rng.choice((0, 1, 3)))


get_splits = Contract(
    F, "Rechunker.get_splits", params=dict(data=RowsT(), target_size="int", min_gap="int"), ensures=_gs_ens,
    raises={"ValueError": lambda S, a: a.target_size < a.data.arr.itemsize},
    harness=Harness(native=_gs_native, gen=_gs_gen,
                    scope="all runs of <=5 unit rows with gaps in {0,1,5} x target sizes of 1..3 rows (exhaustive) + random <=12 rows",
                    nontrivial=lambda i: len(i["data"]) >= 2))
