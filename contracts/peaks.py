"""Contracts for the peak-level processing functions (C19)."""

import z3

from pyvc.contract import Contract, Loop, REG
from pyvc.engine import RowsT, ArrT, Arr, St

FS = "strax/processing/peak_splitting.py"


# --------------------------------------------------------------------------------------
# symmetric_moving_average  (reals: assumption A3)
# --------------------------------------------------------------------------------------
def _sma_window(S, n, w, i):
    lo = S.max(0, i - w)
    hi = S.min(n, i + w + 1)
    return lo, hi


def _sma_ok(S, a_, out, w, upto):
    n = a_.n

    def one(i):
        lo, hi = _sma_window(S, n, w, i)
        if S.symbolic:
            return out.at(i) == (S.psum(a_, hi) - S.psum(a_, lo)) / z3.ToReal(hi - lo)
        want = (S.psum(a_, hi) - S.psum(a_, lo)) / (hi - lo)
        return abs(out.at(i) - want) <= 1e-9 * max(1.0, abs(want))
    return S.forall(0, upto, one)


def _sma_inv(S, a):
    x, w, i, n = a.a, a.wing_width, a.k_, a.a.n
    lo = S.max(0, i - w - 1)      # first sample still in the running window before step i
    hi = S.min(n, i + w)          # one past the last sample in the running window before step i
    return [("shape", S.And(a.n == n, a.out.n == n, w > 0)),
            ("asum is the sum of the current window", a.asum == S.psum(x, hi) - S.psum(x, lo)),
            ("count is the size of the current window", a.count == hi - lo),
            ("outputs so far are the window means", _sma_ok(S, x, a.out, w, i))]


def _np_empty_like(eng, args, kw, st, fr, k, node):
    base = eng.new_base("out")
    cell = {"#sorts": {"": "real"}}
    st = St(st.env, {**st.heap, base: cell}, st.pc, st.ghost)
    return k(Arr(base, "", z3.IntVal(0), eng.to_int(args[0])), st)


symmetric_moving_average = REG.add(Contract(
    FS, "symmetric_moving_average",
    params=dict(a=ArrT("real"), wing_width="int"),
    requires=lambda S, a: [("wing width is non-negative", a.wing_width >= 0)],
    ensures=lambda S, a, r: [
        ("one output per sample", r.n == a.a.n),
        ("out[i] is the mean of a[max(0,i-w) .. min(n-1,i+w)]",
         S.If(a.wing_width == 0, S.forall(0, a.a.n, lambda i: r.at(i) == a.a.at(i)),
              _sma_ok(S, a.a, r, a.wing_width, a.a.n)))],
    raises={},
    loops={1: Loop(_sma_inv)},
    lemma_facts=lambda S, a: [("definition of the ghost prefix sum of a", S.psum_axioms(a.a))],
    calls={"np.empty": _np_empty_like},
    call_names=("symmetric_moving_average",),
))
