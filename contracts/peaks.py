"""Contracts for the peak-level processing functions (C19)."""

import z3

from pyvc.contract import Contract, Loop, REG
from pyvc.engine import RowsT, ArrT, Arr, St

FS = "strax/processing/peak_splitting.py"


# --------------------------------------------------------------------------------------
# symmetric_moving_average  (reals: assumption A3)
# --------------------------------------------------------------------------------------
def _sma_window(S, n, w, i):
    lo = S.max(0, i - w)
    hi = S.min(n, i + w + 1)
    return lo, hi


def _sma_ok(S, a_, out, w, upto):
    n = a_.n

    def one(i):
        lo, hi = _sma_window(S, n, w, i)
        if S.symbolic:
            return out.at(i) == (S.psum(a_, hi) - S.psum(a_, lo)) / z3.ToReal(hi - lo)
        want = (S.psum(a_, hi) - S.psum(a_, lo)) / (hi - lo)
        return abs(out.at(i) - want) <= 1e-9 * max(1.0, abs(want))
    return S.forall(0, upto, one)


def _sma_inv(S, a):
    x, w, i, n = a.a, a.wing_width, a.k_, a.a.n
    lo = S.max(0, i - w - 1)      # first sample still in the running window before step i
    hi = S.min(n, i + w)          # one past the last sample in the running window before step i
    return [("shape", S.And(a.n == n, a.out.n == n, w > 0)),
            ("asum is the sum of the current window", a.asum == S.psum(x, hi) - S.psum(x, lo)),
            ("count is the size of the current window", a.count == hi - lo),
            ("outputs so far are the window means", _sma_ok(S, x, a.out, w, i))]


def _np_empty_like(eng, args, kw, st, fr, k, node):
    base = eng.new_base("out")
    cell = {"#sorts": {"": "real"}}
    st = St(st.env, {**st.heap, base: cell}, st.pc, st.ghost)
    return k(Arr(base, "", z3.IntVal(0), eng.to_int(args[0])), st)


symmetric_moving_average = REG.add(Contract(
    FS, "symmetric_moving_average",
    params=dict(a=ArrT("real"), wing_width="int"),
    requires=lambda S, a: [("wing width is non-negative", a.wing_width >= 0)],
    ensures=lambda S, a, r: [
        ("one output per sample", r.n == a.a.n),
        ("out[i] is the mean of a[max(0,i-w) .. min(n-1,i+w)]",
         S.If(a.wing_width == 0, S.forall(0, a.a.n, lambda i: r.at(i) == a.a.at(i)),
              _sma_ok(S, a.a, r, a.wing_width, a.a.n)))],
    raises={},
    loops={1: Loop(_sma_inv)},
    lemma_facts=lambda S, a: [("definition of the ghost prefix sum of a", S.psum_axioms(a.a))],
    calls={"np.empty": _np_empty_like},
    call_names=("symmetric_moving_average",),
))


# --------------------------------------------------------------------------------------
# _replace_merged  (peak_merging.py): integer / index structure, rows copied whole
# --------------------------------------------------------------------------------------
FM = "strax/processing/peak_merging.py"

# a peak-like row: the fields every interval carries plus a float and a waveform field, so that "copied whole" is checked on
# scalar, real and 2-D fields alike (the row copy of the engine copies every declared field; the real dtype has more fields of
# the same three shapes)
PEAKROWS = RowsT(time="int", length="int", dt="int", channel="int", n_hits="int", area="real", data="real2")
_PK_SCALARS = ("time", "length", "dt", "channel", "n_hits", "area")

if z3 is not None:
    _RM_CUM = z3.Function("rm_cum", z3.IntSort(), z3.IntSort())


def _rm_cum(S, sw, w):
    """number of original rows inside the first w skip windows"""
    if S.symbolic:
        return _RM_CUM(w)
    return int(sum(int(sw.arr[v][1]) - int(sw.arr[v][0]) for v in range(int(w))))


def _rm_s(sw, w):
    return sw.at2(w, 0)


def _rm_e(sw, w):
    return sw.at2(w, 1)


def _rm_row_eq(S, dst, i, src, j):
    if not S.symbolic:
        i, j = int(i), int(j)
        return 0 <= i < dst.n and 0 <= j < src.n and dst.arr[i].tobytes() == src.arr[j].tobytes()
    # the waveform is compared as a whole (array equality), which is what copying a row establishes
    return S.And(*[dst.f(f, i) == src.f(f, j) for f in _PK_SCALARS], dst.f("data", i) == src.f("data", j))


def _rm_windows_ok(S, sw, m, n):
    return S.And(sw.n == m, m >= 1,
                 S.forall(0, m, lambda w: S.And(0 <= _rm_s(sw, w), _rm_s(sw, w) < _rm_e(sw, w), _rm_e(sw, w) <= n)),
                 S.forall(0, m - 1, lambda w: _rm_e(sw, w) <= _rm_s(sw, w + 1)))


def _rm_gap_lo(S, sw, w):
    """first original row after window w-1 (0 for w = 0)"""
    if S.symbolic:
        return z3.If(w == 0, z3.IntVal(0), _rm_e(sw, w - 1))
    return 0 if int(w) == 0 else int(_rm_e(sw, int(w) - 1))


def _rm_gap_hi(S, sw, w, m, n):
    """one past the last original row before window w (n for w = m)"""
    if S.symbolic:
        return z3.If(w == m, n, _rm_s(sw, w))
    return int(n) if int(w) == int(m) else int(_rm_s(sw, int(w)))


def _rm_placed(S, res, orig, merge, sw, m, n, n_windows_done, orig_upto, below):
    """merged rows of the windows done and original rows below orig_upto sit where the definition puts them (all of them
    below the write position ``below``): merge[w] at (rows kept before window w) + w, an original row i of the gap before
    window w at i - cum(w) + w."""
    def pos_ok(p):
        return S.And(0 <= p, p < below)
    return [S.forall(0, n_windows_done, lambda w: S.And(
                pos_ok(_rm_s(sw, w) - _rm_cum(S, sw, w) + w),
                _rm_row_eq(S, res, _rm_s(sw, w) - _rm_cum(S, sw, w) + w, merge, w))),
            S.forall2(0, m + 1, 0, orig_upto, lambda w, i: S.Implies(
                S.And(_rm_gap_lo(S, sw, w) <= i, i < _rm_gap_hi(S, sw, w, m, n)),
                S.And(pos_ok(i - _rm_cum(S, sw, w) + w), _rm_row_eq(S, res, i - _rm_cum(S, sw, w) + w, orig, i))))]


def _rm_requires(S, a):
    n, m = a.orig.n, a.merge.n
    out = [("one skip window per merged row: non-empty, inside the original array, in order and disjoint",
            _rm_windows_ok(S, a.skip_windows, m, n)),
           ("the result has room for exactly the rows kept plus the merged rows",
            a.result.n == n - _rm_cum(S, a.skip_windows, m) + m)]
    if S.symbolic:
        eng = S.eng
        out.append(("a skip window is a pair (first row skipped, one past the last)", eng.row_width(a.skip_windows.arr.base, "") == 2))
        out.append(("waveforms of the three arrays have one width",
                    S.And(eng.row_width(a.result.arr.base, "data") == eng.row_width(a.orig.arr.base, "data"),
                          eng.row_width(a.merge.arr.base, "data") == eng.row_width(a.orig.arr.base, "data"))))
    return out


def _rm_cum_axioms(S, a):
    """definition of the ghost function cum (unfolding) + the inductive lemma instance (proved separately, see RM_LEMMA)"""
    if not S.symbolic:
        return []
    sw, m, n = a.skip_windows, a.merge.n, a.orig.n
    w = z3.Int("rm_w")
    defn = z3.And(_RM_CUM(0) == 0,
                  z3.ForAll([w], z3.Implies(z3.And(0 <= w, w < m),
                                            _RM_CUM(w + 1) == _RM_CUM(w) + _rm_e(sw, w) - _rm_s(sw, w)),
                            patterns=[_RM_CUM(w + 1)]))
    w2 = z3.Int("rm_w2")
    # the same unfolding stated over two indices, triggered without arithmetic whenever both cum(w) and cum(w + 1) are terms of an
    # obligation (a trigger holding `w + 1` matches or not depending on how the solver normalises the sum)
    defn = z3.And(defn, z3.ForAll([w, w2], z3.Implies(z3.And(0 <= w, w < m, w2 == w + 1),
                                                      _RM_CUM(w2) == _RM_CUM(w) + _rm_e(sw, w) - _rm_s(sw, w)),
                                  patterns=[z3.MultiPattern(_RM_CUM(w2), _RM_CUM(w))]))
    v = z3.Int("rm_v")
    lem = z3.Implies(S.b(_rm_windows_ok(S, sw, m, n)),
                     z3.ForAll([v], z3.Implies(z3.And(0 <= v, v <= m),
                                               z3.And(_RM_CUM(m) - _RM_CUM(v) <= n - _rm_gap_lo(S, sw, v),
                                                      0 <= _RM_CUM(v), _RM_CUM(v) <= _rm_gap_lo(S, sw, v))),
                               patterns=[_RM_CUM(v)]))
    from contracts import lemmas as LM
    pw = LM.disjoint_instance(S, lambda i: _rm_s(sw, i), lambda i: _rm_e(sw, i), m)
    return [("definition of cum(w) = rows inside the first w windows", defn),
            ("rows inside the windows from v on fit behind window v-1", lem), pw]


def _rm_inv(S, a):
    sw, m, n, k = a.skip_windows, a.merge.n, a.orig.n, a.k_
    wi = a.window_i
    in_window = S.max(0, k - _rm_gap_hi(S, sw, wi, m, n))      # rows of the current window already skipped
    return [
        ("shape", S.And(a.n_orig == n, 0 <= wi, wi <= m)),
        ("the current window is the first one not yet replaced",
         S.And(S.Implies(wi < m, S.And(a.skip_start == _rm_s(sw, wi), a.skip_end == _rm_e(sw, wi), k <= _rm_e(sw, wi))),
               S.Implies(wi == m, S.And(a.skip_start > n, a.skip_end > n)),
               S.Implies(wi > 0, _rm_e(sw, wi - 1) < k))),
        ("result_i counts the rows written: rows kept so far plus windows replaced",
         S.And(a.result_i >= 0, a.result_i == k - _rm_cum(S, sw, wi) - in_window + wi)),
        ("merged rows of the windows replaced so far are in place", _rm_placed(S, a.result, a.orig, a.merge, sw, m, n, wi, k, a.result_i)[0]),
        ("original rows kept so far are in place", _rm_placed(S, a.result, a.orig, a.merge, sw, m, n, wi, k, a.result_i)[1]),
    ]


def _rm_ens(S, a, r):
    sw, m, n = a.skip_windows, a.merge.n, a.orig.n
    pl = _rm_placed(S, a.result, a.orig, a.merge, sw, m, n, m, n, a.result.n)
    return [("every merged row is in the result, whole, at the position of its skip window among the kept rows", pl[0]),
            ("every original row outside the skip windows is in the result, whole, in its original order "
             "(the result has exactly as many rows as these two clauses place, so nothing else is in it)", pl[1])]


def _rm_lemma(S):
    """Induction over the windows, downward from m for the 'fits behind' half and upward for cum(v) <= end of window v-1."""
    s = z3.Array("rml_s", z3.IntSort(), z3.IntSort())
    e = z3.Array("rml_e", z3.IntSort(), z3.IntSort())
    cum = z3.Function("rml_cum", z3.IntSort(), z3.IntSort())
    m, n, d = z3.Ints("rml_m rml_n rml_d")
    w = z3.Int("rml_w")
    hyp = [m >= 1, n >= 0,
           z3.ForAll([w], z3.Implies(z3.And(0 <= w, w < m), z3.And(0 <= s[w], s[w] < e[w], e[w] <= n))),
           z3.ForAll([w], z3.Implies(z3.And(0 <= w, w < m - 1), e[w] <= s[w + 1])),
           cum(0) == 0,
           z3.ForAll([w], z3.Implies(z3.And(0 <= w, w < m), cum(w + 1) == cum(w) + e[w] - s[w]))]
    lo = lambda v: z3.If(v == 0, z3.IntVal(0), e[v - 1])
    P = lambda v: cum(m) - cum(v) <= n - lo(v)
    Q = lambda v: z3.And(0 <= cum(v), cum(v) <= lo(v))
    return [("fits-behind, base: v = m", hyp, P(m)),
            ("fits-behind, step: v+1 -> v", hyp + [0 <= d, d < m, P(d + 1)], P(d)),
            ("cum below the previous window's end, base: v = 0", hyp, Q(z3.IntVal(0))),
            ("cum below the previous window's end, step: v -> v+1", hyp + [0 <= d, d < m, Q(d)], Q(d + 1))]


from pyvc.runner import Lemma  # noqa: E402

RM_LEMMA = Lemma("rows inside ordered disjoint skip windows fit between the windows", _rm_lemma,
                 doc="downward / upward induction over the window index; the induction principle itself is the only trusted step")

_replace_merged = REG.add(Contract(
    FM, "_replace_merged",
    params=dict(result=PEAKROWS, orig=PEAKROWS, merge=PEAKROWS, skip_windows=ArrT("int", dims=2)),
    requires=_rm_requires,
    ensures=_rm_ens,
    raises={},
    loops={1: Loop(_rm_inv)},
    modifies=["result"],
    lemma_facts=_rm_cum_axioms,
    call_names=("_replace_merged",),
))
