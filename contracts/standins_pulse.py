"""Bounded stand-ins for the float / buffer-heavy pulse functions (C18): find_hits, cut_outside_hits, baseline,
integrate.  Concrete-only contracts: direct definitions evaluated on the real code over a stated scope."""

import itertools

import numpy as np

from pyvc.contract import Contract
from pyvc.harness import Harness
from pyvc.engine import RowsT
from contracts.harness_pulse import make_records

F = "strax/processing/pulse_processing.py"
FR = "strax/processing/data_reduction.py"


def _strax():
    import strax
    return strax


def runs_at_or_above(x, thr):
    out, start = [], None
    for i, v in enumerate(x):
        if v >= thr and start is None:
            start = i
        if v < thr and start is not None:
            out.append((start, i))
            start = None
    if start is not None:
        out.append((start, len(x)))
    return out


# ---- find_hits --------------------------------------------------------------------------------
def _fh_ens(S, a, r):
    recs = a.records.arr
    hits = r.arr
    thr_amp, hon = a.min_amplitude, a.min_height_over_noise
    want = []
    for ri, rec in enumerate(recs):
        ch = int(rec["channel"])
        amp = thr_amp[ch] if isinstance(thr_amp, (tuple, list)) else thr_amp
        ho = hon[ch] if isinstance(hon, (tuple, list)) else hon
        thr = max(amp, float(rec["baseline_rms"]) * ho)
        x = rec["data"][: int(rec["length"])].astype(np.int64)
        fp = float(rec["baseline"]) % 1
        for (lo, hi) in runs_at_or_above(x, thr):
            seg = x[lo:hi]
            want.append(dict(left=lo, right=hi, time=int(rec["time"]) + lo * int(rec["dt"]), length=hi - lo,
                             dt=int(rec["dt"]), channel=ch, record_i=ri, area=float(seg.sum()) + (hi - lo) * fp,
                             height=float(seg.max()) + fp,
                             max_time=int(rec["time"]) + (lo + int(np.argmax(seg))) * int(rec["dt"])))
    out = [("number of hits = number of maximal runs of samples at or above threshold", len(hits) == len(want))]
    if len(hits) != len(want):
        return out
    for k, w in enumerate(want):
        h = hits[k]
        ints_ok = all(int(h[f]) == w[f] for f in ("left", "right", "time", "length", "dt", "channel", "record_i", "max_time"))
        out.append((f"hit {k}: left/right/time/length/dt/channel/record_i/max_time", ints_ok))
        out.append((f"hit {k}: area and height", abs(float(h["area"]) - w["area"]) < 1e-3 and abs(float(h["height"]) - w["height"]) < 1e-3))
    return out


def _fh_gen(rng, tier):
    alphabet = (-1, 0, 1, 2, 3)
    spr = 4
    for n_s in (1, 2, 3, 4):
        for data in itertools.product(alphabet, repeat=n_s):
            for thr in (1, 2, 3):
                yield dict(records=make_records([(10, 0, 0, n_s, 2, data)], spr), min_amplitude=thr, min_height_over_noise=0)
    for _ in range(400 if tier == "quick" else 30000):
        n = rng.randint(1, 4)
        rows = []
        for k in range(n):
            ln = rng.randint(0, spr)
            rows.append((10 * k, rng.randint(0, 2), rng.randint(0, 2), ln, rng.choice((1, 2)),
                         tuple(rng.choice(alphabet) for _ in range(spr))))
        recs = make_records(rows, spr)
        recs["baseline"] = [rng.choice((0.0, 0.25, 16000.5)) for _ in range(n)]
        recs["baseline_rms"] = [rng.choice((0.0, 0.5, 1.5)) for _ in range(n)]
        mode = rng.randint(0, 2)
        amp = rng.randint(1, 3) if mode != 1 else tuple(rng.randint(1, 3) for _ in range(3))
        hon = rng.choice((0, 1, 2)) if mode != 2 else tuple(rng.choice((0, 1, 2)) for _ in range(3))
        yield dict(records=recs, min_amplitude=amp, min_height_over_noise=hon)


find_hits = Contract(
    F, "find_hits", params=dict(records=RowsT(), min_amplitude="V", min_height_over_noise="V"),
    ensures=_fh_ens, raises={},
    harness=Harness(native=lambda i: _strax().find_hits(i["records"], min_amplitude=i["min_amplitude"],
                                                        min_height_over_noise=i["min_height_over_noise"]),
                    gen=_fh_gen,
                    scope="all waveforms over {-1,0,1,2,3} of 1..4 samples x thresholds 1..3 (exhaustive, one record) + random "
                          "1..4 records, 3 channels, scalar / per-channel / noise-scaled thresholds, fractional baselines",
                    nontrivial=lambda i: len(i["records"]) >= 1))


# ---- cut_outside_hits --------------------------------------------------------------------------
def _coh_ens(S, a, r):
    strax = _strax()
    recs, hits = a.records.arr, a.hits.arr
    new = r.arr
    le, re_ = a.left_extension, a.right_extension
    out = [("same number of records", len(new) == len(recs))]
    if len(new) != len(recs) or not len(recs):
        return out
    spr = len(recs[0]["data"])
    prev, nxt = strax.record_links(recs.copy())
    keep = np.zeros((len(recs), spr), dtype=bool)
    for h in hits:
        ri = int(h["record_i"])
        sk, ek = int(h["left"]) - le, int(h["right"]) + re_
        for s in range(max(0, sk), min(int(recs[ri]["length"]), ek)):
            keep[ri, s] = True
        if sk < 0 and prev[ri] != -1:
            for s in range(max(0, spr + sk), spr):
                keep[prev[ri], s] = True
        if ek > spr and nxt[ri] != -1:
            for s in range(0, min(spr, ek - spr)):
                keep[nxt[ri], s] = True
    want = np.where(keep, recs["data"], 0)
    out.append(("samples within the extension of a hit (also in the linked neighbour fragment) are kept, all others are zero",
                bool((new["data"] == want).all())))
    meta = [f for f in recs.dtype.names if f not in ("data", "reduction_level")]
    out.append(("record metadata is never altered", all(bool((new[f] == recs[f]).all()) for f in meta)))
    out.append(("records are marked HITS_ONLY", bool((new["reduction_level"] == 2).all())))
    return out


def _coh_gen(rng, tier):
    strax = _strax()
    alphabet = (0, 1, 2, 3)
    spr = 4
    n_total = 400 if tier == "quick" else 30000
    for _ in range(n_total):
        n_pulses = rng.randint(1, 3)
        rows = []
        t = 0
        for p in range(n_pulses):
            ch = rng.randint(0, 2)
            n_frag = rng.randint(1, 3)
            plen = spr * (n_frag - 1) + rng.randint(1, spr)
            for fi in range(n_frag):
                ln = min(spr, plen - fi * spr)
                rows.append((t, ch, fi, ln, 1, tuple(rng.choice(alphabet) for _ in range(ln))))
                t += spr
            t += rng.choice((0, 3, 7))
        if rng.random() < 0.3 and len(rows) > 1:
            del rows[rng.randrange(len(rows))]      # a missing fragment
        recs = make_records(rows, spr)
        for k, row in enumerate(rows):
            recs[k]["pulse_length"] = row[3]
        hits = strax.find_hits(recs, min_amplitude=rng.randint(1, 3))
        yield dict(records=recs, hits=hits, left_extension=rng.randint(0, spr), right_extension=rng.randint(0, spr))


cut_outside_hits = Contract(
    FR, "cut_outside_hits", params=dict(records=RowsT(), hits=RowsT(), left_extension="int", right_extension="int"),
    ensures=_coh_ens, raises={},
    harness=Harness(native=lambda i: _strax().cut_outside_hits(i["records"], i["hits"], left_extension=i["left_extension"],
                                                                right_extension=i["right_extension"]),
                    gen=_coh_gen,
                    scope="random pulses of 1..3 fragments (4 samples each), 1..3 channels, possibly a missing fragment, amplitudes 0..3, "
                          "thresholds 1..3, extensions 0..record length",
                    nontrivial=lambda i: len(i["hits"]) >= 1))


# ---- baseline / integrate -----------------------------------------------------------------------
def _bl_ens(S, a, r):
    old, new = a.old.records.arr, a.records.arr
    out = []
    last = {}
    ok_data = ok_bl = ok_meta = True
    for i in range(len(old)):
        ch = int(old[i]["channel"])
        if old[i]["record_i"] == 0:
            w = old[i]["data"][: a.baseline_samples].astype(np.float64)
            last[ch] = (np.float32(w.mean()), np.float32(w.std()))
        bl, rms = last[ch]
        ln = int(old[i]["length"])
        want = old[i]["data"].copy()
        want[:ln] = (-1 if a.flip else 1) * (old[i]["data"][:ln] - int(bl))
        ok_data &= bool((new[i]["data"] == want).all())
        ok_bl &= abs(float(new[i]["baseline"]) - float(bl)) < 1e-3 and abs(float(new[i]["baseline_rms"]) - float(rms)) < 1e-3
        ok_meta &= all(new[i][f] == old[i][f] for f in ("time", "length", "dt", "channel", "record_i", "pulse_length"))
    return [("in-pulse samples are (flipped) data minus int(baseline); padding untouched", ok_data),
            ("baseline and rms stored are those of the pulse's first fragment", ok_bl),
            ("other metadata unchanged", ok_meta)]


def _bl_gen(rng, tier):
    spr = 4
    for _ in range(300 if tier == "quick" else 20000):
        # pulses of several channels, their fragments interleaved in time (A0 B0 A1 B1 ...)
        pulses = []
        for ch in rng.sample(range(3), rng.randint(1, 3)):
            base = rng.choice((90, 100, 117))
            n_frag = rng.randint(1, 3)
            t0 = rng.randint(0, 3)
            pulses.append([(t0 + spr * fi, ch, fi, rng.randint(1, spr), 1,
                            tuple(base + rng.randint(-3, 3) for _ in range(spr))) for fi in range(n_frag)])
        rows = sorted((r for p in pulses for r in p), key=lambda r: (r[0], r[1]))
        rows = [(t, ch, fi, ln, dt, data[:ln]) for t, ch, fi, ln, dt, data in rows]
        yield dict(records=make_records(rows, spr), baseline_samples=rng.randint(1, 4), flip=rng.random() < 0.5)


def _bl_native(i):
    _strax().baseline(i["records"], baseline_samples=i["baseline_samples"], flip=i["flip"])


baseline = Contract(
    F, "baseline", params=dict(records=RowsT(), baseline_samples="int", flip="bool"),
    ensures=_bl_ens, raises={},
    harness=Harness(native=_bl_native, gen=_bl_gen,
                    scope="random pulses of 1..3 fragments in 1..3 channels with different baselines, fragments of different "
                          "channels interleaved in time, baseline window 1..4 samples, flip on/off",
                    nontrivial=lambda i: len(i["records"]) >= 1))


def _int_ens(S, a, r):
    old, new = a.old.records.arr, a.records.arr
    ok = True
    for i in range(len(old)):
        want = int(old[i]["data"].astype(np.int64).sum()) * 2 ** int(old[i]["amplitude_bit_shift"]) + int(
            round((float(old[i]["baseline"]) % 1) * int(old[i]["length"])))
        ok &= int(new[i]["area"]) == want
    return [("area = sum(data) * 2^shift + round(frac(baseline) * length)", ok),
            ("data untouched", bool((old["data"] == new["data"]).all()))]


def _int_gen(rng, tier):
    for _ in range(300 if tier == "quick" else 20000):
        n = rng.randint(1, 4)
        recs = make_records([(5 * k, 0, 0, rng.randint(0, 4), 1, tuple(rng.randint(-3, 9) for _ in range(4))) for k in range(n)], 4)
        recs["baseline"] = [rng.choice((0.0, 0.25, 0.5, 16000.75)) for _ in range(n)]
        recs["amplitude_bit_shift"] = [rng.choice((0, 1, 2)) for _ in range(n)]
        yield dict(records=recs)


integrate = Contract(
    F, "integrate", params=dict(records=RowsT()), ensures=_int_ens, raises={},
    harness=Harness(native=lambda i: _strax().integrate(i["records"]), gen=_int_gen,
                    scope="random 1..4 records of 4 samples, fractional baselines, bit shifts 0..2",
                    nontrivial=lambda i: len(i["records"]) >= 1))


# ---- replay harness of the PROVED contract of _cut_outside_hits: the compiled kernel and its py_func ---------------------------
import contracts.pulse as _P  # noqa: E402


def _cohk_gen(rng, tier):
    for inp in _coh_gen(rng, tier):
        recs = inp["records"]
        new = np.zeros(len(recs), dtype=recs.dtype)
        for f in recs.dtype.names:
            if f not in ("data", "reduction_level"):
                new[f] = recs[f]
        new["reduction_level"] = 2
        yield dict(records=recs, hits=inp["hits"], new_recs=new, left_extension=inp["left_extension"],
                   right_extension=inp["right_extension"])


def _cohk_native(py):
    def run(i):
        import strax.processing.data_reduction as dr
        f = dr._cut_outside_hits
        pyf = getattr(f, "py_func", f)
        if not py:
            # the compiled kernel (no bounds checks) only runs where the Python semantics do not raise
            pyf(i["records"], i["hits"], i["new_recs"].copy(), i["left_extension"], i["right_extension"])
        (pyf if py else f)(i["records"], i["hits"], i["new_recs"], i["left_extension"], i["right_extension"])
        return None
    return run


_P.cut_outside_hits_core.harness = Harness(
    native=_cohk_native(False), variants=[("py_func", _cohk_native(True))], gen=_cohk_gen,
    scope="random pulses of 1..3 fragments (4 samples each), 1..3 channels, possibly a missing fragment, hits from the real find_hits, "
          "extensions 0..record length; blank output records prepared as the wrapper does",
    nontrivial=lambda i: len(i["hits"]) >= 1)
