"""Bounded stand-ins (concrete-only contracts) for general.py functions outside the verified subset:
split_by_containment (numba typed lists, boolean-mask indexing), abs_time_to_prev_next_interval (slices of
the iterated array inside the loop), sort_by_time (rests on numpy's sort).  Labelled bounded, never counted
as proved."""

import itertools

import numpy as np

from pyvc.contract import Contract
from pyvc.harness import Harness, intervals, all_sorted_intervals, random_sorted_intervals
from pyvc.engine import RowsT

F = "strax/processing/general.py"


def _g():
    import strax.processing.general as g
    return g


def _end(x, i):
    return x.f("endtime", i)


def _sorted_disjoint(S, x):
    return S.forall(0, x.n - 1, lambda i: S.And(x.f("time", i) <= x.f("time", i + 1), _end(x, i) <= x.f("time", i + 1)))


# ---- split_by_containment ------------------------------------------------------------------
def _sbc_ens(S, a, r):
    t, c = a.things, a.containers
    out = [("one list entry per container", len(r) == c.n)]
    if len(r) != c.n:
        return out
    for ci in range(c.n):
        want = [i for i in range(t.n) if c.f("time", ci) <= t.f("time", i) and _end(t, i) <= _end(c, ci)]
        got = r[ci]
        ok = got.n == len(want) and all(got.arr[j].tobytes() == t.arr[i].tobytes() for j, i in enumerate(want))
        out.append((f"entry {ci} holds exactly the things contained in container {ci}, in order", ok))
    return out


def _sbc_native(i):
    res = _g().split_by_containment(i["things"], i["containers"])
    return [np.asarray(x) for x in res]


def _sbc_patterns():
    """4..5 containers [10k, 10k+8) with every empty / full occupancy pattern (full = 1 or 2 things inside), optionally with a long
    thing that starts early and ends beyond the last container (sorted by start before contained things) and with things between
    the containers"""
    for nc in (4, 5):
        conts = [(10 * k, 10 * k + 8) for k in range(nc)]
        for occ in itertools.product((0, 1, 2), repeat=nc):
            for extra in ((), ((0, 10 * nc + 5),), ((8, 10),), ((10 * (nc - 1), 10 * nc + 3),)):
                things = []
                for k, o in enumerate(occ):
                    if o >= 1:
                        things.append((10 * k + 1, 10 * k + 3))
                    if o == 2:
                        things.append((10 * k + 4, 10 * k + 8))
                things = sorted(things + list(extra), key=lambda x: x[0])
                # stable order for equal starts: the long thing first
                yield things, conts


def _sbc_gen(rng, tier):
    pats = list(_sbc_patterns())
    rng.shuffle(pats)
    for t, c in pats[: (400 if tier == "quick" else len(pats))]:
        yield dict(things=intervals(t, "endtime"), containers=intervals(c, rng.choice(("endtime", "dt"))))
    small_t = list(all_sorted_intervals(3, 5, min_len=1))
    small_c = list(all_sorted_intervals(2, 5, min_len=0, disjoint=True))
    for t in small_t:
        for c in small_c:
            for e in ("endtime", "dt"):
                yield dict(things=intervals(t, e), containers=intervals(c, e))
    for _ in range(500 if tier == "quick" else 20000):
        t = random_sorted_intervals(rng, rng.randint(0, 8), 40, 8, min_len=1)
        c = random_sorted_intervals(rng, rng.randint(0, 5), 40, 12, min_len=0, disjoint=True)
        yield dict(things=intervals(t), containers=intervals(c))


split_by_containment = Contract(
    F, "split_by_containment", params=dict(things=RowsT(), containers=RowsT()),
    requires=lambda S, a: [("things sorted", S.forall(0, a.things.n - 1, lambda i: a.things.f("time", i) <= a.things.f("time", i + 1))),
                           ("things have positive length", S.forall(0, a.things.n, lambda i: _end(a.things, i) > a.things.f("time", i))),
                           ("containers sorted and disjoint", _sorted_disjoint(S, a.containers)),
                           ("containers non-negative", S.forall(0, a.containers.n, lambda i: _end(a.containers, i) >= a.containers.f("time", i)))],
    ensures=_sbc_ens, raises={},
    harness=Harness(native=_sbc_native, gen=_sbc_gen,
                    scope="4..5 containers x every empty/one/two-things occupancy pattern x {no extra thing, a long thing ending beyond the last container, a thing between containers, "
                          "a thing straddling the last container's end} (quick: 400 of them at random); <=3 things x <=2 disjoint containers on grid 0..5, both endtime encodings (exhaustive) + random",
                    nontrivial=lambda i: len(i["things"]) > 0 and len(i["containers"]) > 0))


# ---- abs_time_to_prev_next_interval -------------------------------------------------------------
def _atpn_ens(S, a, r):
    t, iv = a.things, a.intervals
    prev, nxt = r
    out = [("two arrays of len(things)", prev.n == t.n and nxt.n == t.n)]
    for i in range(t.n):
        ps = [t.f("time", i) - _end(iv, j) for j in range(iv.n) if _end(iv, j) <= t.f("time", i)]
        ns = [iv.f("time", j) - _end(t, i) for j in range(iv.n) if iv.f("time", j) >= _end(t, i)]
        out.append((f"time to previous interval of thing {i}", prev.at(i) == (min(ps) if ps else -1)))
        out.append((f"time to next interval of thing {i}", nxt.at(i) == (min(ns) if ns else -1)))
    return out


def _atpn_gen(rng, tier):
    small_t = list(all_sorted_intervals(3, 6, min_len=1, disjoint=True))
    small_i = list(all_sorted_intervals(3, 6, min_len=1, disjoint=True))
    # ends encoded as time + length * dt (no endtime field), for things, for intervals and for both
    for t, c in (([(0, 2), (5, 6)], [(3, 4)]), ([(1, 2)], [(0, 1), (4, 6)]), ([(0, 1), (2, 3), (6, 7)], [(1, 2), (4, 5)])):
        for enc_t, enc_c in (("dt", "endtime"), ("endtime", "dt"), ("dt", "dt")):
            yield dict(things=intervals(t, enc_t), intervals=intervals(c, enc_c))
    for t in small_t:
        for c in small_i:
            yield dict(things=intervals(t), intervals=intervals(c))
    for _ in range(500 if tier == "quick" else 20000):
        t = random_sorted_intervals(rng, rng.randint(0, 6), 40, 6, min_len=1, disjoint=True)
        c = random_sorted_intervals(rng, rng.randint(0, 6), 40, 6, min_len=1, disjoint=True)
        yield dict(things=intervals(t, rng.choice(("endtime", "dt"))), intervals=intervals(c, rng.choice(("endtime", "dt"))))


abs_time_to_prev_next = Contract(
    F, "abs_time_to_prev_next_interval", params=dict(things=RowsT(), intervals=RowsT()),
    requires=lambda S, a: [("things sorted and disjoint", _sorted_disjoint(S, a.things)),
                           ("intervals sorted and disjoint", _sorted_disjoint(S, a.intervals)),
                           ("positive lengths", S.And(S.forall(0, a.things.n, lambda i: _end(a.things, i) > a.things.f("time", i)),
                                                      S.forall(0, a.intervals.n, lambda i: _end(a.intervals, i) > a.intervals.f("time", i))))],
    ensures=_atpn_ens, raises={},
    harness=Harness(native=lambda i: _g().abs_time_to_prev_next_interval(i["things"], i["intervals"]), gen=_atpn_gen,
                    scope="<=3 disjoint things x <=3 disjoint intervals on grid 0..6 (exhaustive) + random",
                    nontrivial=lambda i: len(i["things"]) > 0 and len(i["intervals"]) > 0))


# ---- sort_by_time ---------------------------------------------------------------------------------
# a field (endtime) sits between time and channel so that numpy's default tie-breaking by the remaining fields
# in dtype order differs from the documented (time, channel) order
SORT_DT = np.dtype([("time", np.int64), ("endtime", np.int64), ("channel", np.int16), ("tag", np.int32)])


def _sbt_ens(S, a, r):
    x = a.x
    out = [("same length", r.n == x.n)]
    if r.n != x.n:
        return out
    has_ch = "channel" in x.arr.dtype.names
    key = (lambda arr, i: (int(arr["time"][i]), int(arr["channel"][i]))) if has_ch else (lambda arr, i: (int(arr["time"][i]),))
    out.append(("sorted by time (then channel)", all(key(r.arr, i) <= key(r.arr, i + 1) for i in range(r.n - 1))))
    want = sorted(range(x.n), key=lambda i: key(x.arr, i))  # python's sort is stable
    out.append(("stable: equal keys keep their input order, rows bit-identical",
                all(r.arr[j].tobytes() == x.arr[i].tobytes() for j, i in enumerate(want))))
    return out


def _sbt_gen(rng, tier):
    for n in range(0, 5):
        for times in itertools.product(range(0, 3), repeat=n):
            for chans in itertools.product((-1, 0, 1), repeat=n) if n <= 3 else [tuple([0] * n)]:
                x = np.zeros(n, dtype=SORT_DT)
                x["time"] = times
                x["channel"] = chans
                x["tag"] = np.arange(n)
                x["endtime"] = x["time"] + 5 - np.arange(n)
                yield dict(x=x)
                if n >= 2:
                    y = x.copy()
                    y["time"] = y["time"] * (2 ** 61)      # forces the slow stable_sort path
                    y["endtime"] = y["time"] + 5 - np.arange(n)
                    yield dict(x=y)
    for _ in range(300 if tier == "quick" else 10000):
        n = rng.randint(0, 40)
        if rng.random() < 0.5:
            x = np.zeros(n, dtype=SORT_DT)
            x["channel"] = [rng.randint(-1, 3) for _ in range(n)]
            x["endtime"] = [rng.randint(0, 9) for _ in range(n)]
        else:
            x = np.zeros(n, dtype=np.dtype([("time", np.int64), ("tag", np.int32)]))
        big = rng.random() < 0.4
        x["time"] = [rng.randint(0, 5) * (2 ** 61 // 5 if big else 1) for _ in range(n)]
        x["tag"] = np.arange(n)
        yield dict(x=x)


sort_by_time = Contract(
    F, "sort_by_time", params=dict(x=RowsT()), ensures=_sbt_ens, raises={},
    harness=Harness(native=lambda i: _g().sort_by_time(i["x"]), gen=_sbt_gen,
                    scope="all arrays of <=4 rows over times 0..2 x channels -1..1 (exhaustive) + random <=40 rows incl. "
                          "time spans that force the slow stable_sort path",
                    nontrivial=lambda i: len(i["x"]) >= 2))


def _f17_region(inputs, outcome):
    """Known finding F17: on the slow path (time span too large for the combined sort key) numpy's order=
    breaks ties in (time, channel) by the remaining dtype fields instead of keeping the input order."""
    if not outcome.failed or any("stable" not in f for f in outcome.failed):
        return False
    x = inputs["x"]
    if len(x) < 2:
        return False
    ch = x["channel"].astype(np.int64) if "channel" in x.dtype.names else np.ones(len(x))
    ch = ch - min(0, ch.min())
    too_large = (int(x["time"].max()) - int(x["time"].min())) > (np.iinfo(np.int64).max - 10) / (ch.max() + 1)
    keys = list(zip(x["time"].tolist(), ch.tolist()))
    return bool(too_large) and len(set(keys)) < len(keys)


sort_by_time.known_regions["F17"] = _f17_region


def _f18_region(inputs, outcome):
    """Known finding F18: the float comparison guarding the fast path lets through time spans whose combined sort
    key (time - tmin) * (max_channel + 1) + channel overflows int64 (spans within rounding of the threshold)."""
    if not outcome.failed:
        return False
    x = inputs["x"]
    if len(x) < 2:
        return False
    ch = x["channel"].astype(np.int64) if "channel" in x.dtype.names else np.ones(len(x), dtype=np.int64)
    ch = ch - min(0, int(ch.min()))
    m = int(ch.max()) + 1
    span = int(x["time"].max()) - int(x["time"].min())
    fast_path = not (span > (np.iinfo(np.int64).max - 10) / m)
    return fast_path and span * m + int(ch.max()) > np.iinfo(np.int64).max


sort_by_time.known_regions["F18"] = _f18_region
