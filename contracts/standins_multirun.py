"""Bounded stand-ins for C15 on the real code: strax.multi_run under controlled completion orders, and
Context.get_array over several runs with worker threads against sequential single-run calls.  Concrete-only."""

import atexit
import contextlib
import io
import itertools
import logging
import shutil
import tempfile
import threading
import time
import warnings

import numpy as np

from pyvc.contract import Contract
from pyvc.harness import Harness

F = "strax/utils.py"
_TMP_ROOT = tempfile.mkdtemp(prefix="verif_c15_")
atexit.register(lambda: shutil.rmtree(_TMP_ROOT, ignore_errors=True))


class _Boom(Exception):
    pass


def _arr(run_id):
    r = np.zeros(2, dtype=[("time", np.int64), ("x", np.int64)])
    r["time"] = [0, 1]
    r["x"] = int(run_id) * 10 + np.arange(2)
    return r


def _native(i):
    import strax
    with contextlib.redirect_stdout(io.StringIO()), contextlib.redirect_stderr(io.StringIO()):
        warnings.simplefilter("ignore")
        run_ids = list(i["run_ids"])
        order = list(i["completion_order"])          # run ids in the order in which they are allowed to finish
        events = {r: threading.Event() for r in run_ids}
        started, finished, calls = [], [], []
        lock = threading.Lock()

        def exec_function(run_id, *args, **kwargs):
            run_id = str(run_id)
            with lock:
                started.append(run_id)
                calls.append((run_id, args, dict(kwargs)))
            events[run_id].wait(20)
            with lock:
                finished.append(run_id)
            if run_id in i["failing"]:
                raise _Boom(run_id)
            return _arr(run_id)

        stop = threading.Event()

        def controller():
            while not stop.is_set():
                with lock:
                    pending = [r for r in order if r in started and not events[r].is_set()]
                    busy = [r for r in started if events[r].is_set() and r not in finished]
                if pending and not busy:
                    events[pending[0]].set()
                time.sleep(0.0005)
        th = threading.Thread(target=controller, daemon=True)
        th.start()
        res = dict(error=None, result=None)
        try:
            out = strax.multi_run(exec_function, run_ids, "extra", max_workers=i["workers"], ignore_errors=i["ignore_errors"],
                                  throw_away_result=i["throw_away"], multi_run_progress_bar=False, log=logging.getLogger("verif_c15"),
                                  some_kw=7)
            if out is not None:
                res["result"] = [dict(run_id=[str(x) for x in a["run_id"]], x=a["x"].tolist(), fields=list(a.dtype.names)) for a in out]
            res["returned_none"] = out is None
        except _Boom as ex:
            res["error"] = "Boom:" + str(ex)
        except Exception as ex:  # noqa
            res["error"] = f"{type(ex).__name__}: {str(ex)[:120]}"
        finally:
            stop.set()
            for e in events.values():
                e.set()
            th.join(2)
        res["started"] = sorted(started)
        res["extra_args_ok"] = all(a == ("extra",) and kw.get("some_kw") == 7 and kw.get("progress_bar") is False
                                    and "add_run_id_field" not in kw for _, a, kw in calls)
        return res


def _ens(S, a, r):
    ids_sorted = sorted(a.run_ids)
    failing = [x for x in ids_sorted if x in a.failing]
    out = [("every call gets the extra arguments and no bookkeeping keyword", r["extra_args_ok"])]
    if failing and not a.ignore_errors:
        out.append(("a failing run raises its exception to the caller", r["error"] is not None and r["error"].startswith("Boom:")
                    and r["error"][5:] in failing))
        return out
    out.append(("no error: " + str(r["error"]), r["error"] is None))
    out.append(("every run is executed exactly once", r["started"] == ids_sorted))
    if a.throw_away:
        out.append(("results are thrown away on request", r["returned_none"]))
        return out
    want = [x for x in ids_sorted if x not in failing]
    got = r["result"] or []
    out += [("one result per successful run, in run-id order, a failing run omitted without disturbing the others",
             [g["run_id"][0] for g in got] == want),
            ("each result is the run's own data with its run id attached to every row",
             all(g["x"] == _arr(w)["x"].tolist() and g["run_id"] == [w] * 2 and g["fields"][0] == "run_id" for g, w in zip(got, want)))]
    return out


def _gen(rng, tier):
    pools = [["001", "002", "003"], ["003", "001", "002", "010"], ["05", "04", "03", "02", "01"], ["1", "2", "3", "4", "5", "6"]]
    thorough = tier == "thorough"
    for ids in pools[: (4 if thorough else 3)]:
        perms = list(itertools.permutations(ids))
        rng.shuffle(perms)
        for order in perms[: (40 if thorough else 4)]:
            for workers in ((1, 2, 3, 8) if thorough else (1, 2, 8)):
                srt = sorted(ids)
                for failing, ignore in (((), False), ((ids[1],), True), ((ids[1],), False), ((ids[0], ids[-1]), True),
                                        (tuple(srt[:2]), True), (tuple(srt[:3]), True)):
                    for throw in ((False, True) if (thorough or failing == (ids[1],)) else (False,)):
                        yield dict(run_ids=ids, completion_order=list(order), workers=workers, failing=list(failing),
                                   ignore_errors=ignore, throw_away=throw)


multi_run = Contract(
    F, "multi_run", params=dict(run_ids="V", completion_order="V", workers="int", failing="V", ignore_errors="bool", throw_away="bool"),
    ensures=_ens, raises={},
    harness=Harness(native=_native, gen=_gen,
                    scope="3..6 runs given in unsorted order, completion orders enforced by releasing the worker calls one at a time "
                          "(quick: 4, thorough: 40 permutations per id set), 1/2/3/8 workers, no / one / two / three failing runs (also the first ones scheduled, so that a whole "
                          "scheduling window fails) with and without ignore_errors, throw_away_result with and without failures; the real strax.multi_run with real threads",
                    nontrivial=lambda i: i["completion_order"] != sorted(i["completion_order"])))


# ---- Context level: many runs with workers == one by one -------------------------------------------------------------
def _ctx_native(i):
    import strax
    from strax.testutils import Records, Peaks
    with contextlib.redirect_stdout(io.StringIO()), contextlib.redirect_stderr(io.StringIO()):
        warnings.simplefilter("ignore")
        tmp = tempfile.mkdtemp(dir=_TMP_ROOT)
        try:
            def ctx():
                st = strax.Context(storage=[strax.DataDirectory(tmp)] if i["storage"] else [], register=[Records, Peaks],
                                   config=dict(bonus_area=1, n_chunks=2, recs_per_chunk=3))
                st.set_context_config({"use_per_run_defaults": False})
                st.log.setLevel(logging.CRITICAL)
                return st
            runs = list(i["run_ids"])
            targets = tuple(i["targets"])
            st = ctx()
            if i["warm"]:
                for r in runs[:1]:
                    st.get_array(r, targets, progress_bar=False)
            res = dict(error=None)
            try:
                got = st.get_array(runs, targets, max_workers=i["workers"], progress_bar=False)
                res["run_id"] = [str(x) for x in got["run_id"]]
                res["rows"] = [tuple(int(v) if np.ndim(v) == 0 else -1 for v in (row["time"], row["area"] if "area" in got.dtype.names else 0,
                                                                              row["channel"] if "channel" in got.dtype.names else 0))
                               for row in got]
            except Exception as ex:  # noqa
                res["error"] = f"{type(ex).__name__}: {str(ex)[:160]}"
            st2 = ctx()
            want_ids, want_rows = [], []
            for r in sorted(runs):
                one = st2.get_array(r, targets, progress_bar=False)
                want_ids += [r] * len(one)
                want_rows += [tuple(int(v) if np.ndim(v) == 0 else -1 for v in (row["time"], row["area"] if "area" in one.dtype.names else 0,
                                                                              row["channel"] if "channel" in one.dtype.names else 0))
                              for row in one]
            res["want_ids"], res["want_rows"] = want_ids, want_rows
            return res
        finally:
            shutil.rmtree(tmp, ignore_errors=True)


def _ctx_ens(S, a, r):
    return [("no error: " + str(r["error"]), r["error"] is None),
            ("the rows of all runs in run-id order with the run id attached", r.get("run_id") == r["want_ids"]),
            ("identical to sequential single-run calls", r.get("rows") == r["want_rows"])]


def _ctx_gen(rng, tier):
    sets = [["2", "0", "1"], ["0", "1", "2", "3", "4", "5", "6", "7"]]
    for runs in sets:
        for workers in ((1, 2, 8) if tier == "thorough" else (1, 4)):
            for targets in (("records",), ("peaks",)):
                for storage in (False, True):
                    for warm in (False, True):
                        if tier == "quick" and (warm != storage):
                            continue
                        yield dict(run_ids=runs, workers=workers, targets=list(targets), storage=storage, warm=warm)


context_multi = Contract(
    "strax/context.py", "Context.get_array (several runs)", params=dict(run_ids="V", workers="int", targets="V", storage="bool", warm="bool"),
    ensures=_ctx_ens, raises={},
    harness=Harness(native=_ctx_native, gen=_ctx_gen,
                    scope="3 and 8 runs, 1..8 worker threads, records / peaks of strax.testutils, with and without a DataDirectory, cold and "
                          "warm plugin cache, under the OS scheduler (no schedule control)",
                    nontrivial=lambda i: i["workers"] > 1))
