"""Inductive lemmas (each proved by its own base / step VCs) and their instantiation helpers."""

import z3

from pyvc.runner import Lemma


def adjacent_sorted(S, at, n):
    return S.forall(0, n - 1, lambda i: at(i) <= at(i + 1))


def pairwise_sorted(S, at, n):
    return S.forall2(0, n, 0, n, lambda i, j: S.Implies(i <= j, at(i) <= at(j)))


def _sorted_lemma(S):
    """adjacent-sorted => pairwise-sorted, by induction on the upper index j."""
    x = z3.Array("lem_x", z3.IntSort(), z3.IntSort())
    n, d = z3.Ints("lem_n lem_d")
    at = lambda i: z3.Select(x, i)
    adj = adjacent_sorted(S, at, n)
    P = lambda j: S.forall(0, j + 1, lambda i: at(i) <= at(j))
    return [("base: j = 0", [adj, n >= 0], P(z3.IntVal(0))),
            ("step: j -> j+1", [adj, n >= 0, d >= 0, d + 1 < n, P(d)], P(d + 1)),
            ("conclusion: P(j) for all j < n is pairwise sortedness", [n >= 0, S.forall(0, n, lambda j: P(j))],
             pairwise_sorted(S, at, n))]


SORTED = Lemma("adjacent-sorted implies pairwise-sorted", _sorted_lemma,
               doc="induction on the upper index; the induction principle itself is the only trusted step")


def sorted_instance(S, at, n):
    return ("adjacent-sorted implies pairwise-sorted",
            S.Implies(adjacent_sorted(S, at, n), pairwise_sorted(S, at, n)))


def adjacent_disjoint(S, start, end, n):
    return S.forall(0, n - 1, lambda i: end(i) <= start(i + 1))


def pairwise_disjoint(S, start, end, n):
    return S.forall2(0, n, 0, n, lambda i, j: S.Implies(i < j, end(i) <= start(j)))


def _disjoint_lemma(S):
    """adjacent-disjoint and non-negative lengths => pairwise-disjoint (induction on the upper index j)."""
    s = z3.Array("lem_s", z3.IntSort(), z3.IntSort())
    e = z3.Array("lem_e", z3.IntSort(), z3.IntSort())
    n, d = z3.Ints("lem_n lem_d")
    st = lambda i: z3.Select(s, i)
    en = lambda i: z3.Select(e, i)
    hyp = [adjacent_disjoint(S, st, en, n), S.forall(0, n, lambda i: en(i) >= st(i)), n >= 0]
    P = lambda j: S.forall(0, j, lambda i: en(i) <= st(j))
    return [("base: j = 0", hyp, P(z3.IntVal(0))),
            ("step: j -> j+1", hyp + [d >= 0, d + 1 < n, P(d)], P(d + 1)),
            ("conclusion: P(j) for all j < n is pairwise disjointness", [n >= 0, S.forall(0, n, lambda j: P(j))],
             pairwise_disjoint(S, st, en, n))]


DISJOINT = Lemma("adjacent-disjoint implies pairwise-disjoint", _disjoint_lemma,
                 doc="links strax's own adjacent overlap check to the pairwise precondition used in the proofs")


def disjoint_instance(S, start, end, n):
    return ("adjacent-disjoint implies pairwise-disjoint",
            S.Implies(S.And(adjacent_disjoint(S, start, end, n), S.forall(0, n, lambda i: end(i) >= start(i))),
                      pairwise_disjoint(S, start, end, n)))
