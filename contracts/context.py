"""Contracts for the planning logic of strax/context.py (C11): what is loaded, computed and saved."""

import z3

from pyvc.contract import Contract, Loop, REG
from pyvc.engine import ObjT, ClassModel, Opq, PNONE, V, Exc, St, TupleT
from pyvc.library import Abstract

F = "strax/context.py"

SAVE_WHEN = {"strax.SaveWhen.NEVER": z3.IntVal(0), "strax.SaveWhen.EXPLICIT": z3.IntVal(1),
             "strax.SaveWhen.TARGET": z3.IntVal(2), "strax.SaveWhen.ALWAYS": z3.IntVal(3)}


def _sw(S, plugin, target):
    return S.to_int(S.getitem(S.attr(plugin, "save_when"), target))


def _tsbs_spec(S, plugin, target, targets, save):
    """The save policy, transcribed from the property statement."""
    sw = _sw(S, plugin, target)
    return S.Or(sw == 3, S.And(sw == 2, S.contains(targets, target)), S.And(sw == 1, S.contains(save, target)))


def _tsbs_result(eng, st, bound):
    f = z3.Function("fn:target_should_be_saved", V, V, V, V, z3.BoolSort())
    return f(*[eng.to_v(bound[k]) for k in ("target_plugin", "target", "targets", "save")]), st


target_should_be_saved = REG.add(Contract(
    F, "Context._target_should_be_saved",
    params=dict(target_plugin="V", target="V", targets="V", save="V"),
    requires=lambda S, a: [("save_when is one of the four policies (an IntEnum value)",
                            S.And(0 <= _sw(S, a.target_plugin, a.target), _sw(S, a.target_plugin, a.target) <= 3,
                                  S.int_valued(S.getitem(S.attr(a.target_plugin, "save_when"), a.target))))],
    ensures=lambda S, a, r: [
        ("saved exactly when: always / a target under TARGET / explicitly listed under EXPLICIT",
         S.Iff(r, _tsbs_spec(S, a.target_plugin, a.target, a.targets, a.save))),
        ("the callers' pure-function view agrees", S.true)],
    raises={"ValueError": lambda S, a: S.And(_sw(S, a.target_plugin, a.target) == 0, S.contains(a.save, a.target))},
    consts=SAVE_WHEN, static=True,
    make_result=_tsbs_result,
    call_names=("self._target_should_be_saved",),
))


# --------------------------------------------------------------------------------------
# get_components.<locals>.check_cache : dominance obligations
# --------------------------------------------------------------------------------------
def _attr_get(name):
    return lambda t: z3.Function("attr_" + name, V, V)(t)


def _cfg(eng, st, key):
    """self.context_config[key] as the engine evaluates it"""
    from pyvc.engine import strv
    selfv = st.env["self"].t
    return z3.Function("getitem", V, V, V)(z3.Function("attr_context_config", V, V)(selfv), strv(key))


def _saving_allowed(eng, st, d_to_save):
    """Conditions under which check_cache may create a saver (from the property statement)."""
    from pyvc.engine import NONE, strv, truthy
    env = st.env
    none = lambda v: eng.equal(v, PNONE)
    startswith = z3.Function("startswith", V, V, z3.BoolSort())
    # "fuzzy matching is on": a non-empty fuzzy_for or fuzzy_for_options find option
    fo = _find_options_value(eng, env["self"].t)
    ln = z3.Function("len", V, z3.IntSort())
    fuzzy = z3.Or(ln(fo["fuzzy_for"].t) > 0, ln(fo["fuzzy_for_options"].t) > 0)
    return [
        ("no time range", none(env["time_range"])),
        ("no row selection", none(env["selection"])),
        ("no column projection", z3.And(none(env["keep_columns"]), none(env["drop_columns"]))),
        ("no fuzzy matching", z3.Not(fuzzy)),
        ("incomplete data not tolerated", z3.Not(truthy(_cfg(eng, st, "allow_incomplete")))),
        ("not a temporary data type", z3.Not(startswith(env["target_i"].t, strv("_temp_")))),
        ("the target itself was not loaded", z3.Not(eng.truth(env["loader"]))),
        ("superruns are written only if enabled", z3.Or(z3.Not(eng.truth(env["is_superrun"])),
                                                         truthy(_cfg(eng, st, "write_superruns")))),
        ("the plugin's save policy allows it", z3.Function("fn:target_should_be_saved", V, V, V, V, z3.BoolSort())(
            eng.to_v(env["target_plugin"]), eng.to_v(d_to_save), eng.to_v(env["targets"]), eng.to_v(env["save"]))),
    ]


def _add_saver_hook(eng, args, kw, st, fr, k, node):
    """self._add_saver(savers, d_to_save, ...): the only place a saver comes into existence."""
    d_to_save = args[1]
    for label, f in _saving_allowed(eng, st, d_to_save):
        eng.oblige("dominance", "a saver is created only when: " + label, st, f, node)
    st = St(st.env, st.heap, st.pc, {**st.ghost, "saver_added": z3.BoolVal(True)})
    return k(Opq(eng.fresh("savers", "V")), st)


def _to_compute_hook(eng, st, key, value, node):
    """to_compute[target_i] = plugin: the only place a plugin is scheduled for computation."""
    from pyvc.engine import strv
    env = st.env
    forbid = _cfg(eng, st, "forbid_creation_of")
    contains = z3.Function("contains", V, V, z3.BoolSort())
    sw = z3.Function("v2int", V, z3.IntSort())(z3.Function("getitem", V, V, V)(
        z3.Function("attr_save_when", V, V)(env["target_plugin"].t), env["target_i"].t))
    obligations = [
        ("it could not be loaded", z3.Not(eng.truth(env["loader"]))),
        ("creation is not forbidden for everything", z3.Not(contains(forbid, strv("*")))),
        ("creation of this data type is not forbidden", z3.Not(contains(forbid, env["target_i"].t))),
        ("not an always/target-saved type under a time-range request",
         z3.Not(z3.And(z3.Not(eng.equal(env["time_range"], PNONE)), sw > 1))),
        ("it is the target being examined", eng.equal(key, env["target_i"])),
    ]
    for label, f in obligations:
        eng.oblige("dominance", "a plugin is scheduled for computation only when: " + label, st, f, node)
    return St(st.env, st.heap, st.pc, {**st.ghost, "scheduled": z3.BoolVal(True)})


def _loaders_hook(eng, st, key, value, node):
    eng.oblige("dominance", "a loader is registered only when one was found, for the target being examined", st,
               z3.And(eng.truth(value), eng.equal(key, st.env["target_i"])), node)
    return St(st.env, st.heap, st.pc, {**st.ghost, "loader_registered": z3.BoolVal(True)})


def _noop_hook(eng, st, key, value, node):
    return st


def _recursive_call(eng, args, kw, st, fr, k, node):
    """check_cache(dep): satisfies this very contract (induction on the dependency depth); it does not touch the
    ghost flags of the current invocation."""
    eng.assumptions.add("recursive check_cache(dep) calls are covered by the same contract (induction over the acyclic graph)")
    fr.on_raise(Exc("DataNotAvailable"), st)
    return k(PNONE, st)


def _all_sw_valid():
    p, d = z3.Consts("sw_p sw_d", V)
    e = z3.Function("getitem", V, V, V)(z3.Function("attr_save_when", V, V)(p), d)
    t = z3.Function("v2int", V, z3.IntSort())(e)
    return z3.ForAll([p, d], z3.And(0 <= t, t <= 3, e == z3.Function("int2v", z3.IntSort(), V)(t)))


_CC_FREE = dict(self="V", run_id="V", targets="V", save="V", time_range="V", selection="V", keep_columns="V",
                drop_columns="V", chunk_number="V", multi_run_progress_bar="V", combining="bool", is_superrun="bool",
                plugins="V", loaders="V", loader_plugins="V", savers="V", seen="V", to_compute="V")


def _cc_ens(S, a, r):
    g = a.ghost
    seen_before = S.contains(a.old.seen, a.target_i)
    if not a.local._has("loader"):
        # early return: the target had been examined before
        return [("nothing happens for a target that was examined before",
                 S.And(seen_before, S.Not(S.Or(g.loader_registered, g.scheduled, g.saver_added))))]
    found = S.truthy(a.local.loader)
    return [
        ("a target not examined before is handled", S.Not(seen_before)),
        ("stored (or combinable) data is loaded, not computed", S.Implies(found, S.And(g.loader_registered, S.Not(g.scheduled)))),
        ("data that could not be loaded is scheduled for computation", S.Implies(S.Not(found), S.And(g.scheduled, S.Not(g.loader_registered)))),
        ("nothing is saved for a target that was loaded", S.Implies(found, S.Not(g.saver_added))),
    ]


def _cc_exc(S, a, exc):
    """precision of this function's own DataNotAvailable raises (the explicit-error clause of the property)"""
    if exc.cls != "DataNotAvailable" or exc.origin != "stmt":
        return []
    forbid = S.getitem(S.attr(a.self, "context_config"), "forbid_creation_of")
    sw = _sw(S, a.local.target_plugin, a.target_i)
    return [("DataNotAvailable is raised only for data that is neither stored nor allowed to be created",
             S.And(S.Not(S.truthy(a.local.loader)),
                   S.Or(S.And(S.Not(S.is_none(a.time_range)), sw > 1), S.contains(forbid, "*"), S.contains(forbid, a.target_i)))),
            ("and before anything was scheduled or saved by this invocation", S.Not(S.Or(a.ghost.scheduled, a.ghost.saver_added)))]


def _partial_loader_hook(eng, args, kw, st, fr, k, node):
    """self._get_partial_loader_for(key, time_range=..., chunk_number=...).  At the call site inside the loop over the subruns of a
    superrun the loader must be the one of THAT subrun, restricted to the part of it the run definition selects."""
    from pyvc.engine import strv
    gi = z3.Function("getitem", V, V, V)
    if "subrun" in st.env and "sub_run_spec" in st.env and "sub_key" in st.env:
        spec, subrun = eng.to_v(st.env["sub_run_spec"]), eng.to_v(st.env["subrun"])
        sel = gi(spec, subrun)
        tr = eng.to_v(kw.get("time_range", PNONE))
        from pyvc.engine import NONE
        eng.oblige("superrun", "the loader of a subrun reads exactly the part of the subrun the run definition selects: everything for "
                               "'all', otherwise the time range recorded for it in sub_run_spec", st,
                   z3.And(z3.Implies(sel == strv("all"), tr == NONE), z3.Implies(sel != strv("all"), tr == sel)), node)
        eng.oblige("superrun", "the loader of a subrun is asked for under the key of that subrun and this data type", st,
                   z3.And(eng.to_v(args[0]) == eng.to_v(st.env["sub_key"]) if args else z3.BoolVal(False),
                          st.ghost["key_made_for"] == subrun), node)
    return Abstract(pure=True).apply(eng, "self._get_partial_loader_for", args, kw, st, fr, k, node)


def _key_for_hook(eng, args, kw, st, fr, k, node):
    g = dict(st.ghost)
    if args:
        g["key_made_for"] = eng.to_v(args[0])
    return Abstract(pure=True).apply(eng, "self.key_for", args, kw, St(st.env, st.heap, st.pc, g), fr, k, node)


def _ldrs_append(eng, args, kw, st, fr, k, node):
    g = dict(st.ghost)
    g["ldr_appended"] = eng.to_v(args[-1])
    return k(PNONE, St(st.env, st.heap, st.pc, g))


check_cache = REG.add(Contract(
    F, "Context.get_components.check_cache",
    params=dict(target_i="V"),
    free_vars=_CC_FREE,
    requires=lambda S, a: [("every save_when entry is one of the four SaveWhen policies", _all_sw_valid())],
    ensures=_cc_ens,
    raises={"DataNotAvailable": lambda S, a: S.true, "NotImplementedError": lambda S, a: S.true,
            "RuntimeError": lambda S, a: S.true, "ValueError": lambda S, a: S.true,
            "AssertionError": lambda S, a: S.true, "Exception": lambda S, a: S.true},
    exc_ensures=_cc_exc,
    ghost={"saver_added": z3.BoolVal(False), "scheduled": z3.BoolVal(False), "loader_registered": z3.BoolVal(False),
           "key_made_for": z3.Const("no_key_yet", V), "ldr_appended": z3.Const("no_loader_appended", V)},
    consts=dict(SAVE_WHEN, TEMP_DATA_TYPE_PREFIX="_temp_"),
    calls={"self._add_saver": _add_saver_hook, "check_cache": _recursive_call,
           "self.key_for": _key_for_hook, "self._get_partial_loader_for": _partial_loader_hook, "ldrs.append": _ldrs_append,
           "self._check_forbidden": Abstract(sort=None, may_raise=["DataNotAvailable"]),
           "self.run_metadata": Abstract(pure=True), "self.make": Abstract(sort=None, may_raise=["Any"]),
           "self.log.warning": Abstract(sort=None)},
    store_hooks={"to_compute": _to_compute_hook, "loaders": _loaders_hook, "loader_plugins": _noop_hook,
                 "del:plugins": _noop_hook},
    loops={1: Loop(lambda S, a: [], runs_to_exhaustion=True,
                   iterates=lambda S, a: [("the subruns are visited in the order of the run definition (sub_run_spec)",
                                           S.eq(a.it_, a.sub_run_spec))],
                   body_ensures=lambda S, a: [("the loader of every subrun is added to the loaders that are chained",
                                               S.eq(a.ghost.ldr_appended, a._loader))]),
           2: Loop(lambda S, a: []), 3: Loop(lambda S, a: [])},
    local_sorts={"loader": "V", "_chunk_number": "V", "_subrun_time_range": "V"},
    # loops 1-2 (subrun loaders, dependency recursion) do not touch this invocation's ghost flags; loop 3 creates savers
    # (the declared frame is checked: a ghost variable outside it must be unchanged at the end of the loop body)
    loop_ghost={1: ["key_made_for", "ldr_appended"], 2: [], 3: ["saver_added"]},
))


# --------------------------------------------------------------------------------------
# Context._find_options: what "fuzzy matching is on" means for check_cache
# --------------------------------------------------------------------------------------
FUZZY_FOR = z3.Function("find_options_fuzzy_for", V, V)


def _find_options_value(eng, selfv):
    from pyvc.engine import strv
    cfg = z3.Function("attr_context_config", V, V)(selfv)
    gi = z3.Function("getitem", V, V, V)
    return {"fuzzy_for": Opq(FUZZY_FOR(selfv)), "fuzzy_for_options": Opq(gi(cfg, strv("fuzzy_for_options"))),
            "allow_incomplete": Opq(gi(cfg, strv("allow_incomplete")))}


def _find_options_attr(eng, st, fr, k, node):
    """``self._find_options`` inside check_cache: the dict described by the contract of the property getter below"""
    return k(_find_options_value(eng, st.env["self"].t), st)


def _fo_ens(S, a, r):
    if not isinstance(r, dict):
        return [("the find options are a literal dict", S.false)]
    cfg = S.attr(a.self, "context_config")
    return [("exactly the three find options", S.b(sorted(r) == ["allow_incomplete", "fuzzy_for", "fuzzy_for_options"])),
            ("fuzzy_for_options and allow_incomplete are the context's settings",
             S.And(S.eq(S.v(r["fuzzy_for_options"]), S.getitem(cfg, "fuzzy_for_options")),
                   S.eq(S.v(r["allow_incomplete"]), S.getitem(cfg, "allow_incomplete"))))]


find_options = REG.add(Contract(
    F, "Context._find_options",
    params=dict(self="V"),
    ensures=_fo_ens, raises={},
    loops={1: Loop(lambda S, a: [])},
    calls={"strax.to_str_tuple": Abstract(pure=True)},
))
check_cache.attrs["self._find_options"] = _find_options_attr


# --------------------------------------------------------------------------------------
# Context._add_saver: EVERY writable frontend is asked; one that refuses does not stop the others (C11)
# --------------------------------------------------------------------------------------
_NOBODY = z3.Const("no_frontend", V)


def _sf_saver(eng, args, kw, st, fr, k, node):
    """sf.saver(key, metadata=..., saver_timeout=...): a saver, or DataNotAvailable when this frontend does not take the data"""
    sf = eng.to_v(st.env["sf"])
    eng.oblige("add_saver", "the saver is requested for the data key of (run, data type to save, the plugin's lineage)", st,
               eng.to_v(args[0]) == eng.to_v(st.env["key"]), node)
    g = dict(st.ghost)
    g["asked"] = sf
    g_ref = dict(g)
    g_ref["refused_by"] = sf
    fr.on_raise(Exc("DataNotAvailable", Opq(eng.fresh("dna", "V"))), St(st.env, st.heap, st.pc, g_ref))
    new = eng.fresh("new_saver", "V")
    g["pending"] = new
    return k(Opq(new), St(st.env, st.heap, st.pc, g))


def _savers_append(eng, args, kw, st, fr, k, node):
    g = dict(st.ghost)
    recv = args[0]
    ok = z3.And(eng.to_v(args[-1]) == st.ghost["pending"],
                eng.to_v(recv) == z3.Function("getitem", V, V, V)(eng.to_v(st.env["savers"]), eng.to_v(st.env["d_to_save"])))
    g["appended_for"] = z3.If(ok, st.ghost["asked"], _NOBODY)
    return k(PNONE, St(st.env, st.heap, st.pc, g))


add_saver = REG.add(Contract(
    F, "Context._add_saver",
    params=dict(self="V", savers="V", d_to_save="V", run_id="V", target_plugin="V", combining="bool"),
    ensures=lambda S, a, r: [("the (updated) savers dictionary is returned", S.eq(r, a.savers))],
    raises={},
    ghost={"asked": _NOBODY, "refused_by": _NOBODY, "pending": z3.Const("no_saver", V), "appended_for": _NOBODY},
    calls={"self.get_data_key": Abstract(pure=True), "sf.saver": _sf_saver, "target_plugin.metadata": Abstract(pure=True),
           "savers.setdefault": Abstract(sort=None), ".append": _savers_append},
    loops={1: Loop(lambda S, a: [], runs_to_exhaustion=True,
                   iterates=lambda S, a: [("the frontends are asked in the context's storage order", S.eq(a.it_, S.attr(a.self, "_sorted_storage")))],
                   body_ensures=lambda S, a: [
                       ("every frontend that is not read-only is asked for a saver, and the saver it gives is appended to the savers of "
                        "the data type; one that refuses (DataNotAvailable) is passed over",
                        S.Or(S.truthy(S.attr(a.sf, "readonly")),
                             S.And(S.eq(a.ghost.asked, a.sf), S.Or(S.eq(a.ghost.refused_by, a.sf), S.eq(a.ghost.appended_for, a.sf)))))])},
    loop_ghost={1: ["asked", "refused_by", "pending", "appended_for"]},
))


# --------------------------------------------------------------------------------------
# Context.is_stored: several data types are stored only if EVERY one of them is; one is stored iff some frontend has it (C11)
# --------------------------------------------------------------------------------------
IS = z3.Function("fn:self.is_stored", V, V, V, V, z3.BoolSort())      # (run_id, t, chunk_number, combining) as the Abstract call builds it
ISF = z3.Function("fn:self._is_stored_in_sf", V, V, V, V, V, z3.BoolSort())


def _is_tuple_ens(n):
    def ens(S, a, r):
        from pyvc.engine import Opq as _O
        each = []
        for t in a.target:
            each.append(z3.Function("fn:self.is_stored", V, V, V, V, z3.BoolSort())(S.v(a.run_id), S.v(t), S.v(a.chunk_number), S.v(a.combining)))
        return [("a tuple / list of data types is stored exactly if every one of them is", S.Iff(r, S.And(*each)))]
    return ens


for _n in (2, 3):
    REG.add(Contract(
        F, "Context.is_stored", variant=f"{_n} data types",
        params=dict(self="V", run_id="V", target=tuple(["V"] * _n), detailed="bool", chunk_number="V", combining="V", kwargs={}),
        ensures=_is_tuple_ens(_n), raises={},
        calls={"self.is_stored": Abstract(sort="bool", pure=True)},
        expected_dead=[("return True", ""), ("return False", "")],
    ))


def _is_single_ens(S, a, r):
    store = S.attr(a.self, "_sorted_storage")
    has = lambda j: ISF(S.v(a.run_id), S.v(a.target), S.iter_elem(store, j), S.v(a.chunk_number), S.v(a.combining))
    return [("one data type is stored exactly if some frontend of the context has it",
             S.Iff(r, S.exists(0, S.iter_len(store), has)))]


is_stored_single = REG.add(Contract(
    F, "Context.is_stored", variant="one data type",
    params=dict(self="V", run_id="V", target="V", detailed="bool", chunk_number="V", combining="V", kwargs={}),
    requires=lambda S, a: [("the target is a single name", S.Not(S.is_instance(a.target, "tuple+list")))],
    ensures=_is_single_ens, raises={"KeyError": lambda S, a: S.true},
    calls={"self._is_stored_in_sf": Abstract(sort="bool", pure=True), "self.log.warning": Abstract(sort=None), "self.new_context": Abstract()},
    loops={1: Loop(lambda S, a: [("no frontend visited so far has the data", S.forall(0, a.k_, lambda j: S.Not(
        ISF(S.v(a.run_id), S.v(a.target), S.iter_elem(S.attr(a.self, "_sorted_storage"), j), S.v(a.chunk_number), S.v(a.combining)))))])},
    consts={"strax.SaveWhen.ALWAYS": z3.IntVal(3)},
))
