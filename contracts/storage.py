"""Contracts for strax/storage/common.py and files.py (C03 round trip bookkeeping, C04 failure handling)."""

import z3

from pyvc.contract import Contract, Loop, REG
from pyvc.engine import ObjT, ClassModel, Opq, PNONE, V, Exc, St, NONE, int2v, v2int, TupleT, ListT
from pyvc.library import Abstract
from pyvc.generators import IterT
from contracts.chunk import CHUNK, CHUNK_MODEL, INTERVALS

FC = "strax/storage/common.py"
FF = "strax/storage/files.py"

NBYTES = z3.Function("fn:nbytes", V, V)


# chunks as seen by the saver: the Chunk model plus nbytes
def _nbytes_prop(eng, ref, st, fr, k, node):
    data = st.heap[ref.base]["data"]
    return k(Opq(NBYTES(z3.Const("arr:" + data.base, V))), st)


SAVER_CHUNK_MODEL = ClassModel(props={**CHUNK_MODEL.props, "nbytes": _nbytes_prop}, methods=CHUNK_MODEL.methods,
                               len_handler=CHUNK_MODEL.len_handler)
SAVER_CHUNK = ObjT("Chunk", model=SAVER_CHUNK_MODEL, **{k_: v_ for k_, v_ in CHUNK.attrs.items()})


# --------------------------------------------------------------------------------------
# Saver.save
# --------------------------------------------------------------------------------------
def _save_chunk_hook(eng, args, kw, st, fr, k, node):
    """self._save_chunk(data, chunk_info, executor=...): the backend writes the rows (may fail)."""
    g = dict(st.ghost)
    g["files_written"] = g["files_written"] + 1
    g["py:written_data"] = args[1]
    g["py:executor_used"] = kw.get("executor", PNONE)
    s2 = St(st.env, st.heap, st.pc, g)
    fr.on_raise(Exc("Any", Opq(eng.fresh("io_error", "V"))), st)
    fut = Opq(eng.fresh("future", "V"))
    g2 = dict(s2.ghost)
    g2["py:future"] = fut
    return k(({"filename": Opq(eng.fresh("filename", "V"))}, fut), St(s2.env, s2.heap, s2.pc, g2))


def _save_md_hook(eng, args, kw, st, fr, k, node):
    """self._save_chunk_metadata(chunk_info): the per-chunk metadata record (may fail)."""
    info = args[1]
    if not isinstance(info, dict):
        raise __import__("pyvc.engine", fromlist=["Unsupported"]).Unsupported("chunk_info is not a literal dict")
    g = dict(st.ghost)
    g["md_records"] = g["md_records"] + 1
    g["py:chunk_info"] = info
    fr.on_raise(Exc("Any", Opq(eng.fresh("io_error", "V"))), st)
    return k(PNONE, St(st.env, st.heap, st.pc, g))


SAVER_MODEL = ClassModel(methods={"_save_chunk": _save_chunk_hook, "_save_chunk_metadata": _save_md_hook})
SAVER = ObjT("Saver", model=SAVER_MODEL, closed="bool", is_forked="bool", md="V", timeout="V", got_exception="V")


def _save_ens(S, a, r):
    g = a.ghost
    c = a.chunk
    d = c.data
    info = a.pyghost.get("py:chunk_info")
    n = d.n
    out = [("exactly one metadata record is written per chunk", g.md_records == 1),
           ("a file is written exactly for a non-empty chunk", g.files_written == S.If(n > 0, 1, 0))]
    if info is None:
        return out + [("the metadata record exists", S.false)]
    eng = S.eng
    same = lambda key, want: eng.equal(info[key], want) if key in info else z3.BoolVal(False)
    out += [
        ("the record carries the chunk's number, row count, range, run id, subruns and byte size",
         S.And(same("chunk_i", a.chunk_i), same("n", n), same("start", c.start), same("end", c.end),
               eng.equal(info["run_id"], Opq(c.run_id)) if "run_id" in info else False,
               eng.equal(info["subruns"], Opq(c._subruns)) if "subruns" in info else False,
               eng.equal(info["nbytes"], Opq(NBYTES(z3.Const("arr:" + d.base, V)))) if "nbytes" in info else False)),
        ("for time-stamped, non-empty data the record carries the first and last row's time and endtime",
         S.Implies(S.And(n > 0, z3.Function("contains", V, V, z3.BoolSort())(
             z3.Function("attr_names", V, V)(c.dtype), __import__("pyvc.engine", fromlist=["strv"]).strv("time"))),
             S.And(same("first_time", d.f("time", 0)), same("first_endtime", d.f("endtime", 0)),
                   same("last_time", d.f("time", n - 1)), same("last_endtime", d.f("endtime", n - 1)))
             if all(k_ in info for k_ in ("first_time", "first_endtime", "last_time", "last_endtime")) else S.false)),
    ]
    wd = a.pyghost.get("py:written_data")
    if wd is not None:
        out.append(("the rows handed to the backend are the chunk's rows", z3.BoolVal(wd.base == d.base)
                    if hasattr(wd, "base") else S.false))
        ex = a.pyghost.get("py:executor_used")
        out.append(("a forked saver writes synchronously, otherwise the given executor is used",
                    S.If(a.self.is_forked, eng.equal(ex, PNONE), eng.equal(ex, Opq(a.executor)))))
        out.append(("the backend's future is returned", eng.equal(Opq(r) if not isinstance(r, Opq) and r is not PNONE else r,
                                                                a.pyghost.get("py:future"))))
    else:
        out.append(("no future for an empty chunk", z3.BoolVal(r is PNONE)))
    return out


saver_save = REG.add(Contract(
    FC, "Saver.save",
    params=dict(self=SAVER, chunk=SAVER_CHUNK, chunk_i="int", executor="V"),
    ensures=_save_ens,
    raises={"RuntimeError": lambda S, a: a.self.closed, "Any": lambda S, a: S.true},
    exc_ensures=lambda S, a, exc: [("RuntimeError exactly for a closed saver, before anything is written",
                                    S.Implies(z3.BoolVal(exc.cls == "RuntimeError"),
                                              S.And(a.self.closed, a.ghost.files_written == 0, a.ghost.md_records == 0)))],
    ghost={"files_written": z3.IntVal(0), "md_records": z3.IntVal(0)},
    calls={},
))


# --------------------------------------------------------------------------------------
# Saver.close
# --------------------------------------------------------------------------------------
FORMATTED_EXC = z3.Const("fn:strax.formatted_exception()", V)


def _md_spec(eng, name, st):
    return {"chunks": Opq(z3.Const(name + ".chunks", V)), "run_id": Opq(z3.Const(name + ".run_id", V))}, st


def _close_backend_hook(eng, args, kw, st, fr, k, node):
    """self._close(): the backend finalises the data (e.g. the rename that makes it visible); may fail"""
    g = dict(st.ghost)
    g["backend_closed"] = g["backend_closed"] + 1
    self_ref = args[0]
    cell = st.heap[self_ref.base]
    g["py:md_at_close"] = cell["md"]
    g["closed_flag_at_backend_close"] = cell["closed"]
    s2 = St(st.env, st.heap, st.pc, g)
    fr.on_raise(Exc("Any", Opq(eng.fresh("io_error", "V"))), s2)
    return k(PNONE, s2)


CONTAINS = z3.Function("contains", V, V, z3.BoolSort())
ITER_ELEM = z3.Function("iter_elem", V, z3.IntSort(), V)
LEN = z3.Function("len", V, z3.IntSort())


def _wait_hook(eng, args, kw, st, fr, k, node):
    """concurrent.futures.wait(fs, timeout) -> (done, not_done): a partition of fs (library contract)"""
    g = dict(st.ghost)
    fs = eng.to_v(args[0])
    g["waited_for"] = fs
    done, not_done = eng.fresh("done", "V"), eng.fresh("not_done", "V")
    g["py:not_done"] = Opq(not_done)
    g["done_set"] = done
    x, j = z3.Const("wq_x", V), z3.Int("wq_j")
    fact = z3.Implies(LEN(not_done) == 0, z3.ForAll([x], z3.Implies(
        CONTAINS(fs, x), z3.Exists([j], z3.And(0 <= j, j < LEN(done), ITER_ELEM(done, j) == x)))))
    eng.assumptions.add("library contract: concurrent.futures.wait(fs) returns a partition (done, not_done) of fs")
    return k((Opq(done), Opq(not_done)), St(st.env, st.heap, st.pc + [fact, LEN(done) >= 0, LEN(not_done) >= 0], g))


def _close_result_hook(eng, args, kw, st, fr, k, node):
    """f.result() on a finished write future: re-raises its exception; afterwards the future counts as checked"""
    f = st.env["f"].t
    g = dict(st.ghost)
    g["Checked"] = z3.Store(g["Checked"], f, True)
    s2 = St(st.env, st.heap, st.pc, g)
    fr.on_raise(Exc("Any", Opq(eng.fresh("write_exc", "V"))), St(st.env, st.heap, st.pc, {**g, "write_failed": z3.BoolVal(True)}))
    return k(Opq(eng.fresh("written", "V")), s2)


CLOSER_MODEL = ClassModel(methods={"_close": _close_backend_hook})
CLOSER = ObjT("Saver", model=CLOSER_MODEL, closed="bool", is_forked="bool", md=_md_spec, timeout="V", got_exception="V")


def _close_ens(S, a, r):
    eng = S.eng
    md = a.pyghost.get("py:md_at_close")
    _x = z3.Const("cq_x", V)
    out = [("the saver is closed", a.self.closed),
           ("the backend is finalised exactly once, after the closed flag is set", S.And(a.ghost.backend_closed == 1,
                                                                                        a.ghost.closed_flag_at_backend_close)),
           ]
    if md is None:
        return out + [("metadata reaches the backend", S.false)]
    gi = z3.Function("getitem", V, V, V)
    chunks = md["chunks"].t
    first = gi(chunks, int2v(z3.IntVal(0)))
    last = gi(chunks, int2v(z3.IntVal(-1)))
    from pyvc.engine import strv, truthy
    out += [
        ("the completion marker is written", z3.BoolVal("writing_ended" in md)),
        ("an exception being handled is recorded in the metadata - and only then",
         z3.BoolVal("exception" in md) == truthy(FORMATTED_EXC) if True else None),
        ("overall start / end are those of the first / last chunk",
         S.Implies(truthy(chunks), S.And(
             eng.equal(md.get("start", PNONE), Opq(gi(first, strv("start")))),
             eng.equal(md.get("end", PNONE), Opq(gi(last, strv("end"))))))),
    ]
    return out


def _close_exc(S, a, exc):
    from pyvc.engine import truthy
    if exc.cls == "Any" and a.ghost._has("write_failed"):
        pass
    if exc.cls == "RuntimeError" and exc.origin == "stmt":
        nd = a.pyghost.get("py:not_done")
        ln = z3.Function("len", V, z3.IntSort())
        return [("RuntimeError only for a second close or for writes that did not finish in time; nothing is finalised then",
                 S.And(S.Or(a.old.self.closed, z3.BoolVal(nd is not None) if nd is None else ln(nd.t) != 0),
                       a.ghost.backend_closed == 0))]
    return []


saver_close = REG.add(Contract(
    FC, "Saver.close",
    params=dict(self=CLOSER, wait_for="V"),
    ensures=_close_ens,
    raises={"RuntimeError": lambda S, a: S.true, "Any": lambda S, a: S.true},
    exc_ensures=_close_exc,
    ghost={"backend_closed": z3.IntVal(0), "waited_for": NONE, "closed_flag_at_backend_close": z3.BoolVal(False),
           "Checked": z3.K(V, False), "done_set": NONE, "write_failed": z3.BoolVal(False)},
    calls={"f.result": _close_result_hook, "wait": _wait_hook, "strax.formatted_exception": lambda eng, a_, kw, st, fr, k, node: k(Opq(FORMATTED_EXC), st),
           "time.time": Abstract(sort="V")},
))


# --------------------------------------------------------------------------------------
# Saver.save_from: the consumer thread of a saver
# --------------------------------------------------------------------------------------
def _sf_next(eng, args, kw, st, fr, k, node):
    """next(source): the next chunk from the mailbox reader; it may end, be killed, or fail"""
    it = args[0]
    cell = st.heap[it.base]
    pos, n = cell["pos"], cell["n"]
    fr.on_raise(Exc("StopIteration"), st.assume(pos >= n))
    fr.on_raise(Exc("MailboxKilled", Opq(eng.fresh("kill_reason", "V"))),
                St(st.env, st.heap, st.pc, {**st.ghost, "saw_kill": z3.BoolVal(True)}))
    fr.on_raise(Exc("Any", Opq(eng.fresh("source_exc", "V")), excluding=("StopIteration", "MailboxKilled")), st)
    s1 = st.assume(pos < n).with_cell(it.base, "pos", pos + 1)
    return k(Opq(z3.Select(cell["seq"], pos)), s1)


_f, _i = z3.Const("fq_f", V), z3.Int("fq_i")
DONE_M = z3.Function("method:done", V, V)


def fut_done(f):
    from pyvc.engine import truthy
    return truthy(DONE_M(f))


def _in_list(lv, f):
    return z3.Exists([_i], z3.And(0 <= _i, _i < lv.n, lv.at(_i) == f))


def _sf_save(eng, args, kw, st, fr, k, node):
    """self.save(chunk=..., chunk_i=..., executor=...): returns the write future, or None for an empty chunk"""
    g = dict(st.ghost)
    eng.oblige("bookkeeping", "chunks are saved under consecutive numbers 0, 1, 2, ...", st,
               eng.to_int(kw["chunk_i"]) == g["n_saved"], node)
    eng.oblige("bookkeeping", "nothing is saved after the saver was closed", st, g["close_calls"] == 0, node)
    g["n_saved"] = g["n_saved"] + 1
    s2 = St(st.env, st.heap, st.pc, g)
    fr.on_raise(Exc("Any", Opq(eng.fresh("save_exc", "V")), excluding=("StopIteration", "MailboxKilled")), s2)
    k(PNONE, s2)                                   # empty chunk: no file, no future
    fut = eng.fresh("future", "V")
    g2 = dict(g)
    s3 = St(st.env, st.heap, st.pc + [fut != NONE, z3.Not(z3.Select(g["Submitted"], fut))], g2)
    g2["Submitted"] = z3.Store(g["Submitted"], fut, True)
    return k(Opq(fut), s3)


def _sf_result(eng, args, kw, st, fr, k, node):
    """f.result(): re-raises the exception of a failed write; the future counts as checked afterwards"""
    f = st.env["f"].t
    g = dict(st.ghost)
    g["Checked"] = z3.Store(g["Checked"], f, True)
    s2 = St(st.env, st.heap, st.pc, g)
    fr.on_raise(Exc("Any", Opq(eng.fresh("write_exc", "V")), excluding=("StopIteration", "MailboxKilled")), s2)
    # result() returns only once the future has finished
    return k(Opq(eng.fresh("written", "V")), s2.assume(fut_done(f)))


def _sf_close(eng, args, kw, st, fr, k, node):
    """self.close(wait_for=pending): waits for the given write futures, checks them (contract of Saver.close),
    then finalises the metadata"""
    self_ref = st.env["self"]
    g = dict(st.ghost)
    wf = kw.get("wait_for")
    failing = st.ghost.get("#propagating") is not None or st.ghost.get("#handling") is not None
    if isinstance(wf, __import__("pyvc.engine", fromlist=["Ref"]).Ref):
        lv = eng.resolve(wf, st.heap)
        if not failing:      # while an exception is handled, close() records it and the data never becomes valid
                eng.oblige("durability", "the data is finalised only after every chunk write has finished: each submitted write is "
                                     "done already or is among the futures close() waits for", st,
                       z3.ForAll([_f], z3.Implies(z3.Select(g["Submitted"], _f), z3.Or(fut_done(_f), _in_list(lv, _f)))), node)
        if CLOSE_CHECKS_RESULTS[0]:
            # Saver.close re-raises the exception of a failed write among the futures it waited for
            new_checked = eng.fresh("Checked", g["Checked"].sort())
            st = st.assume(z3.ForAll([_f], z3.Select(new_checked, _f) == z3.Or(z3.Select(g["Checked"], _f), _in_list(lv, _f))))
            g["Checked"] = new_checked
    g["close_calls"] = g["close_calls"] + 1
    s2 = St(st.env, st.heap, st.pc, g).with_cell(self_ref.base, "closed", z3.BoolVal(True))
    # close may fail (unfinished writes, backend error) - the flag may or may not have been set then
    s_fail = St(st.env, st.heap, st.pc, g).with_cell(self_ref.base, "closed", eng.fresh("closed_after_failed_close", "bool"))
    fr.on_raise(Exc("Any", Opq(eng.fresh("close_exc", "V"))), s_fail)
    return k(PNONE, s2)


def _sf_throw(eng, args, kw, st, fr, k, node):
    g = dict(st.ghost)
    e = args[0]
    self_cell = st.heap[st.env["self"].base]
    eng.oblige("relay", "the failure is recorded in got_exception before it is thrown back into the source "
                        "(the processor re-raises it from there at the end)", st,
               eng.equal(self_cell["got_exception"], Opq(eng.to_v(e))), node)
    g["thrown"] = eng.to_v(e.payload) if isinstance(e, Exc) and e.payload is not None else z3.Const("exc", V)
    g["throw_calls"] = g["throw_calls"] + 1
    s2 = St(st.env, st.heap, st.pc, g)
    fr.on_raise(Exc("Any", Opq(eng.fresh("throw_exc", "V"))), s2)
    return k(PNONE, s2)


def _sf_rechunker(eng, args, kw, st, fr, k, node):
    return k(Opq(z3.Const("rechunker", V)), st)


def _sf_receive(eng, args, kw, st, fr, k, node):
    """rechunker.receive(chunk) / flush(): a list of chunks to write (contract of the Rechunker, C07)"""
    fr.on_raise(Exc("Any", Opq(eng.fresh("rechunk_exc", "V")), excluding=("StopIteration", "MailboxKilled")), st)
    return k(Opq(eng.fresh("chunks_out", "V")), st)


SF_SAVER = ObjT("Saver", closed="bool", is_forked="bool", md=_md_spec, timeout="V", got_exception="V", allow_rechunk="bool")


CLOSE_CHECKS_RESULTS = [False]   # Saver.close only waits; save_from itself checks every write before a normal close


def _sf_ens(S, a, r):
    g = a.ghost
    return [("the saver has been closed exactly once", S.And(g.close_calls == 1, a.self.closed)),
            ("a save that failed is never reported as a success: every chunk write that was submitted has been checked for an "
             "exception before save_from returns normally",
             S.Or(g.saw_kill, z3.ForAll([_f], z3.Implies(z3.Select(g.Submitted, _f), z3.Select(g.Checked, _f))))),
            ("a normal return means the source ended or the mailbox was killed - never a swallowed failure",
             S.Or(a.source.pos == a.source.n, g.saw_kill))]


def _sf_exc(S, a, exc):
    g = a.ghost
    return [("on failure closing is still attempted, so the failure gets recorded and the data does not become visible as valid",
             g.close_calls >= 1),
            ("the failure is remembered and thrown back into the source before it is re-raised "
             "(unless closing itself failed)", S.Or(g.throw_calls >= 1, g.close_calls >= 1)),
            ("whatever exception leaves save_from is on record in got_exception - ALSO when it is the final close that failed (the last "
             "metadata write, the rename): the saver runs in a thread of its own, and the processor's final check of got_exception is the "
             "only way that failure reaches the caller (after a kill of the mailbox the caller already gets the kill's reason)",
             S.Or(g.saw_kill, S.Not(S.is_none(a.self.got_exception))))]


def _sf_inv(S, a):
    g = a.ghost
    return [("still open, nothing failed yet", S.And(g.close_calls == 0, S.Not(a.self.closed), g.throw_calls == 0,
                                                     a.chunk_i == g.n_saved, S.Not(g.saw_kill))),
            ("exhausted only when the source has ended", S.Implies(a.exhausted, a.source.pos == a.source.n)),
            ("every submitted write has finished or is still tracked in pending",
             z3.ForAll([_f], z3.Implies(z3.Select(g.Submitted, _f), z3.Or(fut_done(_f), _in_list(a.pending, _f))))),
            ("every submitted write has been checked for an exception or is still tracked in pending",
             z3.ForAll([_f], z3.Implies(z3.Select(g.Submitted, _f), z3.Or(z3.Select(g.Checked, _f), _in_list(a.pending, _f))))),
            ("only submitted writes are tracked; None is never a write future",
             S.And(S.forall(0, a.pending.n, lambda i: z3.Select(g.Submitted, a.pending.at(i))), z3.Not(z3.Select(g.Submitted, NONE))))]


def _sf_inv3(S, a):
    """(after the fix for F3) the loop that checks finished futures, between save() and the update of pending"""
    g = a.ghost
    nf = a.new_f
    return [("still open, nothing failed yet; the chunk just saved is not counted in chunk_i yet",
             S.And(g.close_calls == 0, S.Not(a.self.closed), g.throw_calls == 0, a.chunk_i == g.n_saved - 1, S.Not(g.saw_kill))),
            ("exhausted only when the source has ended", S.Implies(a.exhausted, a.source.pos == a.source.n)),
            ("every submitted write is the new one, has finished, or is tracked in pending",
             z3.ForAll([_f], z3.Implies(z3.Select(g.Submitted, _f), z3.Or(_f == nf, fut_done(_f), _in_list(a.pending, _f))))),
            ("every submitted write is the new one, has been checked, or is tracked in pending",
             z3.ForAll([_f], z3.Implies(z3.Select(g.Submitted, _f), z3.Or(_f == nf, z3.Select(g.Checked, _f), _in_list(a.pending, _f))))),
            ("only submitted writes are tracked; the new future (if any) is a submitted one",
             S.And(S.forall(0, a.pending.n, lambda i: z3.Select(g.Submitted, a.pending.at(i))),
                   z3.Or(nf == NONE, z3.Select(g.Submitted, nf)), z3.Not(z3.Select(g.Submitted, NONE)))),
            ("finished futures visited so far have been checked",
             S.forall(0, a.k_, lambda i: S.Implies(fut_done(a.pending.at(i)), z3.Select(g.Checked, a.pending.at(i)))))]


def _sf_inv4(S, a):
    """(after the fix for F3) final loop: wait for the remaining writes and check each of them"""
    g = a.ghost
    return [("still open, nothing failed; the source has ended", S.And(g.close_calls == 0, S.Not(a.self.closed), g.throw_calls == 0,
                                                                       S.Not(g.saw_kill), a.source.pos == a.source.n)),
            ("every submitted write has been checked or is still tracked in pending",
             z3.ForAll([_f], z3.Implies(z3.Select(g.Submitted, _f), z3.Or(z3.Select(g.Checked, _f), _in_list(a.pending, _f))))),
            ("every submitted write has finished or is still tracked in pending",
             z3.ForAll([_f], z3.Implies(z3.Select(g.Submitted, _f), z3.Or(fut_done(_f), _in_list(a.pending, _f))))),
            ("the tracked writes visited so far have been waited for and checked",
             S.forall(0, a.k_, lambda i: S.And(z3.Select(g.Checked, a.pending.at(i)), fut_done(a.pending.at(i)))))]


save_from = REG.add(Contract(
    FC, "Saver.save_from",
    params=dict(self=SF_SAVER, source=IterT(), rechunk="bool", executor="V"),
    requires=lambda S, a: [("the saver is open and has no failure on record", S.And(S.Not(a.self.closed), S.is_none(a.self.got_exception)))],
    ensures=_sf_ens,
    raises={"Any": lambda S, a: S.true},
    exc_ensures=_sf_exc,
    ghost={"n_saved": z3.IntVal(0), "close_calls": z3.IntVal(0), "throw_calls": z3.IntVal(0), "thrown": NONE,
           "saw_kill": z3.BoolVal(False), "Submitted": z3.K(V, False), "Checked": z3.K(V, False)},
    loops={1: Loop(_sf_inv), 2: Loop(_sf_inv), 3: Loop(_sf_inv3), 4: Loop(_sf_inv4)},
    calls={"next": _sf_next, "self.save": _sf_save, "self.close": _sf_close, "source.throw": _sf_throw,
           "strax.Rechunker": _sf_rechunker, "rechunker.receive": _sf_receive, "rechunker.flush": _sf_receive,
           "f.result": _sf_result},
    local_sorts={"pending": ListT("V"), "chunks": "V", "new_f": "V"},
))


# --------------------------------------------------------------------------------------
# StorageFrontend: which data a frontend takes / provides, and the broken-data check of find()
# --------------------------------------------------------------------------------------
from pyvc.engine import strv, truthy  # noqa: E402

STARTSWITH = z3.Function("startswith", V, V, z3.BoolSort())
ATTR = lambda name: z3.Function("attr_" + name, V, V)


def we_take_spec(o, dt):
    """accepted unless excluded, or a non-empty take_only list does not name it"""
    return z3.And(z3.Not(CONTAINS(o.exclude, dt)), z3.Or(z3.Not(truthy(o.take_only)), CONTAINS(o.take_only, dt)))


def superrun_spec(o, run_id):
    return z3.Or(z3.Not(STARTSWITH(run_id, strv("_"))), truthy(o.provide_superruns))


FRONTEND_MODEL = ClassModel(methods={})
FRONTEND = ObjT("StorageFrontend", model=FRONTEND_MODEL, readonly="bool", exclude="V", take_only="V", provide_superruns="V",
                overwrite="V", backends="V")

we_take = REG.add(Contract(
    FC, "StorageFrontend._we_take",
    params=dict(self=FRONTEND, data_type="V"),
    ensures=lambda S, a, r: [("a data type is taken unless it is excluded or a non-empty take_only list does not name it",
                              S.Iff(S.truthy(r) if not z3.is_bool(r) else r, we_take_spec(a.self, a.data_type)))],
    raises={}, returns="bool",
    make_result=lambda eng, st, bound: (we_take_spec(eng.resolve(bound["self"], st.heap), eng.to_v(bound["data_type"])), st),
))

support_superruns = REG.add(Contract(
    FC, "StorageFrontend._support_superruns",
    params=dict(self=FRONTEND, run_id="V"),
    ensures=lambda S, a, r: [("superruns only from frontends that provide them",
                              S.Iff(S.truthy(r), superrun_spec(a.self, a.run_id)))],
    raises={},
    make_result=lambda eng, st, bound: (Opq(z3.Function("bool2v", z3.BoolSort(), V)(
        superrun_spec(eng.resolve(bound["self"], st.heap), eng.to_v(bound["run_id"])))), st),
))
FRONTEND_MODEL.methods["_we_take"] = we_take
FRONTEND_MODEL.methods["_support_superruns"] = support_superruns


def _backend_find(eng, args, kw, st, fr, k, node):
    """self._find(...): the backend-specific lookup (exact or fuzzy lineage match); DataNotAvailable if nothing matches"""
    fr.on_raise(Exc("DataNotAvailable"), st)
    g = dict(st.ghost)
    g["found"] = z3.BoolVal(True)
    return k((Opq(eng.fresh("backend_name", "V")), Opq(eng.fresh("backend_key", "V"))), St(st.env, st.heap, st.pc, g))


META = z3.Const("stored_metadata", V)


def _get_backend(eng, args, kw, st, fr, k, node):
    return k(Opq(z3.Const("backend", V)), st)


def _get_metadata(eng, args, kw, st, fr, k, node):
    return k(Opq(META), st)


def _find_ens(S, a, r):
    o = a.self
    dt, rid = ATTR("data_type")(a.key), ATTR("run_id")(a.key)
    complete = z3.And(z3.Not(CONTAINS(META, strv("exception"))),
                      z3.Or(CONTAINS(META, strv("writing_ended")), truthy(a.allow_incomplete) if not z3.is_bool(a.allow_incomplete) else a.allow_incomplete))
    return [("only data types the frontend takes, and superruns only if it provides them",
             S.And(we_take_spec(o, dt), superrun_spec(o, rid))),
            ("a readonly frontend never hands out a location to write to", S.Implies(a.write, S.Not(o.readonly))),
            ("data found for reading with the broken-data check on was written completely and without an exception",
             S.Implies(S.And(S.Not(a.write), a.check_broken), complete))]


frontend_find = REG.add(Contract(
    FC, "StorageFrontend.find",
    params=dict(self=FRONTEND, key="V", write="bool", check_broken="bool", allow_incomplete="bool", fuzzy_for="V",
                fuzzy_for_options="V"),
    ensures=_find_ens,
    raises={"DataNotAvailable": lambda S, a: S.true, "DataExistsError": lambda S, a: a.write},
    ghost={"found": z3.BoolVal(False)},
    calls={"self._find": _backend_find, "self._get_backend": _get_backend, "self.find": None},
))
frontend_find.calls["self.find"] = Contract(
    FC, "StorageFrontend.find", variant="callers-view",
    params=frontend_find.params, raises={"DataNotAvailable": lambda S, a: S.true}, returns="V")
frontend_find.calls[".get_metadata"] = _get_metadata


can_overwrite = REG.add(Contract(
    FC, "StorageFrontend._can_overwrite",
    params=dict(self=FRONTEND, key="V"),
    ensures=lambda S, a, r: [("overwriting 'if_broken' is allowed exactly for data that is not valid",
                              S.Implies(S.And(S.Not(S.eq_str(a.self.overwrite, "always")), S.eq_str(a.self.overwrite, "if_broken")),
                                        S.Iff(r if z3.is_bool(r) else S.truthy(r),
                                              S.Not(S.And(CONTAINS(META, strv("writing_ended")), S.Not(CONTAINS(META, strv("exception")))))))),
                             ("'always' always, anything else never",
                              S.And(S.Implies(S.eq_str(a.self.overwrite, "always"), r if z3.is_bool(r) else S.truthy(r)),
                                    S.Implies(S.Not(S.Or(S.eq_str(a.self.overwrite, "always"), S.eq_str(a.self.overwrite, "if_broken"))),
                                              S.Not(r if z3.is_bool(r) else S.truthy(r)))))],
    raises={},
    calls={"self.get_metadata": _get_metadata},
))


# --------------------------------------------------------------------------------------
# DataDirectory.write_run_metadata: the order of a run document's entries survives (C14: sub_run_spec is ordered by start)
# --------------------------------------------------------------------------------------
from pyvc.library import plain_with  # noqa: E402


def _json_dumps(eng, args, kw, st, fr, k, node):
    sk = kw.get("sort_keys", z3.BoolVal(False))
    eng.oblige("order", "run metadata is written without re-ordering its entries (sub_run_spec lists the subruns by start time)",
               st, z3.Not(eng.truth(sk)), node)
    g = dict(st.ghost)
    g["dumped"] = eng.to_v(args[0])
    return k(Opq(eng.fresh("json_text", "V")), St(st.env, st.heap, st.pc, g))


def _f_write(eng, args, kw, st, fr, k, node):
    g = dict(st.ghost)
    g["written"] = z3.BoolVal(True)
    return k(PNONE, St(st.env, st.heap, st.pc, g))


write_run_metadata = REG.add(Contract(
    "strax/storage/files.py", "DataDirectory.write_run_metadata",
    params=dict(self="V", run_id="V", metadata="V"),
    ensures=lambda S, a, r: [("the document handed in is the one that is serialised and written",
                              S.And(a.ghost.written, S.eq(a.ghost.dumped, a.metadata)))],
    raises={},
    ghost={"dumped": z3.Const("nothing_dumped", V), "written": z3.BoolVal(False)},
    calls={"json.dumps": _json_dumps, "f.write": _f_write, "open": Abstract(), "self._run_meta_path": Abstract(pure=True)},
    store_hooks={"metadata": lambda eng, st, key, value, node: st},
    with_handler=plain_with,
))


# --------------------------------------------------------------------------------------
# StorageBackend._read_and_format_chunk: what a loaded chunk is made of (C16 / C03)
# --------------------------------------------------------------------------------------
from pyvc.engine import RowsT, strv  # noqa: E402
from pyvc.contract import make_symbolic  # noqa: E402


def _read_chunk_hook(eng, args, kw, st, fr, k, node):
    """self._read_chunk(...): the backend's raw rows (any number of them; may fail)"""
    fr.on_raise(Exc("Any", Opq(eng.fresh("read_exc", "V"))), st)
    arr, st = make_symbolic(eng, eng.new_base("read_rows"), RowsT(time="int", endtime="int"), st, set())
    g = dict(st.ghost)
    g["py:read"] = arr
    g["read_with_info"] = eng.to_v(kw.get("chunk_info", PNONE))
    return k(arr, St(st.env, st.heap, st.pc, g))


def _chunk_ctor_hook(eng, args, kw, st, fr, k, node):
    info = st.env["chunk_info"].t
    gi = z3.Function("getitem", V, V, V)
    data = kw.get("data")
    n_info = z3.Function("v2int", V, z3.IntSort())(gi(info, strv("n")))
    eng.oblige("loaded-chunk", "a chunk is built only from data whose row count equals the count recorded in the metadata", st,
               (data.n == n_info) if hasattr(data, "n") else z3.BoolVal(False), node)
    for field in ("start", "end", "run_id"):
        eng.oblige("loaded-chunk", f"the chunk's {field} is the one recorded in the chunk metadata", st,
                   eng.to_v(kw.get(field, PNONE)) == gi(info, strv(field)), node)
    eng.oblige("loaded-chunk", "the chunk's subruns are the recorded ones (None if absent)", st,
               eng.to_v(kw.get("subruns", PNONE)) == z3.Function("method:get", V, V, V, V)(info, strv("subruns"), NONE), node)
    read = st.ghost.get("py:read")
    eng.oblige("loaded-chunk", "the chunk carries the rows the backend returned (or no rows for a chunk recorded as empty)", st,
               z3.BoolVal(read is not None and data is read) if read is not None else (data.n == 0 if hasattr(data, "n") else z3.BoolVal(False)), node)
    fr.on_raise(Exc("ValueError"), st)
    g = dict(st.ghost)
    g["built"] = z3.BoolVal(True)
    c = eng.fresh("loaded_chunk", "V")
    g["built_chunk"] = c
    return k(Opq(c), St(st.env, st.heap, st.pc, g))


ATR = z3.Function("fn:self.apply_time_range", V, V, V)


def _raf_ens(S, a, r):
    return [("a chunk was built", a.ghost.built),
            ("whenever a time range is given the chunk handed out is the built chunk cut to that range (apply_time_range) - also when "
             "it has no rows, since its start and end still have to be trimmed; without a range it is the built chunk itself",
             S.If(S.truthy(a.time_range), S.eq(r, ATR(a.ghost.built_chunk, S.v(a.time_range))), S.eq(r, a.ghost.built_chunk)))]


read_and_format = REG.add(Contract(
    FC, "StorageBackend._read_and_format_chunk",
    params=dict(self="V", backend_key="V", dtype="V", metadata="V", chunk_info="V", time_range="V", chunk_construction_kwargs="V"),
    ensures=_raf_ens,
    raises={"DataCorrupted": lambda S, a: S.true, "ValueError": lambda S, a: S.true, "Any": lambda S, a: S.true},
    ghost={"built": z3.BoolVal(False), "read_with_info": z3.Const("nothing_read", V), "built_chunk": z3.Const("no_chunk_built", V)},
    calls={"self._read_chunk": _read_chunk_hook, "strax.Chunk": _chunk_ctor_hook, "self.apply_time_range": Abstract(pure=True)},
))


# --------------------------------------------------------------------------------------
# StorageBackend._read_format_split_chunk: rechunking on load hands out the whole chunk, piece by piece (C16 / C03)
# --------------------------------------------------------------------------------------
from contracts.chunk import CHUNK, chunk_wf  # noqa: E402
from pyvc.engine import ArrT  # noqa: E402
from pyvc.ops import Namespace  # noqa: E402

MIN_GAP = 1000          # strax.DEFAULT_CHUNK_SPLIT_NS


def _read_hook(eng, args, kw, st, fr, k, node):
    """self._read_and_format_chunk(**kwargs): some well-formed chunk (its own contract is above)"""
    fr.on_raise(Exc("Any", Opq(eng.fresh("read_exc", "V"))), st)
    ref, st = make_symbolic(eng, eng.new_base("read_chunk"), CHUNK, st, set())
    view = eng.resolve(ref, st.heap)
    for _, f in chunk_wf(eng.S, view):
        st = st.assume(eng.S.b(f))
    g = dict(st.ghost)
    g["py:R"] = ref
    g["cur_end"] = st.heap[ref.base]["start"]
    return k(ref, St(st.env, st.heap, st.pc, g))


def _get_splits_hook(eng, args, kw, st, fr, k, node):
    """strax.Rechunker.get_splits(data, size, min_gap): through its own contract (proved below): indices 0 = s0 < s1 < ... < N
    such that before every s_k (k >= 1) there is a gap larger than min_gap to ALL earlier rows."""
    from pyvc.library import contract_call
    eng.assumptions.add("target sizes handed to Rechunker.get_splits are non-negative (a configuration value)")
    data = args[0]
    from pyvc.engine import Arr as _Arr
    if not isinstance(data, _Arr):
        # (reachable only on the infeasible path future + rechunk: there the obligation holds vacuously)
        eng.oblige("rechunk-on-load", "get_splits is given the rows of the chunk that was read", st, z3.BoolVal(False), node)
        return k(Opq(eng.fresh("split_indices", "V")), st)
    size = eng.fresh("target_size")
    st = st.assume(size >= 0)

    def got(s_arr, s2):
        g = dict(s2.ghost)
        g["py:S"] = s_arr
        return k(s_arr, St(s2.env, s2.heap, s2.pc, g))
    # its ValueError ("Target size is too small" / "Trapped in infinite loop") is kept apart from the callers' own ValueErrors
    fr2 = fr.with_(on_raise=lambda exc, s: fr.on_raise(Exc("ValueError:target") if exc.cls == "ValueError" else exc, s))
    return contract_call(eng, REG.contracts["strax/chunk.py:Rechunker.get_splits"], [data, size, args[2] if len(args) > 2 else z3.IntVal(MIN_GAP)],
                         {}, st, fr2, got, node)


def _np_diff_hook(eng, args, kw, st, fr, k, node):
    """np.diff(a): the consecutive differences (library model)"""
    a = args[0]
    from pyvc.engine import Arr as _Arr
    if not isinstance(a, _Arr):
        eng.oblige("rechunk-on-load", "the split indices come from get_splits", st, z3.BoolVal(False), node)
        return k(Opq(eng.fresh("diffs", "V")), st)
    d_arr, st = make_symbolic(eng, eng.new_base("diffs"), ArrT("int"), st, set())
    S = eng.S
    av, dv = eng.resolve(a, st.heap), eng.resolve(d_arr, st.heap)
    st = st.assume(S.b(dv.n == av.n - 1))
    st = st.assume(S.b(S.forall(0, dv.n, lambda j: dv.at(j) == av.at(j + 1) - av.at(j))))
    return k(d_arr, st)


def _submit_read(eng, args, kw, st, fr, k, node):
    """executor.submit(self._read_and_format_chunk, **read_chunk_kwargs)"""
    from pyvc.monitor import BoundMethod
    eng.oblige("rechunk-on-load", "the job submitted is reading this very chunk (same arguments)", st,
               z3.BoolVal(len(args) == 1 and kw.get("**") is st.env["read_chunk_kwargs"]), node)
    fut = eng.fresh("read_future", "V")
    g = dict(st.ghost)
    g["fut"] = fut
    return k(Opq(fut), St(st.env, st.heap, st.pc, g))


def _rfs_views(a):
    R = a.pyghost.get("py:R")
    return R


def _same_rows(S, piece, R, off):
    return S.forall(0, piece.n, lambda j: S.And(piece.f("time", j) == R.f("time", off + j), piece.f("endtime", j) == R.f("endtime", off + j)))


def _rfs_loop(S, a):
    if "R" not in a.rghost or "S" not in a.rghost:
        return []           # (infeasible path: a future is never rechunked)
    R, sv = a.rghost["R"], a.rghost["S"]
    c = a.chunk
    g = a.ghost
    return [("the part not yet handed out is a well-formed chunk", S.And(*[f for _, f in chunk_wf(S, c)])),
            ("it starts where the last piece ended and ends where the read chunk ends", S.And(c.start == g.cur_end, c.end == R.end)),
            ("exactly the rows before the k-th split index have been handed out", S.And(g.rows_out == sv.at(a.k_), a.k_ < sv.n, g.n_yields >= 0)),
            ("the remaining rows are the read chunk's rows from there on", S.And(g.rows_out + c.data.n == R.data.n, _same_rows(S, c.data, R.data, g.rows_out)))]


def _rfs_yields(S, a, v):
    if not hasattr(v, "data"):
        return [("without rechunking the (future of the) chunk itself is handed out",
                 S.And(S.Not(a.rechunk), S.eq(S.v(v), a.ghost.fut)))]
    if "R" not in a.rghost:
        return []
    R = a.rghost["R"]
    g = a.ghost
    return [("each piece starts where the previous one ended (the first at the chunk's start)", v.start == g.cur_end),
            ("each piece carries the next rows of the read chunk, unchanged and in order",
             S.And(g.rows_out + v.data.n <= R.data.n, _same_rows(S, v.data, R.data, g.rows_out)))]


def _rfs_after_yield(eng, st, value):
    g = dict(st.ghost)
    from pyvc.engine import Ref as _Ref
    if isinstance(value, _Ref):
        cell = st.heap[value.base]
        g["cur_end"] = cell["end"]
        g["rows_out"] = g["rows_out"] + cell["data"].n
    g["n_yields"] = g["n_yields"] + 1
    return St(st.env, st.heap, st.pc, g)


def _rfs_ens(S, a, r):
    g = a.ghost
    R = a.pyghost.get("py:R")
    if R is None:
        return [("a future is handed out only when no rechunking was asked for and an executor is given",
                 S.And(S.Not(a.rechunk), S.Not(S.is_none(a.executor)), g.n_yields == 1))]
    Rv = a.rghost["R"]
    return [("at least one piece is handed out", g.n_yields >= 1),
            ("without rechunking exactly the chunk that was read", S.Implies(S.Not(a.rechunk), g.n_yields == 1)),
            ("the pieces cover the read chunk up to its end and carry all of its rows (nothing is dropped, also not an empty tail)",
             S.And(g.cur_end == Rv.end, g.rows_out == Rv.data.n))]


read_format_split = REG.add(Contract(
    FC, "StorageBackend._read_format_split_chunk",
    params=dict(self="V", read_chunk_kwargs="V", rechunk="bool", source_size_mb="V", executor="V"),
    ensures=_rfs_ens,
    raises={"Any": lambda S, a: S.true, "ValueError": lambda S, a: S.true, "ValueError:runs": lambda S, a: S.true,
            "ValueError:target": lambda S, a: S.true, "CannotSplit": lambda S, a: S.false},
    yields=_rfs_yields,
    ghost={"cur_end": z3.IntVal(0), "rows_out": z3.IntVal(0), "n_yields": z3.IntVal(0), "fut": z3.Const("no_future", V)},
    calls={"self._read_and_format_chunk": _read_hook, "executor.submit": _submit_read, "strax.Rechunker.get_splits": _get_splits_hook,
           "np.diff": _np_diff_hook},
    consts={"strax.DEFAULT_CHUNK_SPLIT_NS": z3.IntVal(MIN_GAP)},
    loops={1: Loop(_rfs_loop)},
    loop_ghost={1: ["cur_end", "rows_out", "n_yields"]},
    local_sorts={"chunk": CHUNK},
))
read_format_split.after_yield = _rfs_after_yield


# --------------------------------------------------------------------------------------
# FileSaver.__init__: a new attempt starts from an empty temporary directory (C04)
# --------------------------------------------------------------------------------------
FS = "strax/storage/files.py"
EXISTS = z3.Function("fs_exists_at_entry", V, z3.BoolSort())


def _exists_hook(eng, args, kw, st, fr, k, node):
    p = eng.to_v(args[0])
    return k(z3.And(EXISTS(p), z3.Not(z3.Select(st.ghost["Removed"], p))), st)


def _rmtree_hook(eng, args, kw, st, fr, k, node):
    g = dict(st.ghost)
    g["Removed"] = z3.Store(g["Removed"], eng.to_v(args[0]), True)
    fr.on_raise(Exc("OSError"), st)
    return k(PNONE, St(st.env, st.heap, st.pc, g))


def _makedirs_hook(eng, args, kw, st, fr, k, node):
    p = eng.to_v(args[0])
    temp = st.heap[st.env["self"].base]["tempdirname"] if hasattr(st.env["self"], "base") else None
    eng.oblige("fresh-temp", "the temporary directory is created anew: whatever an earlier (crashed) attempt left there was removed first", st,
               z3.Or(z3.Not(EXISTS(p)), z3.Select(st.ghost["Removed"], p)), node)
    eng.oblige("fresh-temp", "creation is not allowed to silently reuse an existing directory", st,
               z3.Not(eng.truth(kw.get("exist_ok", z3.BoolVal(False)))), node)
    g = dict(st.ghost)
    g["made"] = p
    fr.on_raise(Exc("OSError"), st)
    return k(PNONE, St(st.env, st.heap, st.pc, g))


FILESAVER = ObjT("FileSaver", dirname="V", tempdirname="V", prefix="V", metadata_json="V", md="V")

filesaver_init = REG.add(Contract(
    FS, "FileSaver.__init__",
    params=dict(self=FILESAVER, dirname="V", metadata="V", kwargs={}),
    ensures=lambda S, a, r: [("the directory that was created is this saver's temporary directory", S.eq(a.ghost.made, a.self.tempdirname)),
                             ("and an existing final directory of the same key was removed (overwrite)",
                              S.Implies(EXISTS(S.v(a.dirname)), z3.Select(a.ghost.Removed, S.v(a.dirname))))],
    raises={"OSError": lambda S, a: S.true, "Any": lambda S, a: S.true},
    ghost={"Removed": z3.K(V, False), "made": z3.Const("nothing_made", V)},
    calls={"super().__init__": Abstract(sort=None, may_raise=["Any"]), "os.path.exists": _exists_hook, "shutil.rmtree": _rmtree_hook,
           "os.makedirs": _makedirs_hook, "print": Abstract(sort=None), "dirname_to_prefix": Abstract(pure=True),
           "self._flush_metadata": Abstract(sort=None, may_raise=["OSError"])},
    consts={"RUN_METADATA_PATTERN": "%s-metadata.json"},
))


# --------------------------------------------------------------------------------------
# Rechunker.receive / flush: every row received is handed out once or kept in the cache; pieces are contiguous (C07 / C03)
# --------------------------------------------------------------------------------------
from contracts.chunk import concatenate2, F as FCH  # noqa: E402


def _rk_append(eng, args, kw, st, fr, k, node):
    """chunks.append(_chunk): a piece is handed out"""
    piece = args[-1]
    S = eng.S
    v = eng.resolve(piece, st.heap)
    K = eng.resolve(st.ghost["py:K"], st.heap)
    g = st.ghost
    eng.oblige("rechunker", "each piece starts where the previous one ended (the first at the start of the cached + received data)", st,
               v.start == g["cur_end"], node)
    eng.oblige("rechunker", "each piece carries the next rows, unchanged and in order", st,
               S.b(S.And(g["rows_out"] + v.data.n <= K.data.n, _same_rows(S, v.data, K.data, g["rows_out"]))), node)
    g2 = dict(g)
    g2["cur_end"] = v.end
    g2["rows_out"] = g["rows_out"] + v.data.n
    g2["n_out"] = g["n_out"] + 1
    return k(PNONE, St(st.env, st.heap, st.pc, g2))


def _rk_concat(eng, args, kw, st, fr, k, node):
    """strax.Chunk.concatenate([self.cache, chunk], ...): through its contract (two chunks of one run)"""
    from pyvc.library import contract_call
    lst = args[0]

    def got(res, s2):
        g = dict(s2.ghost)
        g["py:K"] = res
        g["cur_end"] = s2.heap[res.base]["start"]
        return k(res, St(s2.env, s2.heap, s2.pc, g))
    return contract_call(eng, concatenate2, [Opq(eng.fresh("cls", "V")), tuple(lst), kw.get("allow_superrun", PNONE)], {}, st, fr, got, node)


def _rk_splits(eng, args, kw, st, fr, k, node):
    g = dict(st.ghost)
    if "py:K" not in g:
        # no cache: the data being split is the received chunk itself
        ch = st.env["chunk"]
        g["py:K"] = ch
        g["cur_end"] = st.heap[ch.base]["start"]
        st = St(st.env, st.heap, st.pc, g)
    return _get_splits_hook(eng, args, kw, st, fr, k, node)


def _rk_loop(S, a):
    if "K" not in a.rghost or "S" not in a.rghost:
        return []
    K, sv = a.rghost["K"], a.rghost["S"]
    c, g = a.chunk, a.ghost
    return [("the part not yet handed out is a well-formed chunk", S.And(*[f for _, f in chunk_wf(S, c)])),
            ("it starts where the last piece ended and ends where the data ends", S.And(c.start == g.cur_end, c.end == K.end)),
            ("exactly the rows before the k-th split index have been handed out", S.And(g.rows_out == sv.at(a.k_), a.k_ < sv.n, g.n_out >= 0)),
            ("the remaining rows are the data's rows from there on", S.And(g.rows_out + c.data.n == K.data.n, _same_rows(S, c.data, K.data, g.rows_out)))]


def _rk_ens(variant):
    def ens(S, a, r):
        g = a.ghost
        if isinstance(r, list):
            return [("without rechunking the received chunk is handed on as it is", S.And(S.Not(a.self.rechunk), S.b(len(r) == 1 and getattr(r[0], "base", getattr(getattr(r[0], "_ref", None), "base", None)) == a.chunk._ref.base)))]
        K = a.rghost["K"]
        cache = a.self.cache
        out = [("what is kept in the cache starts where the last piece handed out ended and reaches to the end of the data",
                S.And(cache.start == g.cur_end, cache.end == K.end)),
               ("every row of the cached + received data was handed out or is kept, in order, exactly once",
                S.And(g.rows_out + cache.data.n == K.data.n, _same_rows(S, cache.data, K.data, g.rows_out)))]
        if variant == "cached":
            c0 = a.old.self.cache
            out.append(("the data starts where the old cache started (nothing of the cache is lost)", K.start == c0.start))
        else:
            out.append(("the data is the received chunk", S.And(K.start == a.chunk.start, K.end == a.chunk.end, K.data.n == a.chunk.data.n)))
        return out
    return ens


RECHUNKER_EMPTY = ObjT("Rechunker", rechunk="bool", is_superrun="V", run_id="V", cache=lambda eng, name, st: (PNONE, st))
RECHUNKER_CACHED = ObjT("Rechunker", rechunk="bool", is_superrun="V", run_id="V", cache=CHUNK)


def _rk_contract(variant, self_spec):
    def req(S, a):
        out = chunk_wf(S, a.chunk)
        if variant == "cached":
            c0 = a.self.cache
            out = out + chunk_wf(S, c0) + [
                ("cache and received chunk belong to one data type and run",
                 S.And(S.eq(c0.dtype, a.chunk.dtype), S.eq(c0.data_type, a.chunk.data_type), S.eq(c0.data_kind, a.chunk.data_kind),
                       S.eq(c0.run_id, a.chunk.run_id), S.Not(S.is_none(c0.run_id))))]
        return out
    return REG.add(Contract(
        FCH, "Rechunker.receive", variant=variant,
        params=dict(self=self_spec, chunk=CHUNK),
        requires=req,
        ensures=_rk_ens(variant),
        raises={"ValueError": (lambda S, a: a.chunk.start < a.self.cache.end) if variant == "cached" else (lambda S, a: S.true),
                "ValueError:runs": lambda S, a: S.true, "ValueError:target": lambda S, a: S.true, "CannotSplit": lambda S, a: S.false},
        ghost={"cur_end": z3.IntVal(0), "rows_out": z3.IntVal(0), "n_out": z3.IntVal(0)},
        calls={"strax.Chunk.concatenate": _rk_concat, "self.get_splits": _rk_splits, "np.diff": _np_diff_hook, "chunks.append": _rk_append},
        consts={"DEFAULT_CHUNK_SPLIT_NS": z3.IntVal(MIN_GAP)},
        loops={1: Loop(_rk_loop)},
        loop_ghost={1: ["cur_end", "rows_out", "n_out"]},
        local_sorts={"chunk": CHUNK, "chunks": "V"},
    ))


rechunker_receive_empty = _rk_contract("no cache", RECHUNKER_EMPTY)
rechunker_receive_cached = _rk_contract("cached", RECHUNKER_CACHED)


def _flush_ens(S, a, r):
    if isinstance(r, list) and len(r) == 0:
        return [("nothing to flush only when nothing is cached", S.b(a.old.self.cache is PNONE or a.old.self.cache is None))]
    return [("what was cached is handed out, once: the cache is empty afterwards",
             S.b(isinstance(r, list) and len(r) == 1 and getattr(r[0], "base", None) == getattr(getattr(a.old.self.cache, "_ref", None), "base", "?")
                 and (a.self.cache is PNONE or a.self.cache is None)))]


rechunker_flush_cached = REG.add(Contract(
    FCH, "Rechunker.flush", variant="cached", params=dict(self=RECHUNKER_CACHED), ensures=_flush_ens, raises={}))
rechunker_flush_empty = REG.add(Contract(
    FCH, "Rechunker.flush", variant="no cache", params=dict(self=RECHUNKER_EMPTY), ensures=_flush_ens, raises={}))


# --------------------------------------------------------------------------------------
# Rechunker.get_splits: the contract assumed above, proved
# --------------------------------------------------------------------------------------
import contracts.general as _G  # noqa: E402  (strax.diff contract)
from contracts.chunk import sorted_by_time, positive_duration  # noqa: E402


def _argwhere(eng, args, kw, st, fr, k, node):
    """np.argwhere(mask) of a 1-D boolean vector (library model): the indices of the true entries, ascending"""
    from pyvc.engine import Vec as _Vec
    mask = args[0]
    if not isinstance(mask, _Vec):
        raise Unsupported("np.argwhere of something that is not a boolean vector")
    eng.assumptions.add("library model: np.argwhere(mask).flatten() lists the indices of the true entries of a 1-D mask in ascending order")
    res, st = make_symbolic(eng, eng.new_base("argwhere"), ArrT("int"), st, set())
    S = eng.S
    rv = eng.resolve(res, st.heap)
    st = st.assume(S.b(S.forall(0, rv.n, lambda j: S.And(0 <= rv.at(j), rv.at(j) < mask.n, mask.fn(rv.at(j))))))
    st = st.assume(S.b(S.forall2(0, rv.n, 0, rv.n, lambda i, j: S.Implies(i < j, rv.at(i) < rv.at(j)))))
    st = st.assume(S.b(rv.n <= S.max(mask.n, 0)))
    return k(res, st)


def _np_array_of_list(eng, args, kw, st, fr, k, node):
    """np.array(list of ints): an array with the same elements"""
    lst = args[0]
    cell = st.heap[lst.base]
    res, st = make_symbolic(eng, eng.new_base("as_array"), ArrT("int"), st, set())
    S = eng.S
    rv = eng.resolve(res, st.heap)
    st = st.assume(S.b(rv.n == cell["n"]))
    st = st.assume(S.b(S.forall(0, rv.n, lambda j: rv.at(j) == z3.Select(cell["items"], j))))
    return k(res, st)


def _gap_ok(S, d, x, min_gap):
    """index x follows a gap larger than min_gap to every earlier row"""
    return S.And(1 <= x, x < d.n, S.forall(0, d.n, lambda r: S.Implies(r < x, d.f("endtime", r) + min_gap < d.f("time", x))))


def _gs_inv(S, a):
    d, L, g, am = a.data, a.split_indices, a.gap_indices, a.argmin
    gv = lambda j: g.at(j)
    return [("the list of splits starts with 0 and is strictly increasing", S.And(L.n >= 1, L.at(0) == 0,
                                                                               S.forall(0, L.n - 1, lambda j: L.at(j) < L.at(j + 1)))),
            ("argmin points at the gap index used last (none yet: -1)", S.And(-1 <= am, am < g.n,
                                                                             S.Iff(am == -1, L.n == 1),
                                                                             S.Implies(am >= 0, L.at(L.n - 1) == gv(am)))),
            ("every split after the first follows a gap larger than min_gap", S.forall(1, L.n, lambda j: _gap_ok(S, d, L.at(j), a.min_gap))),
            ("the loop counter", a.n >= 0)]


def _gs_ens(S, a, r):
    d = a.data
    return [("the split indices start at 0, increase strictly and stay below the row count",
             S.And(r.n >= 1, r.at(0) == 0, S.forall(0, r.n - 1, lambda j: r.at(j) < r.at(j + 1)),
                   S.forall(0, r.n, lambda j: S.And(0 <= r.at(j), r.at(j) < S.max(d.n, 1))))),
            ("each one after the first follows a gap larger than min_gap to EVERY earlier row (so a split half-way into the gap cuts no row)",
             S.forall(1, r.n, lambda j: S.forall(0, d.n, lambda x: S.Implies(x < r.at(j), d.f("endtime", x) + a.min_gap < d.f("time", r.at(j))))))]


get_splits = REG.add(Contract(
    "strax/chunk.py", "Rechunker.get_splits",
    params=dict(data=INTERVALS, target_size="int", min_gap="int"),
    requires=lambda S, a: [("rows sorted by time with positive duration", S.And(sorted_by_time(S, a.data), positive_duration(S, a.data))),
                           ("sizes are not negative", S.And(a.target_size >= 0, a.min_gap >= 0))],
    ensures=_gs_ens,
    raises={"ValueError": lambda S, a: S.true},
    calls={"np.argwhere": _argwhere, "np.array": _np_array_of_list},
    attrs={"data.itemsize": lambda eng, st, fr, k, node: (lambda x: k(x, st.assume(x >= 1)))(eng.fresh("itemsize"))},
    consts={"DEFAULT_CHUNK_SPLIT_NS": z3.IntVal(MIN_GAP)},
    loops={1: Loop(_gs_inv)},
    local_sorts={"split_indices": ListT("int")},
    static=True, returns=ArrT("int"),
))


# --------------------------------------------------------------------------------------
# strax.io.save_file / _save_file: the byte size reported for a chunk file is the number of bytes written to it (C03)
# --------------------------------------------------------------------------------------
FIO = "strax/io.py"


def _write_hook(eng, args, kw, st, fr, k, node):
    g = dict(st.ghost)
    g["written"] = eng.to_v(args[-1])
    g["n_writes"] = st.ghost["n_writes"] + 1
    return k(PNONE, St(st.env, st.heap, st.pc, g))


_save_file_c = REG.add(Contract(
    FIO, "_save_file", params=dict(f="V", data="V", compressor="V"),
    ensures=lambda S, a, r: [("exactly one block is written to the file - the compressed data - and its length is what is returned",
                              S.And(a.ghost.n_writes == 1, S.eq(a.ghost.written, a.local.d_comp),
                                    S.to_int(r) == S.iter_len(a.local.d_comp)))],
    raises={"AssertionError": lambda S, a: S.true, "Any": lambda S, a: S.true},
    ghost={"written": z3.Const("nothing_written", V), "n_writes": z3.IntVal(0)},
    calls={"f.write": _write_hook, "call:computed": Abstract(pure=True, may_raise=["Any"])},
    consts={"COMPRESSORS": Opq(z3.Const("COMPRESSORS", V))},
))


def _open_hook(eng, args, kw, st, fr, k, node):
    eng.oblige("save_file", "the data is first written under the temporary name (final name + '_temp')", st,
               eng.to_v(args[0]) == eng.to_v(st.env["temp_fn"]), node)
    return k(Opq(eng.fresh("write_file", "V")), st)


def _inner_save(eng, args, kw, st, fr, k, node):
    g = dict(st.ghost)
    n = eng.fresh("bytes_written", "int")
    g["bytes_written"] = n
    g["data_written"] = z3.And(eng.to_v(args[1]) == eng.to_v(st.env["data"]), eng.to_v(args[2]) == eng.to_v(st.env["compressor"]))
    fr.on_raise(Exc("Any", Opq(eng.fresh("write_exc", "V"))), st)
    return k(n, St(st.env, st.heap, st.pc, g))


def _rename_hook(eng, args, kw, st, fr, k, node):
    eng.oblige("save_file", "the temporary file is renamed to the final name only after the data was written", st,
               z3.And(eng.to_v(args[0]) == eng.to_v(st.env["temp_fn"]),
                      eng.to_v(args[1]) == eng.to_v(st.env["final_fn"]), st.ghost["data_written"]), node)
    return k(PNONE, St(st.env, st.heap, st.pc, {**st.ghost, "renamed": z3.BoolVal(True)}))


save_file_str = REG.add(Contract(
    FIO, "save_file", variant="file name", params=dict(f="V", data="V", compressor="V"),
    requires=lambda S, a: [("f is a file name", S.is_instance(a.f, "str"))],
    ensures=lambda S, a, r: [("the size reported (recorded as the chunk's filesize) is the number of bytes _save_file wrote, and the file "
                              "carries its final name", S.And(S.to_int(r) == a.ghost.bytes_written, a.ghost.renamed))],
    raises={"Any": lambda S, a: S.true},
    ghost={"bytes_written": z3.IntVal(-2), "data_written": z3.BoolVal(False), "renamed": z3.BoolVal(False)},
    calls={"open": _open_hook, "_save_file": _inner_save, "os.rename": _rename_hook,
           # (not used by the code as it is; declared so that a version that asks the file system for sizes is judged by the
           #  postcondition instead of ending in a checker error)
           "os.path.getsize": Abstract(sort="int"), "os.stat": Abstract(), "write_file.tell": Abstract(sort="int"),
           "write_file.flush": Abstract(sort=None), "os.fsync": Abstract(sort=None)},
    with_handler=plain_with,
))


# --------------------------------------------------------------------------------------
# FileSaver._save_chunk / _close: chunk files go into the temporary directory; the directory gets its final name last (C04, C03)
# --------------------------------------------------------------------------------------
def _fs_save_file(eng, args, kw, st, fr, k, node):
    """strax.save_file(fn, data=..., compressor=...) called directly (serial saving)"""
    g = dict(st.ghost)
    g["file_written"] = z3.And(eng.to_v(args[0]) == eng.to_v(st.env["fn"]) if args else z3.BoolVal(False),
                               eng.to_v(kw.get("data", PNONE)) == eng.to_v(st.env["#entry_data"]),
                               eng.to_v(kw.get("compressor", PNONE)) == z3.Function("getitem", V, V, V)(
                                   eng.to_v(st.heap[st.env["self"].base]["md"]), strv("compressor")))
    size = eng.fresh("size_written", "V")
    g["size"] = size
    fr.on_raise(Exc("Any", Opq(eng.fresh("io_exc", "V"))), st)
    return k(Opq(size), St(st.env, st.heap, st.pc, g))


def _fs_submit(eng, args, kw, st, fr, k, node):
    """executor.submit(strax.save_file, fn, data=..., compressor=...)"""
    g = dict(st.ghost)
    from pyvc.engine import Named
    is_save = isinstance(args[0], Named) and args[0].name.split(".")[-1] == "save_file"
    g["file_written"] = z3.And(z3.BoolVal(bool(is_save)), eng.to_v(args[1]) == eng.to_v(st.env["fn"]) if len(args) > 1 else z3.BoolVal(False),
                               eng.to_v(kw.get("data", PNONE)) == eng.to_v(st.env["#entry_data"]),
                               eng.to_v(kw.get("compressor", PNONE)) == z3.Function("getitem", V, V, V)(
                                   eng.to_v(st.heap[st.env["self"].base]["md"]), strv("compressor")))
    fut = eng.fresh("write_future", "V")
    g["future"] = fut
    return k(Opq(fut), St(st.env, st.heap, st.pc, g))


def _fs_join(eng, args, kw, st, fr, k, node):
    return k(Opq(z3.Function("fn:path_join", V, V, V)(eng.to_v(args[0]), eng.to_v(args[1]))), st)


def _fsc_setup(eng, st):
    env = dict(st.env)
    env["#entry_data"] = st.env["data"]
    return St(env, st.heap, st.pc, st.ghost)


def _fsc_ens(S, a, r):
    g = a.ghost
    fn_ok = S.eq(a.local.fn, z3.Function("fn:path_join", V, V, V)(S.v(a.self.tempdirname), S.v(a.local.filename)))
    out = [("the chunk file is written - directly or through the executor - with this chunk's data, the saver's compressor, into the "
            "TEMPORARY directory under the chunk's file name", S.And(g.file_written, fn_ok))]
    if isinstance(r, tuple) and len(r) == 2 and isinstance(r[0], dict):
        info, fut = r
        out.append(("the file name is reported for the chunk's metadata", S.b("filename" in info) if True else S.true))
        serial = S.is_none(a.executor)
        out.append(("saving serially, the size save_file reported is recorded as filesize and there is nothing to wait for; with an "
                     "executor the pending write is handed back",
                    S.If(serial, S.And(S.b("filesize" in info), S.eq(info.get("filesize", 0), g.size) if "filesize" in info else S.false,
                                       S.is_none(fut)),
                         S.And(S.b("filesize" not in info), S.eq(fut, g.future)))))
    else:
        out.append(("the result is (chunk info, pending write or None)", S.false))
    return out


filesaver_save_chunk = REG.add(Contract(
    FS, "FileSaver._save_chunk",
    params=dict(self=FILESAVER, data="V", chunk_info="V", executor="V"),
    setup=_fsc_setup,
    ensures=_fsc_ens, raises={"Any": lambda S, a: S.true},
    ghost={"file_written": z3.BoolVal(False), "size": z3.Const("no_size", V), "future": z3.Const("no_future", V)},
    calls={"self._chunk_filename": Abstract(pure=True), "os.path.join": _fs_join, "strax.save_file": _fs_save_file,
           "executor.submit": _fs_submit},
    consts={"strax.save_file": __import__("pyvc.engine", fromlist=["Named"]).Named("strax.save_file")},
))


def _fcl_exists(eng, args, kw, st, fr, k, node):
    return k(EXISTS(eng.to_v(args[0])), st)


def _fcl_flush(eng, args, kw, st, fr, k, node):
    g = dict(st.ghost)
    g["flushed"] = z3.BoolVal(True)
    fr.on_raise(Exc("OSError"), st)
    return k(PNONE, St(st.env, st.heap, st.pc, g))


def _fcl_rename(eng, args, kw, st, fr, k, node):
    selfc = st.heap[st.env["self"].base]
    eng.oblige("rename-last", "the temporary directory is given its final name only after the complete metadata was written into it", st,
               z3.And(st.ghost["flushed"], eng.to_v(args[0]) == eng.to_v(selfc["tempdirname"]), eng.to_v(args[1]) == eng.to_v(selfc["dirname"])), node)
    g = dict(st.ghost)
    g["renamed"] = z3.BoolVal(True)
    g["flushed"] = z3.BoolVal(False)         # anything written afterwards would not be covered by a flush before the rename
    fr.on_raise(Exc("OSError"), st)
    return k(PNONE, St(st.env, st.heap, st.pc, g))


filesaver_close = REG.add(Contract(
    FS, "FileSaver._close",
    params=dict(self=FILESAVER),
    ensures=lambda S, a, r: [("on normal completion the data carries its final name, and the rename was the last step", a.ghost.renamed),
                             ("a saver whose temporary directory is gone does not finish normally", EXISTS(S.v(a.self.tempdirname)))],
    raises={"RuntimeError": lambda S, a: S.Not(EXISTS(S.v(a.self.tempdirname))), "OSError": lambda S, a: S.true, "Any": lambda S, a: S.true},
    ghost={"flushed": z3.BoolVal(False), "renamed": z3.BoolVal(False)},
    calls={"os.path.exists": _fcl_exists, "glob.glob": Abstract(pure=True), "sorted": Abstract(pure=True), "open": Abstract(may_raise=["OSError"]),
           "json.load": Abstract(may_raise=["Any"]), "os.remove": Abstract(sort=None, may_raise=["OSError"]),
           "self._flush_metadata": _fcl_flush, "os.rename": _fcl_rename, ".append": Abstract(sort=None)},
    with_handler=plain_with,
    loops={1: Loop(lambda S, a: [("nothing renamed yet", S.Not(a.ghost.renamed))])},
    loop_ghost={1: []},
))
