"""Contracts for strax/sort_enforcement.py (C17: sorting is stable and deterministic)."""

from pyvc.contract import Contract, REG
from pyvc.engine import ArrT
from pyvc.library import argsort_facts, make_perm_result

F = "strax/sort_enforcement.py"


def _is_mergesort(S, a):
    return S.eq_str(a.kind, "mergesort")


stable_argsort = REG.add(Contract(
    F, "stable_argsort",
    params=dict(arr=ArrT("int"), kind="V"),
    ensures=lambda S, a, r: [
        ("only mergesort is accepted", _is_mergesort(S, a)),
        ("result is a stable sorting permutation (equal keys keep their order)",
         S.And(*argsort_facts(S, a.arr, r, S.inverse_perm(r))))],
    raises={"SortingError": lambda S, a: S.Not(_is_mergesort(S, a))},
    call_names=("stable_argsort", "strax.stable_argsort"),
    make_result=lambda eng, st, bound: make_perm_result(eng, st, bound["arr"].n),
))
