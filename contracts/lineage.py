"""Contracts for C02: what goes into a lineage, when cached plugins may be reused, when a stored lineage matches."""

import z3

from pyvc.contract import Contract, Loop, REG
from pyvc.engine import Opq, PNONE, V, St, Exc, DictLit, truthy, strv, int2v
from pyvc.library import Abstract

FC = "strax/context.py"
FS = "strax/storage/common.py"
CONTAINS = z3.Function("contains", V, V, z3.BoolSort())
GETITEM = z3.Function("getitem", V, V, V)
ATTR = lambda n: z3.Function("attr_" + n, V, V)


# --------------------------------------------------------------------------------------
# Context.__add_lineage_to_plugin (ordinary plugins): the lineage entry of a plugin
# --------------------------------------------------------------------------------------
def _lineage_store(eng, st, obj, v, node):
    """plugin.lineage = {last_provide: (class name, version, configs)}"""
    plugin = st.env["plugin"].t
    ok = isinstance(v, DictLit) and len(v.items) == 1 and isinstance(v.items[0][1], tuple) and len(v.items[0][1]) == 3
    eng.oblige("lineage", "the lineage entry is {last provided type: (class name, version, tracked options)}", st, z3.BoolVal(ok), node)
    if not ok:
        return st
    key, (name, version, configs) = v.items[0]
    cfg = ATTR("config")(plugin)
    takes = ATTR("takes_config")(plugin)
    o = z3.Const("lin_o", V)
    c = eng.to_v(configs)
    eng.oblige("lineage", "the entry is filed under the plugin's last provided data type", st,
               eng.to_v(key) == GETITEM(ATTR("provides")(plugin), int2v(z3.IntVal(-1))), node)
    eng.oblige("lineage", "the entry names the providing class", st,
               eng.to_v(name) == ATTR("__name__")(ATTR("__class__")(plugin)), node)
    eng.oblige("lineage", "the entry carries the plugin's version", st,
               eng.to_v(version) == z3.Function("method:version", V, V)(plugin), node)
    eng.oblige("lineage", "the entry lists exactly the options whose Option is tracked (an untracked option never enters a key)", st,
               z3.ForAll([o], CONTAINS(c, o) == z3.And(CONTAINS(cfg, o), truthy(ATTR("track")(GETITEM(takes, o))))), node)
    eng.oblige("lineage", "with the values the plugin was configured with", st,
               z3.ForAll([o], z3.Implies(CONTAINS(c, o), GETITEM(c, o) == GETITEM(cfg, o))), node)
    g = dict(st.ghost)
    g["own_entry"] = z3.BoolVal(True)
    return St(st.env, st.heap, st.pc, g)


def _lineage_update(eng, args, kw, st, fr, k, node):
    """plugin.lineage.update(<lineage of a dependency>)"""
    g = dict(st.ghost)
    g["merged"] = eng.to_v(args[1] if len(args) > 1 else args[0])
    return k(PNONE, St(st.env, st.heap, st.pc, g))


add_lineage = REG.add(Contract(
    FC, "Context.__add_lineage_to_plugin",
    params=dict(self="V", run_id="V", plugin="V"),
    requires=lambda S, a: [("an ordinary plugin (child plugins: see assumptions)", S.Not(S.truthy(S.attr(a.plugin, "child_plugin"))))],
    ensures=lambda S, a, r: [("the plugin's own lineage entry is set", a.ghost.own_entry)],
    raises={},
    ghost={"own_entry": z3.BoolVal(False), "merged": z3.Const("nothing_merged", V)},
    store_hooks={"attr:lineage": _lineage_store},
    calls={".update": _lineage_update},
    loops={3: Loop(lambda S, a: [("the own entry stays", a.ghost.own_entry)], body_ensures=lambda S, a: [
        ("the lineage of every dependency is merged in (so a change upstream changes every descendant's key)",
         S.eq(a.ghost.merged, S.attr(S.getitem(S.attr(a.plugin, "deps"), a.d_depends), "lineage")))])},
    loop_ghost={3: ["merged"]},
))


# --------------------------------------------------------------------------------------
# StorageFrontend._matches: exact unless fuzzy matching was asked for
# --------------------------------------------------------------------------------------
def _filt(lin, ff, ffo):
    return z3.Function("fn:filter_lineage", V, V, V, V)(lin, ff, ffo)


def _filter_call(eng, args, kw, st, fr, k, node):
    a = [eng.to_v(x) for x in args[-3:]]
    return k(Opq(_filt(*a)), st)


matches = REG.add(Contract(
    FS, "StorageFrontend._matches",
    params=dict(self="V", lineage="V", desired_lineage="V", fuzzy_for="V", fuzzy_for_options="V"),
    ensures=lambda S, a, r: [
        ("without fuzzy settings stored data matches only under an identical lineage",
         S.Implies(S.Not(S.Or(S.truthy(a.fuzzy_for), S.truthy(a.fuzzy_for_options))), S.Iff(r, S.eq(a.lineage, a.desired_lineage)))),
        ("with fuzzy settings exactly when the lineages agree after the fuzzy parts are removed from both",
         S.Implies(S.Or(S.truthy(a.fuzzy_for), S.truthy(a.fuzzy_for_options)),
                   S.Iff(r, _filt(a.lineage, a.fuzzy_for, a.fuzzy_for_options) == _filt(a.desired_lineage, a.fuzzy_for, a.fuzzy_for_options))))],
    raises={}, returns="bool",
    calls={"self._filter_lineage": _filter_call},
))


# --------------------------------------------------------------------------------------
# Context._plugins_are_cached: cached plugins are used only under the current context hash
# --------------------------------------------------------------------------------------
def _ctx_hash(eng, args, kw, st, fr, k, node):
    return k(Opq(z3.Function("fn:context_hash", V, V)(st.env["self"].t)), st)


def _pac_ens(S, a, r):
    cache = S.attr(a.self, "_fixed_plugin_cache")
    h = z3.Function("fn:context_hash", V, V)(a.self)
    return [("cached plugins are reused only without per-run defaults, with a cache, and under the CURRENT context hash",
             S.Implies(r, S.And(S.Not(S.truthy(S.getitem(S.attr(a.self, "context_config"), "use_per_run_defaults"))),
                                S.Not(S.is_none(cache)), S.contains(cache, h))))]


plugins_are_cached = REG.add(Contract(
    FC, "Context._plugins_are_cached",
    params=dict(self="V", targets="V"),
    ensures=_pac_ens, raises={}, returns="bool",
    calls={"self._context_hash": _ctx_hash},
))


# --------------------------------------------------------------------------------------
# Context.register: a changed registry never keeps plugins cached for the old one
# --------------------------------------------------------------------------------------
def _registry_store(eng, st, key, value, node):
    g = dict(st.ghost)
    g["registry_changed"] = z3.BoolVal(True)
    g["cache_dropped"] = z3.BoolVal(False)
    return St(st.env, st.heap, st.pc, g)


def _cache_store(eng, st, obj, v, node):
    g = dict(st.ghost)
    g["cache_dropped"] = z3.BoolVal(v is PNONE)
    return St(st.env, st.heap, st.pc, g)


def _registry_del(eng, st, key, value, node):
    # removing an entry: plugins cached for it are unreachable only if the cache was dropped and nothing refilled it;
    # register() never fills the cache, so a drop before the removal is as good as one after it
    g = dict(st.ghost)
    g["registry_changed"] = z3.BoolVal(True)
    return St(st.env, st.heap, st.pc, g)


def _register_rec(eng, args, kw, st, fr, k, node):
    """self.register(x) for each element of a sequence: the same contract (induction over the nesting)"""
    fr.on_raise(Exc("ValueError"), st)
    return k(PNONE, st)


_COHERENT = lambda S, a: S.Implies(a.ghost.registry_changed, a.ghost.cache_dropped)

register = REG.add(Contract(
    FC, "Context.register",
    params=dict(self="V", plugin_class="V"),
    ensures=lambda S, a, r: [("if the class registry was changed, the plugin cache built for the old registry was dropped", _COHERENT(S, a))],
    exc_ensures=lambda S, a, exc: [("also when registration fails after the registry was changed", _COHERENT(S, a))],
    raises={"ValueError": lambda S, a: S.true},
    ghost={"registry_changed": z3.BoolVal(False), "cache_dropped": z3.BoolVal(False)},
    store_hooks={"self._plugin_class_registry": _registry_store, "del:self._plugin_class_registry": _registry_del,
                 "attr:_fixed_plugin_cache": _cache_store, "attr:provides": lambda eng, st, obj, v, node: st},
    calls={"self.register": _register_rec, "issubclass": Abstract(sort="bool", pure=True), "hasattr": Abstract(sort="bool", pure=True),
           "strax.camel_to_snake": Abstract(pure=True), "self.log.warning": Abstract(sort=None),
           "self._per_run_default_allowed_check": Abstract(sort=None, may_raise=["ValueError"]),
           ".get_default": Abstract(may_raise=["InvalidConfiguration"]), "set": Abstract(pure=True)},
    loops={i: Loop(lambda S, a: []) for i in (1, 3, 4, 5, 6, 7)} | {
        2: Loop(lambda S, a: [("so far: the registry changed as soon as an entry was written, and no drop yet holds",
                               S.Implies(a.k_ > 0, S.And(a.ghost.registry_changed, S.Not(a.ghost.cache_dropped))))])},
    loop_ghost={1: [], 2: ["registry_changed", "cache_dropped"], 3: ["registry_changed"], 4: ["registry_changed"], 5: [], 6: [], 7: []},
    local_sorts={"deregistered": "V", "already_seen": "V"},
))


# --------------------------------------------------------------------------------------
# DataDirectory._folder_matches: which stored folder may serve a key
# --------------------------------------------------------------------------------------
FF = "strax/storage/files.py"
PARSED = z3.Function("fn:parse_folder_name", V, V)


def _parse_hook(eng, args, kw, st, fr, k, node):
    fr.on_raise(Exc("InvalidFolderNameFormat"), st)
    p = PARSED(eng.to_v(args[-1]))
    gi = GETITEM
    return k((Opq(gi(p, int2v(z3.IntVal(0)))), Opq(gi(p, int2v(z3.IntVal(1)))), Opq(gi(p, int2v(z3.IntVal(2))))), st)


def _matches_hook(eng, args, kw, st, fr, k, node):
    vs = [eng.to_v(x) for x in args[-4:]]
    return k(z3.Function("fn:_matches", V, V, V, V, z3.BoolSort())(*vs), st)


def _fm_ens(S, a, r):
    p = PARSED(a.fn)
    run, dt, h = (GETITEM(p, int2v(z3.IntVal(j))) for j in range(3))
    fuzzy = S.Or(S.truthy(a.fuzzy_for), S.truthy(a.fuzzy_for_options))
    accepted = S.truthy(r) if not z3.is_bool(r) else r
    lineage_ok = z3.Function("fn:_matches", V, V, V, V, z3.BoolSort())(
        S.getitem(S.call("method:get_metadata", S.getitem(S.attr(a.self, "backends"), 0), a.fn), "lineage"), S.attr(a.key, "lineage"),
        a.fuzzy_for, a.fuzzy_for_options)
    return [("a folder is accepted only for its own data type and - unless names are to be ignored - its own run",
             S.Implies(accepted, S.And(S.eq(dt, S.attr(a.key, "data_type")),
                                       S.Or(a.ignore_name, S.eq(run, S.attr(a.key, "_run_id")))))),
            ("without fuzzy matching only under the identical lineage hash",
             S.Implies(S.And(accepted, S.Not(fuzzy)), S.eq(h, S.attr(a.key, "lineage_hash")))),
            ("what is handed back is the folder's run id", S.Implies(accepted, S.eq(S.v(r) if not z3.is_bool(r) else run, run)))]


folder_matches = REG.add(Contract(
    FF, "DataDirectory._folder_matches",
    params=dict(self="V", fn="V", key="V", fuzzy_for="V", fuzzy_for_options="V", ignore_name="bool"),
    ensures=_fm_ens, raises={"Any": lambda S, a: S.true},
    calls={"self._parse_folder_name": _parse_hook, "self._matches": _matches_hook, ".get_metadata": Abstract(pure=True, may_raise=["Any"])},
))


# --------------------------------------------------------------------------------------
# Context.__add_lineage_to_plugin (child plugins): only tracked options of the child, plus name / version of the parents
# --------------------------------------------------------------------------------------
def _configs_store(eng, st, key, value, node):
    plugin = st.env["plugin"].t
    if "option_name" in st.env and key is st.env["option_name"]:
        takes = ATTR("takes_config")(plugin)
        eng.oblige("lineage", "an option enters a child plugin's lineage only if its Option is tracked (a child option that is not tracked "
                              "never enters a key)", st, truthy(ATTR("track")(GETITEM(takes, eng.to_v(key)))), node)
        eng.oblige("lineage", "with the value the plugin was configured with", st, eng.to_v(value) == eng.to_v(st.env["v"]), node)
    return st


add_lineage_child = REG.add(Contract(
    FC, "Context.__add_lineage_to_plugin", variant="child plugin",
    params=dict(self="V", run_id="V", plugin="V"),
    requires=lambda S, a: [("a child plugin", S.truthy(S.attr(a.plugin, "child_plugin")))],
    ensures=lambda S, a, r: [("the plugin's own lineage entry is set", a.ghost.own_entry)],
    raises={},
    ghost={"own_entry": z3.BoolVal(False), "merged": z3.Const("nothing_merged", V)},
    store_hooks={"attr:lineage": lambda eng, st, obj, v, node: St(st.env, st.heap, st.pc, {**st.ghost, "own_entry": z3.BoolVal(True)}),
                 "configs": _configs_store},
    calls={".update": _lineage_update, ".version": Abstract(pure=True)},
    loops={1: Loop(lambda S, a: []), 2: Loop(lambda S, a: []),
           3: Loop(lambda S, a: [("the own entry stays", a.ghost.own_entry)], body_ensures=lambda S, a: [
               ("the lineage of every dependency is merged in",
                S.eq(a.ghost.merged, S.attr(S.getitem(S.attr(a.plugin, "deps"), a.d_depends), "lineage")))])},
    loop_ghost={1: [], 2: [], 3: ["merged"]},
    local_sorts={"configs": "V"},
))


# --------------------------------------------------------------------------------------
# DataKey._run_id: the storage key of a superrun depends on its whole definition (C02, C14)
# --------------------------------------------------------------------------------------
def _dk_hash(eng, args, kw, st, fr, k, node):
    selfv = eng.to_v(st.env["self"])
    arg = args[0]
    ok = (isinstance(arg, tuple) and len(arg) == 2 and z3.And(
        eng.to_v(arg[0]) == z3.Function("attr_subruns", V, V)(selfv),
        eng.to_v(arg[1]) == z3.Function("attr_combining", V, V)(selfv)))
    eng.oblige("key", "the key of a superrun hashes its complete definition - the sub_run_spec (run ids AND the part selected of each) and "
                      "the combining flag - so that a redefined superrun never matches data stored for the old definition", st,
               ok if ok is not False else z3.BoolVal(False), node)
    g = dict(st.ghost)
    g["hashed"] = z3.BoolVal(True)
    return k(Opq(z3.Function("fn:deterministic_hash", V, V)(eng.to_v(list(arg)) if isinstance(arg, tuple) else eng.to_v(arg))),
             St(st.env, st.heap, st.pc, g))


datakey_run_id = REG.add(Contract(
    "strax/storage/common.py", "DataKey._run_id",
    params=dict(self="V"),
    ensures=lambda S, a, r: [("a superrun's key carries the hash of its definition (and only a superrun's)",
                              S.Iff(a.ghost.hashed, S.truthy(S.attr(a.self, "is_superrun"))))],
    raises={},
    ghost={"hashed": z3.BoolVal(False)},
    calls={"strax.deterministic_hash": _dk_hash},
))


# --------------------------------------------------------------------------------------
# Context._set_plugin_config: defaults are resolved into a COPY of the context's config (C02)
# --------------------------------------------------------------------------------------
def _validate_hook(eng, args, kw, st, fr, k, node):
    """opt.validate(config, run_id=..., run_defaults=...): writes the option's (per-run) default into the dict it is given"""
    selfv = eng.to_v(st.env["self"])
    cfg = z3.Function("attr_config", V, V)(selfv)
    given = eng.to_v(args[1]) if len(args) > 1 else eng.to_v(args[0])
    eng.oblige("config", "option defaults (also per-run defaults) are resolved into a copy of the context's configuration, never into "
                         "the context's own dict - what one run or one plugin resolves must not leak into the next", st,
               given == z3.Function("method:copy", V, V)(cfg), node)
    fr.on_raise(Exc("InvalidConfiguration", Opq(eng.fresh("invalid", "V"))), st)
    return k(PNONE, st)


set_plugin_config = REG.add(Contract(
    "strax/context.py", "Context._set_plugin_config",
    params=dict(self="V", p="V", run_id="V", tolerant="bool"),
    requires=lambda S, a: [("p is a plugin instance", S.is_instance(a.p, "strax.Plugin"))],
    ensures=lambda S, a, r: [], raises={"InvalidConfiguration": lambda S, a: S.Not(a.tolerant), "AssertionError": lambda S, a: S.true,
                                        "ValueError": lambda S, a: S.true},
    calls={"self._process_superrun_id": Abstract(pure=True, may_raise=["ValueError"]), ".validate": _validate_hook,
           "self.run_defaults": Abstract(pure=True)},
    store_hooks={"attr:config": lambda eng, st, obj, v, node: st, "p.config": lambda eng, st, key, v, node: st},
    loops={1: Loop(lambda S, a: []), 2: Loop(lambda S, a: [])},
))
