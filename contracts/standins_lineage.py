"""Bounded stand-ins for C02 on the real code: (a) after any sequence of option changes / re-registrations / makes on a
shared storage directory, get_array equals what a brand-new context with the same final settings and empty storage
computes, and storage keys change exactly for the affected type and its descendants; (b) StorageFrontend._matches accepts a
stored lineage exactly when it differs only in the fuzzy parts; (c) deterministic_hash does not depend on insertion order
or the hash seed.  Concrete-only; labelled bounded."""

import atexit
import contextlib
import io
import itertools
import logging
import os
import shutil
import subprocess
import sys
import tempfile
import warnings

import numpy as np

from pyvc.contract import Contract
from pyvc.harness import Harness

F = "strax/context.py"
_TMP_ROOT = tempfile.mkdtemp(prefix="verif_c02_")
atexit.register(lambda: shutil.rmtree(_TMP_ROOT, ignore_errors=True))
TYPES = ("ta", "tb", "tc")


def _mk_classes(spec):
    """spec: dict(a_name, a_default, a_version, b_default, b_version, c_version, c_deps)"""
    import strax
    dtype = strax.time_fields + [(("value", "v"), np.int64)]

    def a_compute(self, chunk_i):
        r = np.zeros(2, self.dtype)
        r["time"] = [chunk_i * 10, chunk_i * 10 + 1]
        r["endtime"] = r["time"] + 1
        r["v"] = self.config["a_opt"] + 1000 * int(self.__version__)
        return self.chunk(start=chunk_i * 10, end=chunk_i * 10 + 10, data=r)

    A = type(spec["a_name"], (strax.Plugin,), dict(
        provides="ta", depends_on=(), data_kind="k", dtype=dtype, rechunk_on_save=False, __version__=spec["a_version"],
        compute=a_compute, is_ready=lambda self, c: c < 2, source_finished=lambda self: True))
    A = strax.takes_config(strax.Option("a_opt", default=spec["a_default"], track=True),
                           strax.Option("a_untracked", default=0, track=False))(A)

    def b_compute(self, k):
        r = np.zeros(len(k), self.dtype)
        r["time"], r["endtime"] = k["time"], k["endtime"]
        r["v"] = k["v"] * 10 + self.config["b_opt"] + 100000 * int(self.__version__) + self.config["a_untracked_b"] * 0
        return r
    B = type("Bp", (strax.Plugin,), dict(provides="tb", depends_on=("ta",), data_kind="k", dtype=dtype, __version__=spec["b_version"],
                                         compute=b_compute))
    B = strax.takes_config(strax.Option("b_opt", default=spec["b_default"], track=True),
                           strax.Option("a_untracked_b", default=0, track=False))(B)

    def c_compute(self, k):
        r = np.zeros(len(k), self.dtype)
        r["time"], r["endtime"] = k["time"], k["endtime"]
        r["v"] = k["v"] * 10 + 7 + 1000000 * int(self.__version__)
        return r
    C = type("Cp", (strax.Plugin,), dict(provides="tc", depends_on=(spec["c_dep"],), data_kind="k", dtype=dtype,
                                         __version__=spec["c_version"], compute=c_compute))
    return {"ta": A, "tb": B, "tc": C}


BASE = dict(a_name="Ap", a_default=1, a_version="0", b_default=2, b_version="0", c_version="0", c_dep="tb")
# what a re-registration changes, and which data type's class it re-registers
REREG = {
    "A.default": ("ta", dict(a_default=5)),
    "A.classname": ("ta", dict(a_name="Ap2")),
    "A.version": ("ta", dict(a_version="1")),
    "B.default": ("tb", dict(b_default=6)),
    "B.version": ("tb", dict(b_version="1")),
    "C.version": ("tc", dict(c_version="1")),
    "C.deps": ("tc", dict(c_dep="ta")),
}
AFFECTS = {"ta": {"ta", "tb", "tc"}, "tb": {"tb", "tc"}, "tc": {"tc"}}


def _new_context(tmp, spec, config):
    import strax
    cl = _mk_classes(spec)
    st = strax.Context(storage=[strax.DataDirectory(tmp)], register=[cl[t] for t in TYPES], config=dict(config))
    st.set_context_config({"use_per_run_defaults": False})
    st.log.setLevel(logging.CRITICAL)
    return st


def _fresh_value(spec, config, target):
    tmp = tempfile.mkdtemp(dir=_TMP_ROOT)
    try:
        st = _new_context(tmp, spec, config)
        return st.get_array("0", target, progress_bar=False)["v"].tolist(), {t: str(st.key_for("0", t)) for t in TYPES}
    finally:
        shutil.rmtree(tmp, ignore_errors=True)


def _native(i):
    with contextlib.redirect_stdout(io.StringIO()), contextlib.redirect_stderr(io.StringIO()):
        return _native_(i)


def _native_(i):
    warnings.simplefilter("ignore")
    tmp = tempfile.mkdtemp(dir=_TMP_ROOT)
    spec, config = dict(BASE), {}
    log = []
    try:
        st = _new_context(tmp, spec, config)
        for op in i["ops"]:
            kind = op[0]
            if kind == "set":
                config[op[1]] = op[2]
                st.set_config({op[1]: op[2]})
            elif kind == "rereg":
                dt, ch = REREG[op[1]]
                spec.update(ch)
                st.register(_mk_classes(spec)[dt])
            elif kind == "new_context":
                st = _new_context(tmp, spec, config)
            elif kind in ("make", "get", "keys"):
                keys = {t: str(st.key_for("0", t)) for t in TYPES}
                want_v, want_keys = _fresh_value(spec, config, op[1] if kind != "keys" else "tc")
                rec = dict(op=list(op), keys=keys, want_keys=want_keys)
                if kind == "make":
                    st.make("0", op[1], progress_bar=False)
                elif kind == "get":
                    rec["got"] = st.get_array("0", op[1], progress_bar=False)["v"].tolist()
                    rec["want"] = want_v
                log.append(rec)
        return dict(error=None, log=log)
    except Exception as ex:  # noqa
        return dict(error=f"{type(ex).__name__}: {str(ex)[:200]}", log=log)
    finally:
        shutil.rmtree(tmp, ignore_errors=True)


def _ens(S, a, r):
    out = [("no error: " + str(r["error"]), r["error"] is None)]
    stale = [rec for rec in r["log"] if "got" in rec and rec["got"] != rec["want"]]
    out.append(("get_array returns what a brand-new context with the same final settings and empty storage computes"
                + (f" (after {stale[0]['op']}: got {stale[0]['got'][:2]}.. want {stale[0]['want'][:2]}..)" if stale else ""), not stale))
    badkeys = [rec for rec in r["log"] if rec["keys"] != rec["want_keys"]]
    out.append(("every storage key equals the key a brand-new context with the same settings derives", not badkeys))
    return out


def _key_native(i):
    """keys before / after one change, each in a brand-new context"""
    with contextlib.redirect_stdout(io.StringIO()), contextlib.redirect_stderr(io.StringIO()):
        warnings.simplefilter("ignore")
        spec, config = dict(BASE), {}
        _, before = _fresh_value(spec, config, "tc")
        op = i["op"]
        if op[0] == "set":
            config[op[1]] = op[2]
        else:
            spec.update(REREG[op[1]][1])
        _, after = _fresh_value(spec, config, "tc")
        return dict(before=before, after=after)


def _key_ens(S, a, r):
    op = a.op
    if op[0] == "set":
        affected = {"a_opt": AFFECTS["ta"], "b_opt": AFFECTS["tb"], "a_untracked": set(), "a_untracked_b": set()}[op[1]]
    else:
        affected = AFFECTS[REREG[op[1]][0]]
    changed = {t for t in TYPES if r["before"][t] != r["after"][t]}
    return [("the change alters the storage key of exactly the affected data type and its descendants (none for an untracked option)",
             changed == affected)]


def _key_gen(rng, tier):
    for o, v in (("a_opt", 3), ("b_opt", 4), ("a_untracked", 9), ("a_untracked_b", 9)):
        yield dict(op=["set", o, v])
    for name in REREG:
        yield dict(op=["rereg", name])


key_sensitivity = Contract(
    F, "Context.key_for (sensitivity)", params=dict(op="V"), ensures=_key_ens, raises={},
    harness=Harness(native=_key_native, gen=_key_gen,
                    scope="graph ta -> tb -> tc; one change out of {tracked option of ta / tb, untracked option of ta / tb, new default, "
                          "class name, version of each plugin, dependency of tc}; keys compared between two brand-new contexts",
                    nontrivial=lambda i: True))


def _gen(rng, tier):
    sets = [("set", "a_opt", 3), ("set", "b_opt", 4), ("set", "a_untracked", 9)]
    reregs = [("rereg", n) for n in REREG]
    uses = [("make", "tc"), ("get", "tc"), ("get", "tb"), ("make", "tb")]
    seqs = []
    # store under the base settings, change one thing, ask again (same context / new context)
    for ch in sets + reregs:
        for first in (("make", "tc"), ("get", "tc")):
            seqs.append([first, ch, ("get", "tc")])
            seqs.append([first, ch, ("new_context",), ("get", "tc")])
            seqs.append([first, ch, ("get", "tb"), ("get", "tc")])
    # change, store, change back?, ask
    for c1, c2 in itertools.permutations(sets + reregs[:4], 2):
        seqs.append([("get", "tc"), c1, ("make", "tc"), c2, ("get", "tc")])
    rng.shuffle(seqs)
    n = 24 if tier == "quick" else len(seqs)
    for s in seqs[:n]:
        yield dict(ops=[list(x) for x in s])
    if tier == "thorough":
        pool = sets + reregs + uses + [("new_context",)]
        for _ in range(300):
            yield dict(ops=[list(rng.choice(pool)) for _ in range(rng.randint(3, 7))] + [["get", "tc"]])


no_stale_reads = Contract(
    F, "Context.get_array (shared storage, changing settings)", params=dict(ops="V"), ensures=_ens, raises={},
    harness=Harness(native=_native, gen=_gen,
                    scope="graph ta -> tb -> tc on one DataDirectory; operation sequences over {set tracked / untracked option, re-register "
                          "a same-named class with another default / version / class name / dependency, new context on the same directory, "
                          "make, get_array}; quick: 24 three-to-five-step sequences, thorough: all 174 structured + 300 random sequences "
                          "of length 4..8; every get_array compared with a brand-new context on empty storage",
                    nontrivial=lambda i: any(o[0] in ("set", "rereg") for o in i["ops"])))


# ---- _matches: fuzzy acceptance is exact ---------------------------------------------------------------------------
def _matches_native(i):
    import strax
    sf = strax.StorageFrontend()
    import copy
    lin, des = copy.deepcopy(i["lineage"]), copy.deepcopy(i["desired"])
    res = bool(sf._matches(lin, des, tuple(i["fuzzy_for"]), tuple(i["fuzzy_for_options"])))
    # the lineages handed in are shared with the cached plugins of the context: matching must not modify them
    return res, (lin == i["lineage"] and des == i["desired"])


def _differs_only_in_fuzzy(lin, des, ff, ffo):
    if set(lin) - set(ff) != set(des) - set(ff):
        return False
    for dt in set(lin) - set(ff):
        a, b = lin[dt], des[dt]
        if a[0] != b[0] or a[1] != b[1]:
            return False
        oa = {k: v for k, v in a[2].items() if k not in ffo}
        ob = {k: v for k, v in b[2].items() if k not in ffo}
        if oa != ob:
            return False
    return True


def _matches_ens(S, a, r):
    return [("stored data is accepted exactly when its lineage differs from the requested one only in the fuzzy data types / options",
             bool(r[0]) == _differs_only_in_fuzzy(a.lineage, a.desired, a.fuzzy_for, a.fuzzy_for_options)),
            ("matching leaves both lineages as they were (they are shared with the context's plugins)", bool(r[1]))]


def _lineages():
    out = []
    for cls_a, ver_a, o1, cls_b, o2 in itertools.product(("A", "A2"), ("0", "1"), (1, 2), ("B",), (1, 2)):
        out.append({"ta": (cls_a, ver_a, {"o1": o1}), "tb": (cls_b, "0", {"o2": o2, "o1": o1})})
    out.append({"ta": ("A", "0", {"o1": 1})})
    out.append({"ta": ("A", "0", {}), "tb": ("B", "0", {"o2": 1})})
    return out


def _matches_gen(rng, tier):
    ls = _lineages()
    fuzz = [((), ()), (("ta",), ()), (("tb",), ()), ((), ("o1",)), ((), ("o2",)), (("ta",), ("o2",)), (("ta", "tb"), ())]
    pairs = list(itertools.product(ls, ls))
    rng.shuffle(pairs)
    for lin, des in pairs[: (60 if tier == "quick" else len(pairs))]:
        for ff, ffo in fuzz:
            yield dict(lineage=lin, desired=des, fuzzy_for=list(ff), fuzzy_for_options=list(ffo))


matches_exact = Contract(
    "strax/storage/common.py", "StorageFrontend._matches (exactness)",
    params=dict(lineage="V", desired="V", fuzzy_for="V", fuzzy_for_options="V"), ensures=_matches_ens, raises={},
    harness=Harness(native=_matches_native, gen=_matches_gen,
                    scope="pairs of lineages over 2 data types x {2 class names, 2 versions, option values 1..2, shared option, missing type / "
                          "option} x 7 fuzzy settings (quick: 60 pairs, thorough: all 324)",
                    nontrivial=lambda i: bool(i["fuzzy_for"] or i["fuzzy_for_options"])))


# ---- deterministic_hash: independent of insertion order and of the process' hash seed -------------------------------
_HASH_SNIPPET = r"""
import sys, json
sys.path.insert(0, sys.argv[1])
import strax
from immutabledict import immutabledict
things = json.loads(sys.argv[2])
def build(t, rev):
    if isinstance(t, dict):
        items = list(t.items())
        if rev: items = items[::-1]
        return {k: build(v, rev) for k, v in items}
    if isinstance(t, list):
        return tuple(build(x, rev) for x in t)
    return t
print(json.dumps([[strax.deterministic_hash(build(t, False)), strax.deterministic_hash(build(t, True)),
                   strax.deterministic_hash(immutabledict(build(t, True))) if isinstance(t, dict) else None] for t in things]))
"""


def _hash_native(i):
    import json
    import strax
    repo = os.path.dirname(os.path.dirname(strax.__file__))
    res = []
    for seed in i["seeds"]:
        out = subprocess.run([sys.executable, "-c", _HASH_SNIPPET, repo, json.dumps(i["things"])],
                             env=dict(os.environ, PYTHONHASHSEED=str(seed)), capture_output=True, text=True, timeout=300)
        if out.returncode != 0:
            return dict(error=out.stderr[-300:])
        res.append(json.loads(out.stdout.strip().splitlines()[-1]))
    return dict(error=None, hashes=res)


def _hash_ens(S, a, r):
    if r["error"]:
        return [("hashing works: " + r["error"], False)]
    h = r["hashes"]
    same_seeds = all(x == h[0] for x in h)
    same_order = all(row[0] == row[1] and (row[2] is None or row[2] == row[0]) for row in h[0])
    distinct = len({row[0] for row in h[0]}) == len(h[0])
    return [("the hash is identical across processes with different hash seeds", same_seeds),
            ("the hash does not depend on dict insertion order (nor on dict vs immutabledict)", same_order),
            ("different lineages hash differently", distinct)]


def _hash_gen(rng, tier):
    things = [{"ta": ["A", "0", {"o1": 1, "o2": 2, "zz": [1, 2]}], "tb": ["B", "0", {"x": "s", "a": 1.5}]},
              {"ta": ["A", "0", {"o1": 1, "o2": 3, "zz": [1, 2]}], "tb": ["B", "0", {"x": "s", "a": 1.5}]},
              {"ta": ["A", "1", {"o1": 1, "o2": 2, "zz": [1, 2]}], "tb": ["B", "0", {"x": "s", "a": 1.5}]},
              {"tb": ["B", "0", {"x": "s", "a": 1.5}]},
              {"k": {"nested": {"b": 1, "a": 2}, "c": [3, {"e": 1, "d": 2}]}},
              # option values that compare equal in Python but are different settings (hashed one after the other in one process)
              {"tc": ["C", "0", {"o": 1}]}, {"tc": ["C", "0", {"o": 1.0}]}, {"tc": ["C", "0", {"o": True}]},
              {"tc": ["C", "0", {"o": 0}]}, {"tc": ["C", "0", {"o": False}]}]
    yield dict(things=things, seeds=[0, 1, 12345] if tier == "quick" else [0, 1, 2, 3, 12345, 999])


hash_stable = Contract(
    "strax/utils.py", "deterministic_hash (stability)", params=dict(things="V", seeds="V"), ensures=_hash_ens, raises={},
    harness=Harness(native=_hash_native, gen=_hash_gen,
                    scope="10 lineage-like container hierarchies (five of them differing only in 1 / 1.0 / True / 0 / False), forward / reversed insertion order / immutabledict, in subprocesses with "
                          "3 (thorough: 6) different PYTHONHASHSEED values",
                    nontrivial=lambda i: True))
