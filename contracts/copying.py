"""Contracts for C16: copy_to_frontend (one fresh loader per target), merge_per_chunk_storage (under which key the merged data
is filed), dry_load_files (which chunks are read)."""

import z3

from pyvc.contract import Contract, Loop, REG
from pyvc.engine import Opq, PNONE, V, St, Exc, int2v
from pyvc.library import Abstract, plain_with

FC = "strax/context.py"
NONE = z3.Const("None", V)
LEN = z3.Function("len", V, z3.IntSort())


# --------------------------------------------------------------------------------------
# Context.copy_to_frontend
# --------------------------------------------------------------------------------------
def _new_loader(eng, args, kw, st, fr, k, node):
    g = dict(st.ghost)
    g["n_loaders"] = g["n_loaders"] + 1
    ld = eng.fresh("loader", "V")
    g["cur_loader"] = ld
    return k(Opq(ld), St(st.env, st.heap, st.pc, g))


def _wrapped_loader(eng, args, kw, st, fr, k, node):
    """wrapped_loader(): yields the chunks of the loader bound when it is called (closure over the loop variable)"""
    w = eng.fresh("wrapped", "V")
    g = dict(st.ghost)
    g["wrapped_of"] = eng.to_v(st.env["loader"]) if "loader" in st.env else NONE
    g["wrapped"] = w
    return k(Opq(w), St(st.env, st.heap, st.pc, g))


def _ctf_save_from(eng, args, kw, st, fr, k, node):
    g = st.ghost
    eng.oblige("copy", "every target is filled from a loader of its own (a loader is a generator: a second target would get nothing)", st,
               z3.And(eng.to_v(args[-1]) == g["wrapped"], g["wrapped_of"] == g["cur_loader"], g["n_loaders"] == g["n_saved"] + g["n_skipped"] + 1), node)
    eng.oblige("copy", "rechunking is done exactly when asked for", st, eng.truth(kw.get("rechunk", z3.BoolVal(True))) == eng.truth(st.env["rechunk"]), node)
    g2 = dict(g)
    g2["n_saved"] = g["n_saved"] + 1
    g3 = dict(g)
    g3["n_skipped"] = g["n_skipped"] + 1          # a saver that refuses (NotImplementedError) counts as a skipped target
    fr.on_raise(Exc("Any", Opq(eng.fresh("save_exc", "V"))), St(st.env, st.heap, st.pc, g3))
    return k(PNONE, St(st.env, st.heap, st.pc, g2))


def _ctf_find(eng, args, kw, st, fr, k, node):
    """t_sf.find(data_key, write=True): may refuse (NotImplementedError) or report existing data"""
    eng.oblige("copy", "the target location is asked for WRITING, under the key of the source data", st,
               z3.And(eng.truth(kw.get("write", z3.BoolVal(False))), eng.to_v(args[-1]) == eng.to_v(st.env["data_key"])), node)
    g = dict(st.ghost)
    g["n_skipped"] = g["n_skipped"] + 1
    fr.on_raise(Exc("NotImplementedError"), St(st.env, st.heap, st.pc, g))
    fr.on_raise(Exc("DataExistsError"), st)
    return k((Opq(eng.fresh("t_be_str", "V")), Opq(eng.fresh("t_be_key", "V"))), st)


copy_to_frontend = REG.add(Contract(
    FC, "Context.copy_to_frontend",
    params=dict(self="V", run_id="V", target="V", target_frontend_id="V", target_compressor="V", rechunk="bool", rechunk_to_mb="V"),
    ensures=lambda S, a, r: [("one loader per target frontend tried", a.ghost.n_loaders == a.ghost.n_saved + a.ghost.n_skipped)],
    raises={"ValueError": lambda S, a: S.true, "DataExistsError": lambda S, a: S.true, "Any": lambda S, a: S.true},
    ghost={"n_loaders": z3.IntVal(0), "n_saved": z3.IntVal(0), "n_skipped": z3.IntVal(0), "cur_loader": z3.Const("no_loader", V),
           "wrapped": z3.Const("no_wrapped", V), "wrapped_of": z3.Const("no_wrapped_of", V)},
    calls={"s_be.loader": _new_loader, "wrapped_loader": _wrapped_loader, "saver.save_from": _ctf_save_from, "t_sf.find": _ctf_find,
           "self._check_copy_to_frontend_kwargs": Abstract(sort=None, may_raise=["ValueError"]),
           "self.get_source_sf": Abstract(), "self._get_target_sf": Abstract(), "self.log.info": Abstract(sort=None),
           "self.key_for": Abstract(pure=True), "source_sf.find": Abstract(), "source_sf._get_backend": Abstract(),
           "s_be.get_metadata": Abstract(), "md.update": Abstract(sort=None), "t_sf._get_backend": Abstract(), "target_be._saver": Abstract()},
    loops={1: Loop(lambda S, a: [("so far one loader per target tried", a.ghost.n_loaders == a.ghost.n_saved + a.ghost.n_skipped)])},
    loop_ghost={1: ["n_loaders", "n_saved", "n_skipped", "cur_loader", "wrapped", "wrapped_of"]},
    local_sorts={"loader": "V"},
))


# --------------------------------------------------------------------------------------
# Context.merge_per_chunk_storage: the key under which the merged data is filed
# --------------------------------------------------------------------------------------
MIN = z3.Function("fn:min", V, V)
MAX = z3.Function("fn:max", V, V)
V2INT = z3.Function("v2int", V, z3.IntSort())


def _mpc_key_for(eng, args, kw, st, fr, k, node):
    cn = kw.get("chunk_number", PNONE)
    env = st.env
    if "target_md" not in env and "_chunk_number" in env and cn is env["_chunk_number"] or ("_chunk_number" in env and cn is env.get("_chunk_number")):
        grp = env["chunk_number_group"]
        combined = env.get("combined_chunk_numbers")
        chunks = env["chunks"]
        from pyvc.engine import DictLit
        is_full = z3.BoolVal(False) if isinstance(cn, DictLit) else eng.equal(cn, PNONE)
        if combined is not None:
            cv = eng.to_v(combined)
            spans_all = z3.And(V2INT(MIN(cv)) == 0, V2INT(MAX(cv)) == LEN(eng.to_v(chunks)) - 1)
            eng.oblige("per-chunk merge", "the merged data is filed under the key of the COMPLETE data type only if the groups given reach "
                                          "from the first to the last chunk of the dependency", st, z3.Implies(is_full, spans_all), node)
        else:
            eng.oblige("per-chunk merge", "without explicit groups every chunk of the dependency is merged: the complete key", st, is_full, node)
        g = dict(st.ghost)
        g["keyed"] = z3.BoolVal(True)
        st = St(st.env, st.heap, st.pc, g)
    return k(Opq(eng.fresh("data_key", "V")), st)


merge_per_chunk = REG.add(Contract(
    FC, "Context.merge_per_chunk_storage",
    params=dict(self="V", run_id="V", target="V", per_chunked_dependency="V", chunk_number_group="V", rechunk="bool", rechunk_to_mb="V",
                target_frontend_id="V", target_compressor="V", check_is_stored="bool"),
    ensures=lambda S, a, r: [("the key of the merged data was decided by this function", a.ghost.keyed)],
    raises={"ValueError": lambda S, a: S.true, "AssertionError": lambda S, a: S.true, "Any": lambda S, a: S.true},
    ghost={"keyed": z3.BoolVal(False)},
    calls={"self.key_for": _mpc_key_for, "self.is_stored": Abstract(sort="bool", pure=True),
           "self._check_merge_per_chunk_storage_kwargs": Abstract(sort=None, may_raise=["ValueError"]),
           "self.get_metadata": Abstract(), "itertools.chain.from_iterable": Abstract(pure=True), "list": Abstract(pure=True),
           "set": Abstract(pure=True), "min": lambda eng, a, kw, st, fr, k, node: k(Opq(MIN(eng.to_v(a[0]))), st),
           "max": lambda eng, a, kw, st, fr, k, node: k(Opq(MAX(eng.to_v(a[0]))), st),
           "self._get_target_sf": Abstract(), "self._Context__get_plugin": Abstract(), "self.__get_plugin": Abstract(),
           "target_plugin.metadata": Abstract(), ".__repr__": Abstract(), "t_sf.find": Abstract(may_raise=["Any"]), "t_sf._get_backend": Abstract(),
           "target_be._saver": Abstract(), "saver.save_from": Abstract(sort=None, may_raise=["Any"]), "wrapped_loader": Abstract()},
    store_hooks={"target_md": lambda eng, st, key, value, node: st},
    loops={1: Loop(lambda S, a: []), 2: Loop(lambda S, a: [("key decided", a.ghost.keyed)])},
    loop_ghost={1: [], 2: []},
    local_sorts={"chunk_number_group": "V"},
))


# --------------------------------------------------------------------------------------
# dry_load_files: which chunks are read
# --------------------------------------------------------------------------------------
def _tqdm_hook(eng, args, kw, st, fr, k, node):
    g = dict(st.ghost)
    g["py:iterated"] = args[0]
    g["iter_set"] = z3.BoolVal(True)
    return k(args[0], St(st.env, st.heap, st.pc, g))


def _dlf_ens(S, a, r):
    it = a.pyghost.get("py:iterated")
    given = a.chunk_numbers
    if isinstance(it, list):
        return [("a single chunk number selects exactly that chunk", S.And(S.Not(S.is_none(given)), S.b(len(it) == 1 and it[0].t.eq(given))))]
    return [("None selects every chunk, a list / tuple exactly the chunks it names",
             S.If(S.is_none(given), S.b(it is not None and "fn:list" in str(it.t)), S.eq(S.v(it.t), given)))]


dry_load_files = REG.add(Contract(
    "strax/io.py", "dry_load_files",
    params=dict(dirname="V", chunk_numbers="V", disable="V", kwargs={}),
    ensures=_dlf_ens,
    raises={"ValueError": lambda S, a: S.Not(S.is_none(a.chunk_numbers)), "Any": lambda S, a: S.true},
    ghost={"iter_set": z3.BoolVal(False)},
    calls={"tqdm": _tqdm_hook, "strax.storage.files.dirname_to_prefix": Abstract(pure=True), "os.path.join": Abstract(pure=True),
           "open": Abstract(), "json.loads": Abstract(), "f.read": Abstract(), "literal_eval": Abstract(pure=True),
           "load_chunk": Abstract(may_raise=["Any"]), "strax.apply_selection": Abstract(may_raise=["Any"]), "results.append": Abstract(sort=None),
           "np.hstack": Abstract(pure=True), "np.empty": Abstract(pure=True), "max": Abstract(pure=True), "min": Abstract(pure=True),
           "list": lambda eng, a, kw, st, fr, k, node: k(Opq(z3.Function("fn:list", V, V)(eng.to_v(a[0]) if not hasattr(a[0], "lo") else
                                                             z3.Function("fn:range", z3.IntSort(), V)(a[0].hi))), st)},
    consts={"RUN_METADATA_PATTERN": "%s-metadata.json"},
    with_handler=plain_with,
    loops={1: Loop(lambda S, a: [])},
    loop_ghost={1: []},
    local_sorts={"results": "V"},
))
