"""Contracts for strax/processing/general.py (interval primitives, C17 / C07)."""

import z3
from pyvc.contract import Contract, Loop, REG
from pyvc.engine import RowsT, ArrT

F = "strax/processing/general.py"

# --------------------------------------------------------------------------------------
# overlap_indices (loop-free: the proof is complete over all integers)
# --------------------------------------------------------------------------------------


def _ov_ens(S, a, r):
    (a_start, a_end), (b_start, b_end) = r
    a1, n_a, b1, n_b = a.a1, a.n_a, a.b1, a.n_b
    # set-theoretic definition: position k of a overlaps iff b1 <= a1 + k < b1 + n_b
    in_b = lambda k: S.And(b1 <= a1 + k, a1 + k < b1 + n_b)
    in_a = lambda k: S.And(a1 <= b1 + k, b1 + k < a1 + n_a)
    return [
        ("a-range lies inside [0, n_a]", S.And(0 <= a_start, a_start <= a_end, a_end <= n_a)),
        ("b-range lies inside [0, n_b]", S.And(0 <= b_start, b_start <= b_end, b_end <= n_b)),
        ("a-range is exactly the positions of a that lie in b",
         S.forall(0, n_a, lambda k: S.Iff(S.And(a_start <= k, k < a_end), in_b(k)))),
        ("b-range is exactly the positions of b that lie in a",
         S.forall(0, n_b, lambda k: S.Iff(S.And(b_start <= k, k < b_end), in_a(k)))),
        ("empty intersection is reported as (0,0),(0,0)",
         S.Implies(S.Or(a_start >= a_end, b_start >= b_end),
                   S.And(a_start == 0, a_end == 0, b_start == 0, b_end == 0))),
        ("both ranges have the same length", a_end - a_start == b_end - b_start),
    ]


overlap_indices = REG.add(Contract(
    F, "overlap_indices",
    params=dict(a1="int", n_a="int", b1="int", n_b="int"),
    requires=None,
    ensures=lambda S, a, r: _ov_ens(S, a, r) + [
        ("normal return only for non-negative lengths", S.And(a.n_a >= 0, a.n_b >= 0))],
    raises={"ValueError": lambda S, a: S.Or(a.n_a < 0, a.n_b < 0)},
    call_names=("overlap_indices", "strax.overlap_indices"),
    returns=(("int", "int"), ("int", "int")),
))


# --------------------------------------------------------------------------------------
# _fc_in : core of fully_contained_in
# --------------------------------------------------------------------------------------
def _fc_ok_upto(S, a, n):
    """result[0..n) equals the quadratic definition: THE container index, or -1 if none contains."""
    nb = a.b_starts.n
    res = a.result
    return S.And(
        S.forall(0, n, lambda i: S.Or(
            res.at(i) == -1,
            S.And(0 <= res.at(i), res.at(i) < nb,
                  a.b_starts.at(res.at(i)) <= a.a_starts.at(i), a.a_ends.at(i) <= a.b_ends.at(res.at(i))))),
        S.forall2(0, n, 0, nb, lambda i, c: S.Implies(
            S.And(a.b_starts.at(c) <= a.a_starts.at(i), a.a_ends.at(i) <= a.b_ends.at(c)),
            res.at(i) == c)))


def _fc_requires(S, a):
    na, nb = a.a_starts.n, a.b_starts.n
    return [
        ("equal lengths", S.And(a.a_ends.n == na, a.result.n == na, a.b_ends.n == nb)),
        ("things have positive duration (law 4)", S.forall(0, na, lambda i: a.a_ends.at(i) > a.a_starts.at(i))),
        ("things sorted by time", S.forall2(0, na, 0, na, lambda i, j: S.Implies(i <= j, a.a_starts.at(i) <= a.a_starts.at(j)))),
        ("containers have non-negative length", S.forall(0, nb, lambda j: a.b_ends.at(j) >= a.b_starts.at(j))),
        ("containers pairwise disjoint and sorted",
         S.forall2(0, nb, 0, nb, lambda j, c: S.Implies(j < c, a.b_ends.at(j) <= a.b_starts.at(c)))),
        ("result initialised to -1", S.forall(0, na, lambda i: a.result.at(i) == -1)),
    ]


def _fc_inv_outer(S, a):
    k, nb, na = a.k_, a.b_starts.n, a.a_starts.n
    return [
        ("b_i in range", S.And(0 <= a.b_i, a.b_i <= nb)),
        ("result correct below a_i", _fc_ok_upto(S, a, k)),
        ("result untouched from a_i on", S.forall(k, na, lambda i: a.result.at(i) == -1)),
        ("skipped containers end before the current thing",
         S.forall(0, a.b_i, lambda c: S.Implies(k < na, a.b_ends.at(c) <= a.a_starts.at(k)))),
        ("skipped containers end before the previous thing",
         S.forall(0, a.b_i, lambda c: S.Implies(k > 0, a.b_ends.at(c) <= a.a_starts.at(k - 1)))),
    ]


def _fc_inv_inner(S, a):
    nb, na = a.b_starts.n, a.a_starts.n
    return [
        ("b_i in range", S.And(0 <= a.b_i, a.b_i <= nb)),
        ("a_i in range", S.And(0 <= a.a_i, a.a_i < na)),
        ("result correct below a_i", _fc_ok_upto(S, a, a.a_i)),
        ("result untouched from a_i on", S.forall(a.a_i, na, lambda i: a.result.at(i) == -1)),
        ("skipped containers end before the current thing",
         S.forall(0, a.b_i, lambda c: a.b_ends.at(c) <= a.a_starts.at(a.a_i))),
    ]


fc_in = REG.add(Contract(
    F, "_fc_in",
    params=dict(a_starts=ArrT("int"), b_starts=ArrT("int"), a_ends=ArrT("int"), b_ends=ArrT("int"),
                result=ArrT("int")),
    requires=_fc_requires,
    ensures=lambda S, a, r: [
        ("result[i] is the unique containing container, or -1 iff none contains thing i",
         _fc_ok_upto(S, a, a.a_starts.n))],
    raises={},
    loops={1: Loop(_fc_inv_outer), 2: Loop(_fc_inv_inner, variant=lambda S, a: a.b_starts.n - a.b_i)},
    modifies=["result"],
    call_names=("_fc_in",),
))


# --------------------------------------------------------------------------------------
# _touching_windows
# --------------------------------------------------------------------------------------
def _tw_left_ok(S, a, c, lo):
    """lo = first thing index whose end lies after container c's start minus the window (or n)."""
    n, w = a.thing_start.n, a.window
    return S.And(0 <= lo, lo <= n,
                 S.forall(0, lo, lambda k: a.thing_end.at(k) <= a.container_start.at(c) - w),
                 S.Implies(lo < n, a.thing_end.at(lo) > a.container_start.at(c) - w))


def _tw_right_ok(S, a, c, hi):
    """hi = number of leading things that start before container c's end plus the window."""
    n, w = a.thing_start.n, a.window
    return S.And(0 <= hi, hi <= n,
                 S.forall(0, hi, lambda k: a.thing_start.at(k) < a.container_end.at(c) + w),
                 S.Implies(hi < n, a.thing_start.at(hi) >= a.container_end.at(c) + w))


def _tw_requires(S, a):
    n, m = a.thing_start.n, a.container_start.n
    return [("equal lengths", S.And(a.thing_end.n == n, a.container_end.n == m)),
            ("container starts sorted",
             S.forall2(0, m, 0, m, lambda i, j: S.Implies(i <= j, a.container_start.at(i) <= a.container_start.at(j))))]


def _tw_touches(S, a, k, c):
    w = a.window
    return S.And(a.thing_end.at(k) > a.container_start.at(c) - w, a.thing_start.at(k) < a.container_end.at(c) + w)


def _tw_ensures(S, a, r):
    n, m = a.thing_start.n, a.container_start.n
    sorted_things = S.And(
        S.forall2(0, n, 0, n, lambda i, j: S.Implies(i <= j, a.thing_start.at(i) <= a.thing_start.at(j))),
        S.forall2(0, n, 0, n, lambda i, j: S.Implies(i <= j, a.thing_end.at(i) <= a.thing_end.at(j))))
    return [
        ("one (start, stop) pair per container", r.n == m),
        ("result[c,0] is the first thing ending after the container start minus window",
         S.forall(0, m, lambda c: _tw_left_ok(S, a, c, r.at2(c, 0)))),
        ("result[c,1] counts the things starting before the container end plus window",
         S.forall(0, m, lambda c: _tw_right_ok(S, a, c, r.at2(c, 1)))),
        ("for things sorted by start and end: lo <= k < hi  <=>  thing k touches container c within window",
         S.Implies(sorted_things, S.forall2(0, m, 0, n, lambda c, k: S.Iff(
             S.And(r.at2(c, 0) <= k, k < r.at2(c, 1)), _tw_touches(S, a, k, c))))),
        ("only mergesort is accepted for the end-time sort", _is_mergesort(S, a)),
    ]


def _is_mergesort(S, a):
    return S.eq_str(a.endtime_sort_kind, "mergesort")


def _tw_inv1(S, a):
    k, n, m, w = a.k_, a.thing_start.n, a.container_start.n, a.window
    return [
        ("left_i in range", S.And(0 <= a.left_i, a.left_i <= n, a.n == n, a.right_i == 0)),
        ("result has one row per container", a.result.n == m),
        ("left_i starts at 0", S.Implies(k == 0, a.left_i == 0)),
        ("things before left_i end before the previous container's window",
         S.Implies(k > 0, S.forall(0, a.left_i, lambda j: a.thing_end.at(j) <= a.container_start.at(k - 1) - w))),
        ("left column correct for containers done", S.forall(0, k, lambda c: _tw_left_ok(S, a, c, a.result.at2(c, 0)))),
    ]


def _tw_inv2(S, a):
    n, w = a.thing_start.n, a.window
    return [("left_i in range", S.And(0 <= a.left_i, a.left_i <= n)),
            ("things before left_i end before this container's window",
             S.forall(0, a.left_i, lambda j: a.thing_end.at(j) <= a.t0 - w))]


def _tw_inv3(S, a):
    k, n, m, w = a.k_, a.thing_start.n, a.container_start.n, a.window
    perm = a.container_end_argsort
    return [
        ("right_i in range", S.And(0 <= a.right_i, a.right_i <= n, a.n == n)),
        ("result has one row per container", a.result.n == m),
        ("right_i starts at 0", S.Implies(k == 0, a.right_i == 0)),
        ("things before right_i start before the previous (in end order) container's window",
         S.Implies(k > 0, S.forall(0, a.right_i, lambda j: a.thing_start.at(j) < a.container_end.at(perm.at(k - 1)) + w))),
        ("left column still correct", S.forall(0, m, lambda c: _tw_left_ok(S, a, c, a.result.at2(c, 0)))),
        ("right column correct for containers done (those whose rank in end order is below k)",
         S.forall(0, m, lambda c: S.Implies(S.inverse_perm(perm).at(c) < k, _tw_right_ok(S, a, c, a.result.at2(c, 1))))),
    ]


def _tw_inv4(S, a):
    n, w = a.thing_start.n, a.window
    return [("right_i in range", S.And(0 <= a.right_i, a.right_i <= n)),
            ("things before right_i start before this container's window",
             S.forall(0, a.right_i, lambda j: a.thing_start.at(j) < a.t1 + w))]


touching_windows_core = REG.add(Contract(
    F, "_touching_windows",
    params=dict(thing_start=ArrT("int"), thing_end=ArrT("int"), container_start=ArrT("int"),
                container_end=ArrT("int"), window="int", endtime_sort_kind="V"),
    requires=_tw_requires,
    ensures=_tw_ensures,
    raises={"SortingError": lambda S, a: S.Not(_is_mergesort(S, a))},
    loops={1: Loop(_tw_inv1), 2: Loop(_tw_inv2, variant=lambda S, a: a.thing_start.n - a.left_i),
           3: Loop(_tw_inv3), 4: Loop(_tw_inv4, variant=lambda S, a: a.thing_start.n - a.right_i)},
    call_names=("_touching_windows",),
    returns=ArrT("int", dims=2),
))


# --------------------------------------------------------------------------------------
# diff: gap between each row's start and the running maximum of the earlier ends
# --------------------------------------------------------------------------------------
from contracts.chunk import INTERVALS, sorted_by_time, positive_duration  # noqa: E402
from contracts import lemmas as L  # noqa: E402


def _diff_ok(S, d, r, upto):
    return S.forall(0, upto, lambda i: S.And(
        S.forall(0, i + 1, lambda j: r.at(i) <= d.f("time", i + 1) - d.f("endtime", j)),
        S.exists(0, i + 1, lambda j: r.at(i) == d.f("time", i + 1) - d.f("endtime", j))))


def _diff_inv(S, a):
    d, k = a.data, a.k_
    m = S.max(k, 1)
    return [("shape", S.And(d.n >= 1, a.results.n == d.n - 1)),
            ("max_endtime is the maximum end of rows 0..max(k,1)-1",
             S.And(S.forall(0, m, lambda j: d.f("endtime", j) <= a.max_endtime),
                   S.exists(0, m, lambda j: d.f("endtime", j) == a.max_endtime))),
            ("results correct below k", _diff_ok(S, d, a.results, k))]


diff = REG.add(Contract(
    F, "diff",
    params=dict(data=INTERVALS),
    ensures=lambda S, a, r: [
        ("one gap per consecutive pair", r.n == S.max(a.data.n - 1, 0)),
        ("result[i] = time[i+1] - max(endtime[0..i])", _diff_ok(S, a.data, r, r.n))],
    raises={},
    loops={1: Loop(_diff_inv)},
    call_names=("diff", "strax.diff"),
    returns=ArrT("int"),
))


# --------------------------------------------------------------------------------------
# _find_break_i / from_break
# --------------------------------------------------------------------------------------
def _fb_no_break_at(S, d, i, sb, nb):
    """row i does NOT start a safe break: time[i] - sb lies before max(not_before, ends of rows < i)."""
    return S.Or(d.f("time", i) - sb < nb, S.exists(0, i, lambda j: d.f("time", i) - sb < d.f("endtime", j)))


def _fb_break_at(S, d, i, sb, nb):
    return S.And(d.f("time", i) - sb >= nb, S.forall(0, i, lambda j: d.f("time", i) - sb >= d.f("endtime", j)))


def _fbi_inv(S, a):
    d, k, Lm = a.data, a.k_, a.latest_end_seen
    m = S.max(k, 1)
    return [("at least two rows", d.n >= 2),
            ("latest_end_seen = max(not_before, ends of rows 0..max(k,1)-1)",
             S.And(Lm >= a.not_before, S.forall(0, m, lambda j: Lm >= d.f("endtime", j)),
                   S.Or(Lm == a.not_before, S.exists(0, m, lambda j: Lm == d.f("endtime", j))))),
            ("no earlier row starts a safe break",
             S.forall(1, k, lambda i: _fb_no_break_at(S, d, i, a.safe_break, a.not_before)))]


find_break_i = REG.add(Contract(
    F, "_find_break_i",
    params=dict(data=INTERVALS, safe_break="int", not_before="int"),
    ensures=lambda S, a, r: [
        ("index of a later row", S.And(1 <= r, r < a.data.n)),
        ("row r starts at least safe_break after max(not_before, all earlier ends)",
         _fb_break_at(S, a.data, r, a.safe_break, a.not_before)),
        ("it is the FIRST such row",
         S.forall(1, r, lambda i: _fb_no_break_at(S, a.data, i, a.safe_break, a.not_before)))],
    raises={"AssertionError": lambda S, a: a.data.n < 2,
            "NoBreakFound": lambda S, a: S.And(a.data.n >= 2, S.forall(
                1, a.data.n, lambda i: _fb_no_break_at(S, a.data, i, a.safe_break, a.not_before)))},
    loops={1: Loop(_fbi_inv)},
    call_names=("_find_break_i",),
    make_result=lambda eng, st, bound: (eng.fresh("break_i"), st),
))


def _from_break_ens(S, a, r):
    part, bt = r
    d = a.x
    # the break index is determined by the returned slice
    bi = S.If(a.left, part.n, d.n - part.n)
    return [
        ("options", S.And(S.Not(a.tolerant), d.n >= 2)),
        ("break index in range", S.And(1 <= bi, bi < d.n)),
        ("returned rows are the left / right side of the break",
         S.If(a.left, S.is_slice(part, d, 0, bi), S.is_slice(part, d, bi, d.n - bi))),
        ("break time is the start of the first row right of the break", bt == d.f("time", bi)),
        ("the break is safe", _fb_break_at(S, d, bi, a.safe_break, a.not_before)),
        ("and it is the first safe break",
         S.forall(1, bi, lambda i: _fb_no_break_at(S, d, i, a.safe_break, a.not_before)))]


from_break = REG.add(Contract(
    F, "from_break",
    params=dict(x=INTERVALS, safe_break="int", not_before="int", left="bool", tolerant="bool"),
    ensures=_from_break_ens,
    raises={"NotImplementedError": lambda S, a: S.Or(a.tolerant, a.x.n == 0),
            "NoBreakFound": lambda S, a: S.And(S.Not(a.tolerant), a.x.n >= 1, S.forall(
                1, a.x.n, lambda i: _fb_no_break_at(S, a.x, i, a.safe_break, a.not_before)))},
    call_names=("from_break", "strax.from_break"),
))


# --------------------------------------------------------------------------------------
# sanity checks (vector expressions become quantified formulas)
# --------------------------------------------------------------------------------------
check_sorted = REG.add(Contract(
    F, "_check_time_is_sorted",
    params=dict(time=ArrT("int")),
    ensures=lambda S, a, r: [("returns only for sorted input", L.adjacent_sorted(S, a.time.at, a.time.n))],
    raises={"AssertionError": lambda S, a: S.Not(L.adjacent_sorted(S, a.time.at, a.time.n))},
    call_names=("_check_time_is_sorted",),
))

check_nonneg = REG.add(Contract(
    F, "_check_objects_non_negative_length",
    params=dict(objects=INTERVALS),
    ensures=lambda S, a, r: [("returns only for non-negative lengths",
                              S.forall(0, a.objects.n, lambda i: a.objects.f("endtime", i) >= a.objects.f("time", i)))],
    raises={"AssertionError": lambda S, a: S.exists(
        0, a.objects.n, lambda i: a.objects.f("endtime", i) < a.objects.f("time", i))},
    call_names=("_check_objects_non_negative_length",),
))

check_no_overlap = REG.add(Contract(
    F, "_check_objects_are_not_overlapping",
    params=dict(objects=INTERVALS),
    ensures=lambda S, a, r: [("returns only for adjacent-disjoint objects", L.adjacent_disjoint(
        S, lambda i: a.objects.f("time", i), lambda i: a.objects.f("endtime", i), a.objects.n))],
    raises={"AssertionError": lambda S, a: S.Not(L.adjacent_disjoint(
        S, lambda i: a.objects.f("time", i), lambda i: a.objects.f("endtime", i), a.objects.n))},
    call_names=("_check_objects_are_not_overlapping",),
))


def _sane(S, x):
    return S.And(L.adjacent_sorted(S, lambda i: x.f("time", i), x.n),
                 S.forall(0, x.n, lambda i: x.f("endtime", i) >= x.f("time", i)))


fc_sanity = REG.add(Contract(
    F, "_fully_contained_in_sanity",
    params=dict(things=INTERVALS, containers=INTERVALS),
    ensures=lambda S, a, r: [("returns only for sorted inputs of non-negative length",
                              S.And(_sane(S, a.things), _sane(S, a.containers)))],
    raises={"ValueError": lambda S, a: S.Not(S.And(_sane(S, a.things), _sane(S, a.containers)))},
    call_names=("_fully_contained_in_sanity",),
))


# --------------------------------------------------------------------------------------
# _fully_contained_in / fully_contained_in
# --------------------------------------------------------------------------------------
def _fci_ok(S, things, containers, res):
    nb = containers.n
    cont = lambda c, i: S.And(containers.f("time", c) <= things.f("time", i),
                              things.f("endtime", i) <= containers.f("endtime", c))
    return S.And(
        res.n == things.n,
        S.forall(0, things.n, lambda i: S.Or(res.at(i) == -1, S.And(0 <= res.at(i), res.at(i) < nb, cont(res.at(i), i)))),
        S.forall2(0, things.n, 0, nb, lambda i, c: S.Implies(cont(c, i), res.at(i) == c)))


def _fci_requires(S, a):
    t, c = a.things, a.containers
    return [("things sorted by time", sorted_by_time(S, t)),
            ("things have positive duration", positive_duration(S, t)),
            ("containers have non-negative length", S.forall(0, c.n, lambda j: c.f("endtime", j) >= c.f("time", j))),
            ("containers pairwise disjoint and sorted", L.pairwise_disjoint(
                S, lambda i: c.f("time", i), lambda i: c.f("endtime", i), c.n))]


fully_contained_core = REG.add(Contract(
    F, "_fully_contained_in",
    params=dict(things=INTERVALS, containers=INTERVALS),
    requires=_fci_requires,
    ensures=lambda S, a, r: [("result[i] = index of THE container holding thing i, -1 iff there is none",
                              _fci_ok(S, a.things, a.containers, r))],
    raises={},
    call_names=("_fully_contained_in",),
    returns=ArrT("int"),
))


def _fc_doc_pre(S, a):
    """Documented preconditions that the wrapper does not (or only partly) check itself."""
    t, c = a.things, a.containers
    return [("things have positive duration (law 4 of chunking)", positive_duration(S, t)),
            ("containers do not overlap", L.adjacent_disjoint(
                S, lambda i: c.f("time", i), lambda i: c.f("endtime", i), c.n))]


fully_contained_in = REG.add(Contract(
    F, "fully_contained_in",
    params=dict(things=INTERVALS, containers=INTERVALS),
    requires=_fc_doc_pre,
    ensures=lambda S, a, r: [
        ("accepted inputs are sorted", S.And(_sane(S, a.things), _sane(S, a.containers))),
        ("result[i] = index of THE container holding thing i, -1 iff there is none",
         _fci_ok(S, a.things, a.containers, r))],
    raises={"ValueError": lambda S, a: S.Not(S.And(_sane(S, a.things), _sane(S, a.containers)))},
    lemma_facts=lambda S, a: [
        L.sorted_instance(S, lambda i: a.things.f("time", i), a.things.n),
        L.disjoint_instance(S, lambda i: a.containers.f("time", i), lambda i: a.containers.f("endtime", i),
                            a.containers.n)],
    call_names=("fully_contained_in", "strax.fully_contained_in"),
    returns=ArrT("int"),
))


# --------------------------------------------------------------------------------------
# touching_windows (wrapper)
# --------------------------------------------------------------------------------------
def _twr_touches(S, a, k, c):
    w, t, cn = a.window, a.things, a.containers
    return S.And(t.f("endtime", k) > cn.f("time", c) - w, t.f("time", k) < cn.f("endtime", c) + w)


def _twr_ens(S, a, r):
    t, c = a.things, a.containers
    ends_sorted = L.adjacent_sorted(S, lambda i: t.f("endtime", i), t.n)
    return [
        ("accepted inputs are sorted", S.And(_sane(S, t), _sane(S, c))),
        ("one (start, stop) pair per container", r.n == c.n),
        ("empty things or containers give all-zero windows",
         S.Implies(S.Or(t.n == 0, c.n == 0), S.forall(0, c.n, lambda i: S.And(r.at2(i, 0) == 0, r.at2(i, 1) == 0)))),
        ("for things also sorted by end: lo <= k < hi  <=>  thing k touches container c within window",
         S.Implies(ends_sorted, S.forall2(0, c.n, 0, t.n, lambda ci, k: S.Iff(
             S.And(r.at2(ci, 0) <= k, k < r.at2(ci, 1)), _twr_touches(S, a, k, ci))))),
    ]


touching_windows = REG.add(Contract(
    F, "touching_windows",
    params=dict(things=INTERVALS, containers=INTERVALS, window="int"),
    ensures=_twr_ens,
    raises={"ValueError": lambda S, a: S.Not(S.And(_sane(S, a.things), _sane(S, a.containers)))},
    lemma_facts=lambda S, a: [
        L.sorted_instance(S, lambda i: a.things.f("time", i), a.things.n),
        L.sorted_instance(S, lambda i: a.things.f("endtime", i), a.things.n),
        L.sorted_instance(S, lambda i: a.containers.f("time", i), a.containers.n)],
    call_names=("touching_windows", "strax.touching_windows"),
    returns=ArrT("int", dims=2),
))


# --------------------------------------------------------------------------------------
# _get_empty_container_ids (helper of split_by_containment): the ids in [0, n) that are not in the sorted list of full ids
# --------------------------------------------------------------------------------------
def _gec_lo(S, f, q):
    """first id after full id q-1 (0 for q = 0)"""
    if S.symbolic:
        return z3.If(q == 0, z3.IntVal(0), f.at(q - 1) + 1)
    return 0 if int(q) == 0 else int(f.at(int(q) - 1)) + 1


def _gec_hi(S, f, q, m, n):
    if S.symbolic:
        return z3.If(q == m, n, f.at(q))
    return int(n) if int(q) == int(m) else int(f.at(int(q)))


def _gec_placed(S, res, f, m, n, gaps, below):
    """the ids of the first ``gaps`` gaps between full ids (gap q = the ids between full id q-1 and full id q; gap m runs up to n)
    sit at position id - q (q full ids lie before them), all below ``below``.  Stated over the position p = id - q."""
    if not S.symbolic:
        ok = True
        for q in range(int(gaps)):
            for i in range(_gec_lo(S, f, q), _gec_hi(S, f, q, m, n)):
                ok = ok and 0 <= i - q < int(below) and int(res.at(i - q)) == i
        return ok
    q, p_ = z3.Int("gec_q"), z3.Int("gec_p")
    body = z3.Implies(z3.And(0 <= q, q < gaps, _gec_lo(S, f, q) - q <= p_, p_ < _gec_hi(S, f, q, m, n) - q),
                      z3.And(0 <= p_, p_ < below, res.at(p_) == p_ + q))
    from pyvc.ops import VT
    body = z3.Implies(z3.And(0 <= q, q < gaps, _gec_lo(S, f, q) - q <= p_, p_ < _gec_hi(S, f, q, m, n) - q, VT(q), VT(p_)),
                      z3.And(0 <= p_, p_ < below, res.at(p_) == p_ + q))
    # instantiated exactly for the (gap, position) pairs a goal names (marker predicate VT, axiomatised true: see pyvc/ops.py)
    return z3.ForAll([q, p_], body, patterns=[z3.MultiPattern(VT(q), VT(p_))])


def _gec_clean(S, res, f, upto_pos, n_full_seen, bound):
    """what is stored so far: ids below ``bound`` that are none of the full ids seen so far, in increasing order"""
    return S.And(S.forall(0, upto_pos, lambda j: S.And(0 <= res.at(j), res.at(j) < bound,
                                                        S.forall(0, n_full_seen, lambda k: res.at(j) != f.at(k)))),
                 S.forall(0, upto_pos - 1, lambda j: res.at(j) < res.at(j + 1)))


def _gec_requires(S, a):
    f, n = a.full_container_ids, a.n_containers
    return [("the full ids are container numbers, strictly increasing",
             S.And(n >= 0, S.forall(0, f.n, lambda k: S.And(0 <= f.at(k), f.at(k) < n)),
                   S.forall(0, f.n - 1, lambda k: f.at(k) < f.at(k + 1))))]


def _gec_inv(S, a):
    f, n, k = a.full_container_ids, a.n_containers, a.k_
    m = f.n
    return [("prev_fid is one past the last full id seen", a.prev_fid == _gec_lo(S, f, k)),
            ("n_empty counts the ids below prev_fid that are not full", S.And(a.n_empty == a.prev_fid - k, a.n_empty >= 0, a.res.n == n)),
            ("the ids of the gaps passed are in place", _gec_placed(S, a.res, f, m, n, k, a.n_empty)),
            ("nothing else was stored", _gec_clean(S, a.res, f, a.n_empty, k, a.prev_fid))]


def _gec_lemmas(S, a):
    f = a.full_container_ids
    return [L.sorted_instance(S, lambda i: f.at(i), f.n)]


get_empty_container_ids = REG.add(Contract(
    F, "_get_empty_container_ids",
    params=dict(n_containers="int", full_container_ids=ArrT("int")),
    requires=_gec_requires,
    ensures=lambda S, a, r: [
        ("as many ids as there are containers that are not full", r.n == a.n_containers - a.full_container_ids.n),
        ("every container number that is not a full id is in the result, at the position of its rank among them",
         _gec_placed(S, r, a.full_container_ids, a.full_container_ids.n, a.n_containers, a.full_container_ids.n + 1, r.n)),
        ("the result holds container numbers that are not full ids, in increasing order",
         _gec_clean(S, r, a.full_container_ids, r.n, a.full_container_ids.n, a.n_containers))],
    raises={},
    loops={1: Loop(_gec_inv)},
    lemma_facts=_gec_lemmas,
    call_names=("_get_empty_container_ids",),
))
