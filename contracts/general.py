"""Contracts for strax/processing/general.py (interval primitives, C17 / C07)."""

from pyvc.contract import Contract, Loop, REG
from pyvc.engine import RowsT, ArrT

F = "strax/processing/general.py"

# --------------------------------------------------------------------------------------
# overlap_indices (loop-free: the proof is complete over all integers)
# --------------------------------------------------------------------------------------


def _ov_ens(S, a, r):
    (a_start, a_end), (b_start, b_end) = r
    a1, n_a, b1, n_b = a.a1, a.n_a, a.b1, a.n_b
    # set-theoretic definition: position k of a overlaps iff b1 <= a1 + k < b1 + n_b
    in_b = lambda k: S.And(b1 <= a1 + k, a1 + k < b1 + n_b)
    in_a = lambda k: S.And(a1 <= b1 + k, b1 + k < a1 + n_a)
    return [
        ("a-range lies inside [0, n_a]", S.And(0 <= a_start, a_start <= a_end, a_end <= n_a)),
        ("b-range lies inside [0, n_b]", S.And(0 <= b_start, b_start <= b_end, b_end <= n_b)),
        ("a-range is exactly the positions of a that lie in b",
         S.forall(0, n_a, lambda k: S.Iff(S.And(a_start <= k, k < a_end), in_b(k)))),
        ("b-range is exactly the positions of b that lie in a",
         S.forall(0, n_b, lambda k: S.Iff(S.And(b_start <= k, k < b_end), in_a(k)))),
        ("empty intersection is reported as (0,0),(0,0)",
         S.Implies(S.Or(a_start >= a_end, b_start >= b_end),
                   S.And(a_start == 0, a_end == 0, b_start == 0, b_end == 0))),
        ("both ranges have the same length", a_end - a_start == b_end - b_start),
    ]


overlap_indices = REG.add(Contract(
    F, "overlap_indices",
    params=dict(a1="int", n_a="int", b1="int", n_b="int"),
    requires=None,
    ensures=lambda S, a, r: _ov_ens(S, a, r) + [
        ("normal return only for non-negative lengths", S.And(a.n_a >= 0, a.n_b >= 0))],
    raises={"ValueError": lambda S, a: S.Or(a.n_a < 0, a.n_b < 0)},
    call_names=("overlap_indices", "strax.overlap_indices"),
    make_result=None,
))


# --------------------------------------------------------------------------------------
# _fc_in : core of fully_contained_in
# --------------------------------------------------------------------------------------
def _fc_ok_upto(S, a, n):
    """result[0..n) equals the quadratic definition: THE container index, or -1 if none contains."""
    nb = a.b_starts.n
    res = a.result
    return S.And(
        S.forall(0, n, lambda i: S.Or(
            res.at(i) == -1,
            S.And(0 <= res.at(i), res.at(i) < nb,
                  a.b_starts.at(res.at(i)) <= a.a_starts.at(i), a.a_ends.at(i) <= a.b_ends.at(res.at(i))))),
        S.forall2(0, n, 0, nb, lambda i, c: S.Implies(
            S.And(a.b_starts.at(c) <= a.a_starts.at(i), a.a_ends.at(i) <= a.b_ends.at(c)),
            res.at(i) == c)))


def _fc_requires(S, a):
    na, nb = a.a_starts.n, a.b_starts.n
    return [
        ("equal lengths", S.And(a.a_ends.n == na, a.result.n == na, a.b_ends.n == nb)),
        ("things have positive duration (law 4)", S.forall(0, na, lambda i: a.a_ends.at(i) > a.a_starts.at(i))),
        ("things sorted by time", S.forall2(0, na, 0, na, lambda i, j: S.Implies(i <= j, a.a_starts.at(i) <= a.a_starts.at(j)))),
        ("containers have non-negative length", S.forall(0, nb, lambda j: a.b_ends.at(j) >= a.b_starts.at(j))),
        ("containers pairwise disjoint and sorted",
         S.forall2(0, nb, 0, nb, lambda j, c: S.Implies(j < c, a.b_ends.at(j) <= a.b_starts.at(c)))),
        ("result initialised to -1", S.forall(0, na, lambda i: a.result.at(i) == -1)),
    ]


def _fc_inv_outer(S, a):
    k, nb, na = a.k_, a.b_starts.n, a.a_starts.n
    return [
        ("b_i in range", S.And(0 <= a.b_i, a.b_i <= nb)),
        ("result correct below a_i", _fc_ok_upto(S, a, k)),
        ("result untouched from a_i on", S.forall(k, na, lambda i: a.result.at(i) == -1)),
        ("skipped containers end before the current thing",
         S.forall(0, a.b_i, lambda c: S.Implies(k < na, a.b_ends.at(c) <= a.a_starts.at(k)))),
        ("skipped containers end before the previous thing",
         S.forall(0, a.b_i, lambda c: S.Implies(k > 0, a.b_ends.at(c) <= a.a_starts.at(k - 1)))),
    ]


def _fc_inv_inner(S, a):
    nb, na = a.b_starts.n, a.a_starts.n
    return [
        ("b_i in range", S.And(0 <= a.b_i, a.b_i <= nb)),
        ("a_i in range", S.And(0 <= a.a_i, a.a_i < na)),
        ("result correct below a_i", _fc_ok_upto(S, a, a.a_i)),
        ("result untouched from a_i on", S.forall(a.a_i, na, lambda i: a.result.at(i) == -1)),
        ("skipped containers end before the current thing",
         S.forall(0, a.b_i, lambda c: a.b_ends.at(c) <= a.a_starts.at(a.a_i))),
    ]


fc_in = REG.add(Contract(
    F, "_fc_in",
    params=dict(a_starts=ArrT("int"), b_starts=ArrT("int"), a_ends=ArrT("int"), b_ends=ArrT("int"),
                result=ArrT("int")),
    requires=_fc_requires,
    ensures=lambda S, a, r: [
        ("result[i] is the unique containing container, or -1 iff none contains thing i",
         _fc_ok_upto(S, a, a.a_starts.n))],
    raises={},
    loops={1: Loop(_fc_inv_outer), 2: Loop(_fc_inv_inner, variant=lambda S, a: a.b_starts.n - a.b_i)},
    modifies=["result"],
    call_names=("_fc_in",),
))
