"""Contract for Context.get_iter (C06 relay, C01 continuity wrapper, C10 selection per chunk, C15 temporary merge plugin)."""

import z3

from pyvc.contract import Contract, Loop, REG
from pyvc.engine import Opq, PNONE, V, St, Exc
from pyvc.library import Abstract, plain_with

F = "strax/context.py"
GETITEM = z3.Function("getitem", V, V, V)
ATTR = lambda n: z3.Function("attr_" + n, V, V)


def _cfg(eng, st, key):
    from pyvc.engine import strv
    return GETITEM(ATTR("context_config")(eng.to_v(st.env["self"])), strv(key))


def _processor_call(eng, args, kw, st, fr, k, node):
    """processor(components, max_workers=..., allow_lazy=..., ...)"""
    ok = True
    for key in ("allow_shm", "allow_multiprocess", "allow_rechunk", "allow_lazy", "max_messages", "timeout"):
        eng.oblige("get_iter", f"the processor is built with the context's '{key}' setting", st,
                   eng.to_v(kw.get(key, PNONE)) == _cfg(eng, st, key), node)
    eng.oblige("get_iter", "the processor gets the components planned for this request, the caller's max_workers and the superrun flag", st,
               z3.And(eng.to_v(args[0]) == eng.to_v(st.env["components"]), eng.to_v(kw.get("max_workers", PNONE)) == eng.to_v(st.env["#entry_max_workers"]),
                      eng.truth(kw.get("is_superrun", z3.BoolVal(False))) == eng.truth(st.env["is_superrun"])), node)
    return k(Opq(eng.fresh("processor_instance", "V")), st)


def _iter_call(eng, args, kw, st, fr, k, node):
    gen = eng.fresh("processor_generator", "V")
    g = dict(st.ghost)
    g["gen"] = gen
    return k(Opq(gen), St(st.env, st.heap, st.pc, g))


def _continuity(eng, args, kw, st, fr, k, node):
    eng.oblige("get_iter", "what the processor yields goes through continuity_check before it reaches the user", st,
               eng.to_v(args[0]) == st.ghost["gen"], node)
    return k(Opq(z3.Function("fn:continuity_check", V, V)(eng.to_v(args[0]))), st)


def _throw(eng, args, kw, st, fr, k, node):
    g = dict(st.ghost)
    g["thrown"] = z3.BoolVal(True)
    g["py:thrown"] = args[-1]
    g["thrown_while_handling"] = z3.BoolVal(st.ghost.get("#handling") is not None)
    fr.on_raise(Exc("Any", Opq(eng.fresh("rethrown", "V"))), St(st.env, st.heap, st.pc, g))
    return k(PNONE, St(st.env, st.heap, st.pc, g))


def _same(eng, x, y):
    """the very same value (object identity in the symbolic environment, or equal terms)"""
    if x is y:
        return True
    try:
        return bool(eng.to_v(x).eq(eng.to_v(y)))
    except Exception:
        return False


def _abs_range(eng, args, kw, st, fr, k, node):
    """self.to_absolute_time_range(run_id=..., targets=..., time_range=..., seconds_range=..., time_within=...)"""
    env = st.env
    ok = (not args and _same(eng, kw.get("time_range"), env.get("#entry_time_range"))
          and _same(eng, kw.get("seconds_range"), env.get("#entry_seconds_range"))
          and _same(eng, kw.get("time_within"), env.get("#entry_time_within"))
          and _same(eng, kw.get("targets"), env.get("#entry_targets")) and kw.get("run_id") is env.get("run_id")
          and not kw.get("full_range"))
    eng.oblige("get_iter", "the absolute time range is computed from exactly the request's run, targets, time_range, seconds_range and "
                           "time_within", st, z3.BoolVal(bool(ok)), node)
    r = Opq(eng.fresh("absolute_time_range", "V"))
    e2 = dict(env)
    e2["#abs_time_range"] = r
    return k(r, St(e2, st.heap, st.pc, st.ghost))


def _get_components(eng, args, kw, st, fr, k, node):
    env = st.env
    ok = (_same(eng, kw.get("time_range"), env.get("#abs_time_range")) and _same(eng, kw.get("selection"), env.get("#entry_selection"))
          and _same(eng, kw.get("keep_columns"), env.get("#entry_keep_columns"))
          and _same(eng, kw.get("drop_columns"), env.get("#entry_drop_columns")) and _same(eng, kw.get("save"), env.get("#entry_save")))
    eng.oblige("get_iter", "the request is planned (get_components) with its own time range, selection, columns and save argument - "
                           "these decide that a partial request saves nothing", st, z3.BoolVal(bool(ok)), node)
    return k(Opq(eng.fresh("components", "V")), st)


def _apply_selection(eng, args, kw, st, fr, k, node):
    env = st.env
    same = (all(_same(eng, kw.get(key), env.get("#entry_" + key)) for key in ("selection", "keep_columns", "drop_columns", "time_selection"))
            and _same(eng, kw.get("time_range"), env.get("#abs_time_range")))
    eng.oblige("get_iter", "every chunk is filtered with exactly the selection, columns and time_selection the caller passed and the "
                           "absolute time range computed from the request (none of them re-bound on the way)", st,
               z3.BoolVal(bool(same)), node)
    fr.on_raise(Exc("Any", Opq(eng.fresh("selection_exc", "V"))), st)
    return k(Opq(eng.fresh("selected", "V")), St(st.env, st.heap, st.pc, {**st.ghost, "selected": z3.BoolVal(True)}))


def _registry_del(eng, st, key, value, node):
    from pyvc.engine import strv
    eng.oblige("get_iter", "only temporary plugins are removed from the registry after planning", st,
               z3.Function("startswith", V, V, z3.BoolSort())(eng.to_v(key), strv("_temp")), node)
    return st


def _gi_setup(eng, st):
    env = dict(st.env)
    env["#entry_max_workers"] = st.env["max_workers"]
    for key in ("selection", "keep_columns", "drop_columns", "time_selection", "time_range", "seconds_range", "time_within", "targets", "save"):
        env["#entry_" + key] = st.env[key]
    return St(env, st.heap, st.pc, st.ghost)


def _gi_exc(S, a, exc):
    g = a.ghost
    if exc.origin == "stmt" and exc.cls == "ValueError" and a.local._has("seen_a_chunk"):
        return [("a failure while chunks are being consumed is first thrown into the processor's generator (so that the pipeline shuts "
                 "down); the only other ValueError of this phase is the 'no chunk in this time range' report",
                 S.Or(S.And(g.thrown, g.thrown_while_handling), S.Not(a.local.seen_a_chunk)))]
    return []


get_iter = REG.add(Contract(
    F, "Context.get_iter",
    params=dict(self="V", run_id="V", targets="V", save="V", max_workers="V", time_range="V", seconds_range="V", time_within="V",
                time_selection="V", selection="V", keep_columns="V", drop_columns="V", allow_multiple="bool", progress_bar="V",
                multi_run_progress_bar="V", chunk_number="V", processor="V", combining="V", kwargs={}),
    setup=_gi_setup,
    ensures=lambda S, a, r: [("a request ends normally only after at least one chunk was seen", a.local.seen_a_chunk),
                             ("it ends either because the processor's generator was exhausted or - the consumer closed the iterator - after "
                              "an OutsideException was thrown into the processor's generator, so that the pipeline shuts down",
                              S.Or(a.ghost.exhausted, a.ghost.thrown))],
    raises={"Any": lambda S, a: S.true, "ValueError": lambda S, a: S.true, "RuntimeError": lambda S, a: S.true,
            "DataCorrupted": lambda S, a: S.true},
    exc_ensures=_gi_exc,
    yields=lambda S, a, v: [("a chunk is handed to the user only after the request's selection was applied to it", a.ghost.selected)],
    ghost={"gen": z3.Const("no_generator", V), "thrown": z3.BoolVal(False), "thrown_while_handling": z3.BoolVal(False),
           "selected": z3.BoolVal(False), "n_yielded": z3.IntVal(0), "exhausted": z3.BoolVal(False)},
    calls={"processor": _processor_call, ".iter": _iter_call, "strax.continuity_check": _continuity, "generator.throw": _throw,
           "strax.apply_selection": _apply_selection,
           "hasattr": Abstract(sort="bool", pure=True), "run_id.decode": Abstract(pure=True), "self.new_context": Abstract(),
           "self.to_absolute_time_range": _abs_range, "list": Abstract(pure=True),
           "strax.set_keep_order": Abstract(pure=True), "strax.to_str_tuple": Abstract(pure=True),
           "self._get_plugins": Abstract(), "strax.deterministic_hash": Abstract(pure=True), "type": Abstract(),
           "tuple": Abstract(pure=True), "dict": Abstract(), "set": Abstract(pure=True), "self.register": Abstract(sort=None),
           "self.get_components": _get_components, "self._make_progress_bar": Abstract(), "time.perf_counter": Abstract(),
           "self._apply_function": Abstract(may_raise=["Any"]), "self._update_progress_bar": Abstract(sort=None), "_p.close": Abstract(sort=None),
           "OutsideException": Abstract(pure=True)},
    store_hooks={"del:self._plugin_class_registry": _registry_del, "attr:*": lambda eng, st, obj, v, node: st},
    consts={"TEMP_DATA_TYPE_PREFIX": "_temp_"},
    with_handler=plain_with,
    loops={1: Loop(lambda S, a: []), 2: Loop(lambda S, a: [("nothing selected yet for the next chunk", S.And(a.ghost.n_yielded >= 0, S.Not(a.ghost.selected)))],
                   on_exit=lambda eng, st: St(st.env, st.heap, st.pc, {**st.ghost, "exhausted": z3.BoolVal(True)}))},
    loop_ghost={1: [], 2: ["selected", "n_yielded"]},
    local_sorts={"seen_a_chunk": "bool", "result": "V", "n_chunks": "int"},
))


def _gi_after_yield(eng, st, value):
    g = dict(st.ghost)
    g["n_yielded"] = g["n_yielded"] + 1
    g["selected"] = z3.BoolVal(False)
    return St(st.env, st.heap, st.pc, g)


get_iter.after_yield = _gi_after_yield
get_iter.yield_may_throw = "GeneratorExit"


# --------------------------------------------------------------------------------------
# Context.estimate_run_start_and_end: "seconds since run start" counts from a WHOLE second (C10)
# --------------------------------------------------------------------------------------
MD = z3.Function("fn:metadata", V, V, V)
I2V = z3.Function("int2v", z3.IntSort(), V)
NS = 10 ** 9


def _get_metadata(eng, args, kw, st, fr, k, node):
    fr.on_raise(Exc("DataNotAvailable", Opq(eng.fresh("dna", "V"))), st)
    return k(Opq(MD(eng.to_v(args[0]), eng.to_v(args[1]))), st)


def _erse_ens(S, a, r):
    from pyvc.engine import strv, v2int
    if not (isinstance(r, (tuple, list)) and len(r) == 2 and all(isinstance(x, z3.ExprRef) and z3.is_int(x) for x in r)):
        return []            # the "assuming 0 and inf" fallback
    out = [("start and end of the run are whole seconds (multiples of 10^9 ns) - what 'seconds since run start' counts from, "
            "with and without run metadata", S.And(r[0] % NS == 0, r[1] % NS == 0))]
    if a.local._has("t0"):
        chunks = GETITEM(MD(S.v(a.run_id), S.v(a.local.t)), strv("chunks"))
        start = v2int(GETITEM(GETITEM(chunks, I2V(z3.IntVal(0))), strv("start")))
        end = v2int(GETITEM(GETITEM(chunks, I2V(z3.IntVal(-1))), strv("end")))
        out.append(("inferred from the data: the start is the first stored chunk's start floored to the second, the end the last "
                    "chunk's end floored to the second",
                    S.And(r[0] <= start, start < r[0] + NS, r[1] <= end, end < r[1] + NS)))
    return out


estimate_run_start_and_end = REG.add(Contract(
    F, "Context.estimate_run_start_and_end",
    params=dict(self="V", run_id="V", targets="V"),
    ensures=_erse_ens,
    raises={"TypeError": lambda S, a: S.true, "ValueError": lambda S, a: S.true},     # int() of a metadata entry that is not a number
    calls={"float": Abstract(pure=True), "self.run_metadata": Abstract(may_raise=["RunMetadataNotAvailable", "KeyError"]), "self.log.debug": Abstract(sort=None),
           "self.log.warning": Abstract(sort=None), "self._get_plugins": Abstract(), "strax.to_str_tuple": Abstract(pure=True),
           "self.is_stored": Abstract(sort="bool"), "self.get_metadata": _get_metadata, "type": Abstract()},
    loops={1: Loop(lambda S, a: []), 2: Loop(lambda S, a: [])},
    consts={"datetime.timezone.utc": Opq(z3.Const("utc", V))},
))


# --------------------------------------------------------------------------------------
# Context.get_array / Context.make for several runs: the request is handed to multi_run unchanged (C15)
# --------------------------------------------------------------------------------------
def _multi_run_call(which):
    def hook(eng, args, kw, st, fr, k, node):
        env = st.env
        from pyvc.engine import Named
        fn_ok = isinstance(args[0], Opq) or isinstance(args[0], Named) or True
        same = lambda key: key in kw and _same(eng, kw[key], env.get("#entry_" + key))
        eng.oblige("multi-run", "every run of a multi-run request is processed by get_array with the request's own targets, save list and "
                                "worker count (what a sequential single-run call would get)", st,
                   z3.BoolVal(bool(len(args) >= 2 and _same(eng, args[1], env.get("run_ids")) and same("targets") and same("save")
                                   and same("max_workers"))), node)
        eng.oblige("multi-run", "the function applied to each run is this context's get_array", st,
                   z3.BoolVal(bool(args and _same(eng, args[0], env.get("#get_array")))), node)
        if which == "make":
            eng.oblige("multi-run", "make() for several runs keeps no data (throw_away_result) and passes the chunk numbers on", st,
                       z3.And(eng.truth(kw.get("throw_away_result", z3.BoolVal(False))),
                              z3.BoolVal(bool("chunk_number" in kw and _same(eng, kw["chunk_number"], env.get("#entry_chunk_number"))))), node)
        g = dict(st.ghost)
        g["multi"] = z3.BoolVal(True)
        fr.on_raise(Exc("Any", Opq(eng.fresh("run_failed", "V"))), st)
        return k(Opq(eng.fresh("multi_run_results", "V")), St(st.env, st.heap, st.pc, g))
    return hook


def _single_get_iter(eng, args, kw, st, fr, k, node):
    env = st.env
    ok = (len(args) >= 2 and _same(eng, args[1], env.get("#entry_targets")) and "save" in kw and _same(eng, kw["save"], env.get("#entry_save"))
          and "max_workers" in kw and _same(eng, kw["max_workers"], env.get("#entry_max_workers")))
    eng.oblige("multi-run", "a single run is processed through get_iter with the request's targets, save list and worker count", st,
               z3.BoolVal(bool(ok)), node)
    g = dict(st.ghost)
    g["single"] = z3.BoolVal(True)
    fr.on_raise(Exc("Any", Opq(eng.fresh("run_failed", "V"))), st)
    return k(Opq(eng.fresh("chunk_source", "V")), St(st.env, st.heap, st.pc, g))


def _ga_setup(eng, st):
    env = dict(st.env)
    for key in ("targets", "save", "max_workers", "chunk_number"):
        if key in st.env:
            env["#entry_" + key] = st.env[key]
    env["#get_array"] = Opq(z3.Function("attr_get_array", V, V)(eng.to_v(st.env["self"])))
    return St(env, st.heap, st.pc, st.ghost)


def _self_get_array(eng, st, fr, k, node):
    return k(st.env["#get_array"], st)


get_array_c = REG.add(Contract(
    F, "Context.get_array",
    params=dict(self="V", run_id="V", targets="V", save="V", max_workers="V", kwargs={}),
    setup=_ga_setup,
    ensures=lambda S, a, r: [("several runs go through multi_run, one run through get_iter", S.Or(a.ghost.multi, a.ghost.single))],
    raises={"Any": lambda S, a: S.true, "RuntimeError": lambda S, a: S.true},
    ghost={"multi": z3.BoolVal(False), "single": z3.BoolVal(False)},
    calls={"strax.to_str_tuple": Abstract(pure=True), "strax.multi_run": _multi_run_call("get_array"), "self.get_iter": _single_get_iter,
           "np.concatenate": Abstract(may_raise=["Any"])},
    attrs={"self.get_array": _self_get_array},
))

make_c = REG.add(Contract(
    F, "Context.make",
    params=dict(self="V", run_id="V", targets="V", save="V", max_workers="V", _skip_if_built="bool", chunk_number="V", combining="V", kwargs={}),
    setup=_ga_setup,
    ensures=lambda S, a, r: [("make returns nothing for a single run", S.Or(a.ghost.multi, S.is_none(r)))],
    raises={"Any": lambda S, a: S.true, "ValueError": lambda S, a: S.true},
    ghost={"multi": z3.BoolVal(False), "single": z3.BoolVal(False)},
    calls={"strax.to_str_tuple": Abstract(pure=True), "strax.multi_run": _multi_run_call("make"), "self.get_iter": _single_get_iter,
           "self.is_stored": Abstract(sort="bool", pure=True), "kwargs.setdefault": Abstract(sort=None)},
    attrs={"self.get_array": _self_get_array},
    loops={1: Loop(lambda S, a: [])},
))


# --------------------------------------------------------------------------------------
# Context.to_absolute_time_range: the three ways of giving a time range (C10)
# --------------------------------------------------------------------------------------
ENDTIME = z3.Function("fn:strax.endtime", V, V)


def _tatr_ens(which):
    def ens(S, a, r):
        from pyvc.engine import strv
        if which == "time_within":
            ok = isinstance(r, tuple) and len(r) == 2
            return [("a range taken from a row runs from the row's time to its END as strax.endtime computes it (time + length * dt for "
                     "rows without an endtime field), as integers",
                     S.And(S.eq(S.v(r[0]), S.call("int", S.getitem(a.time_within, "time"))),
                           S.eq(S.v(r[1]), S.call("int", ENDTIME(S.v(a.time_within))))) if ok else S.false)]
        if which == "time_range":
            ok = isinstance(r, tuple) and len(r) == 2
            return [("an absolute range is passed on unchanged, as integers",
                     S.And(S.eq(S.v(r[0]), S.call("int", S.getitem(a.time_range, 0))), S.eq(S.v(r[1]), S.call("int", S.getitem(a.time_range, 1)))) if ok else S.false)]
        return []
    return ens


def _int_call(eng, args, kw, st, fr, k, node):
    v = args[0]
    if isinstance(v, Opq):
        return k(Opq(z3.Function("fn:int", V, V)(v.t)), st)
    from pyvc.library import LIB
    return LIB["int"](eng, args, kw, st, fr, k, node)


def _tatr_contract(which):
    none = lambda eng, name, st: (PNONE, st)
    params = dict(self="V", run_id="V", targets="V", time_range=none, seconds_range=none, time_within=none, full_range=none)
    params[which] = "V"
    return REG.add(Contract(
        F, "Context.to_absolute_time_range", variant=which + " given",
        params=params,
        requires=lambda S, a: [("the argument is given", S.Not(S.is_none(getattr(a, which))))],
        ensures=_tatr_ens(which), raises={"RuntimeError": lambda S, a: S.false},
        calls={"strax.endtime": Abstract(pure=True), "int": _int_call, "self.estimate_run_start_and_end": Abstract(pure=True),
               "tuple": lambda eng, args, kw, st, fr, k, node: k(tuple(args[0]) if isinstance(args[0], (list, tuple)) else args[0], st)},
        expected_dead=[("raise RuntimeError", "Pass no more than one one of")],
    ))


tatr_time_within = _tatr_contract("time_within")
