"""Contract for Context.get_iter (C06 relay, C01 continuity wrapper, C10 selection per chunk, C15 temporary merge plugin)."""

import z3

from pyvc.contract import Contract, Loop, REG
from pyvc.engine import Opq, PNONE, V, St, Exc
from pyvc.library import Abstract, plain_with

F = "strax/context.py"
GETITEM = z3.Function("getitem", V, V, V)
ATTR = lambda n: z3.Function("attr_" + n, V, V)


def _cfg(eng, st, key):
    from pyvc.engine import strv
    return GETITEM(ATTR("context_config")(eng.to_v(st.env["self"])), strv(key))


def _processor_call(eng, args, kw, st, fr, k, node):
    """processor(components, max_workers=..., allow_lazy=..., ...)"""
    ok = True
    for key in ("allow_shm", "allow_multiprocess", "allow_rechunk", "allow_lazy", "max_messages", "timeout"):
        eng.oblige("get_iter", f"the processor is built with the context's '{key}' setting", st,
                   eng.to_v(kw.get(key, PNONE)) == _cfg(eng, st, key), node)
    eng.oblige("get_iter", "the processor gets the components planned for this request, the caller's max_workers and the superrun flag", st,
               z3.And(eng.to_v(args[0]) == eng.to_v(st.env["components"]), eng.to_v(kw.get("max_workers", PNONE)) == eng.to_v(st.env["#entry_max_workers"]),
                      eng.truth(kw.get("is_superrun", z3.BoolVal(False))) == eng.truth(st.env["is_superrun"])), node)
    return k(Opq(eng.fresh("processor_instance", "V")), st)


def _iter_call(eng, args, kw, st, fr, k, node):
    gen = eng.fresh("processor_generator", "V")
    g = dict(st.ghost)
    g["gen"] = gen
    return k(Opq(gen), St(st.env, st.heap, st.pc, g))


def _continuity(eng, args, kw, st, fr, k, node):
    eng.oblige("get_iter", "what the processor yields goes through continuity_check before it reaches the user", st,
               eng.to_v(args[0]) == st.ghost["gen"], node)
    return k(Opq(z3.Function("fn:continuity_check", V, V)(eng.to_v(args[0]))), st)


def _throw(eng, args, kw, st, fr, k, node):
    g = dict(st.ghost)
    g["thrown"] = z3.BoolVal(True)
    g["py:thrown"] = args[-1]
    g["thrown_while_handling"] = z3.BoolVal(st.ghost.get("#handling") is not None)
    fr.on_raise(Exc("Any", Opq(eng.fresh("rethrown", "V"))), St(st.env, st.heap, st.pc, g))
    return k(PNONE, St(st.env, st.heap, st.pc, g))


def _apply_selection(eng, args, kw, st, fr, k, node):
    env = st.env
    same = all(kw.get(key) is env.get(key) for key in ("selection", "keep_columns", "drop_columns", "time_range", "time_selection"))
    eng.oblige("get_iter", "every chunk is filtered with exactly the selection, columns, time range and time_selection of the request", st,
               z3.BoolVal(bool(same)), node)
    fr.on_raise(Exc("Any", Opq(eng.fresh("selection_exc", "V"))), st)
    return k(Opq(eng.fresh("selected", "V")), St(st.env, st.heap, st.pc, {**st.ghost, "selected": z3.BoolVal(True)}))


def _registry_del(eng, st, key, value, node):
    from pyvc.engine import strv
    eng.oblige("get_iter", "only temporary plugins are removed from the registry after planning", st,
               z3.Function("startswith", V, V, z3.BoolSort())(eng.to_v(key), strv("_temp")), node)
    return st


def _gi_setup(eng, st):
    env = dict(st.env)
    env["#entry_max_workers"] = st.env["max_workers"]
    return St(env, st.heap, st.pc, st.ghost)


def _gi_exc(S, a, exc):
    g = a.ghost
    if exc.origin == "stmt" and exc.cls == "ValueError" and a.local._has("seen_a_chunk"):
        return [("a failure while chunks are being consumed is first thrown into the processor's generator (so that the pipeline shuts "
                 "down); the only other ValueError of this phase is the 'no chunk in this time range' report",
                 S.Or(S.And(g.thrown, g.thrown_while_handling), S.Not(a.local.seen_a_chunk)))]
    return []


get_iter = REG.add(Contract(
    F, "Context.get_iter",
    params=dict(self="V", run_id="V", targets="V", save="V", max_workers="V", time_range="V", seconds_range="V", time_within="V",
                time_selection="V", selection="V", keep_columns="V", drop_columns="V", allow_multiple="bool", progress_bar="V",
                multi_run_progress_bar="V", chunk_number="V", processor="V", combining="V", kwargs={}),
    setup=_gi_setup,
    ensures=lambda S, a, r: [("a request ends normally only after at least one chunk was seen", a.local.seen_a_chunk),
                             ("it ends either because the processor's generator was exhausted or - the consumer closed the iterator - after "
                              "an OutsideException was thrown into the processor's generator, so that the pipeline shuts down",
                              S.Or(a.ghost.exhausted, a.ghost.thrown))],
    raises={"Any": lambda S, a: S.true, "ValueError": lambda S, a: S.true, "RuntimeError": lambda S, a: S.true,
            "DataCorrupted": lambda S, a: S.true},
    exc_ensures=_gi_exc,
    yields=lambda S, a, v: [("a chunk is handed to the user only after the request's selection was applied to it", a.ghost.selected)],
    ghost={"gen": z3.Const("no_generator", V), "thrown": z3.BoolVal(False), "thrown_while_handling": z3.BoolVal(False),
           "selected": z3.BoolVal(False), "n_yielded": z3.IntVal(0), "exhausted": z3.BoolVal(False)},
    calls={"processor": _processor_call, ".iter": _iter_call, "strax.continuity_check": _continuity, "generator.throw": _throw,
           "strax.apply_selection": _apply_selection,
           "hasattr": Abstract(sort="bool", pure=True), "run_id.decode": Abstract(pure=True), "self.new_context": Abstract(),
           "self.to_absolute_time_range": Abstract(pure=True), "list": Abstract(pure=True),
           "strax.set_keep_order": Abstract(pure=True), "strax.to_str_tuple": Abstract(pure=True),
           "self._get_plugins": Abstract(), "strax.deterministic_hash": Abstract(pure=True), "type": Abstract(),
           "tuple": Abstract(pure=True), "dict": Abstract(), "set": Abstract(pure=True), "self.register": Abstract(sort=None),
           "self.get_components": Abstract(), "self._make_progress_bar": Abstract(), "time.perf_counter": Abstract(),
           "self._apply_function": Abstract(may_raise=["Any"]), "self._update_progress_bar": Abstract(sort=None), "_p.close": Abstract(sort=None),
           "OutsideException": Abstract(pure=True)},
    store_hooks={"del:self._plugin_class_registry": _registry_del, "attr:*": lambda eng, st, obj, v, node: st},
    consts={"TEMP_DATA_TYPE_PREFIX": "_temp_"},
    with_handler=plain_with,
    loops={1: Loop(lambda S, a: []), 2: Loop(lambda S, a: [("nothing selected yet for the next chunk", S.And(a.ghost.n_yielded >= 0, S.Not(a.ghost.selected)))],
                   on_exit=lambda eng, st: St(st.env, st.heap, st.pc, {**st.ghost, "exhausted": z3.BoolVal(True)}))},
    loop_ghost={1: [], 2: ["selected", "n_yielded"]},
    local_sorts={"seen_a_chunk": "bool", "result": "V", "n_chunks": "int"},
))


def _gi_after_yield(eng, st, value):
    g = dict(st.ghost)
    g["n_yielded"] = g["n_yielded"] + 1
    g["selected"] = z3.BoolVal(False)
    return St(st.env, st.heap, st.pc, g)


get_iter.after_yield = _gi_after_yield
get_iter.yield_may_throw = "GeneratorExit"
