"""Contracts for strax/plugins/plugin.py and down_chunking_plugin.py (C12: bad outputs are rejected)."""

import z3

from pyvc.contract import Contract, Loop, REG
from pyvc.engine import ObjT, ClassModel, Opq, PNONE, V, Exc
from pyvc.library import Abstract
from pyvc.generators import IterT
import contracts.chunk as CH
from contracts.chunk import INTERVALS, CHUNK, RTFD, chunk_wf

F = "strax/plugins/plugin.py"
FD = "strax/plugins/down_chunking_plugin.py"

DTYPE_FOR = "plugin.dtype_for"


def _dtype_for(eng, args, kw, st, fr, k, node):
    """self.dtype_for(d): a pure function of the data type name (the plugin is fixed)."""
    d = args[1]
    return k(Opq(z3.Function("fn:" + DTYPE_FOR, V, V)(eng.to_v(d))), st)


def _kind_for(eng, args, kw, st, fr, k, node):
    return k(Opq(z3.Function("fn:plugin.data_kind_for", V, V)(eng.to_v(args[1]))), st)


def _superrun_transformation(eng, args, kw, st, fr, k, node):
    """Returns the very chunk it was given; only sub/superrun annotations change (C14)."""
    eng.assumptions.add("Plugin.superrun_transformation returns the object it was given, touching only the "
                        "sub/superrun annotations (it may raise ValueError from that bookkeeping)")
    fr.on_raise(Exc("ValueError:runs"), st)
    return k(args[1], st)


# methods are filled in below (recursive _fix_output)
PLUGIN_MODEL = ClassModel(methods={"dtype_for": _dtype_for, "data_kind_for": _kind_for,
                                   "superrun_transformation": _superrun_transformation})
PLUGIN = ObjT("Plugin", model=PLUGIN_MODEL, multi_output="bool", provides="V", depends_on="V", _run_id="V",
              chunk_target_size_mb="V", **{"__class__": "V"})

_CALLS = {RTFD: Abstract(pure=True), "type": Abstract(pure=True)}


def _want(S, a, dname="d"):
    """The data type the output is checked against: the given one, or the single provided type."""
    d = getattr(a, dname)
    if S.symbolic:
        from pyvc.engine import NONE, int2v
        first = z3.Function("getitem", V, V, V)(a.self.provides, int2v(z3.IntVal(0)))
        return z3.If(d == NONE, first, d)
    return a.self.provides[0] if d is None else d


def _dtype_matches(S, a, x, want):
    return S.eq(S.call(RTFD, S.arr_dtype(x)), S.call(RTFD, S.call(DTYPE_FOR, want)))


check_dtype_arr = REG.add(Contract(
    F, "Plugin._check_dtype", variant="x=ndarray",
    params=dict(self=PLUGIN, x=INTERVALS, d="V"),
    ensures=lambda S, a, r: [
        ("returns only when the delivered dtype is the promised one (titles removed)",
         _dtype_matches(S, a, a.x, _want(S, a)))],
    raises={"PluginGaveWrongOutput": lambda S, a: S.Not(_dtype_matches(S, a, a.x, _want(S, a))),
            "ValueError": lambda S, a: S.true,   # the declared dtype itself is not a numpy dtype
            "AssertionError": lambda S, a: S.And(S.is_none(a.d), a.self.multi_output)},
    calls=_CALLS,
))

check_dtype_other = REG.add(Contract(
    F, "Plugin._check_dtype", variant="x=not-an-array",
    params=dict(self=PLUGIN, x="V", d="V"),
    requires=lambda S, a: [("x is not an ndarray", S.Not(S.is_instance(a.x, "np.ndarray")))],
    ensures=lambda S, a, r: [("something that is not an array is never accepted", S.false)],
    raises={"PluginGaveWrongOutput": lambda S, a: S.true,
            "AssertionError": lambda S, a: S.And(S.is_none(a.d), a.self.multi_output)},
    calls=_CALLS,
))
PLUGIN_MODEL.methods["_check_dtype"] = check_dtype_arr


# -- Plugin.chunk -----------------------------------------------------------------------------
def _pc_ens(S, a, r):
    return [("the chunk carries exactly the data given", S.is_slice(r.data, a.data, 0, a.data.n)),
            ("and the requested range", S.And(r.start == S.to_int(a.start), r.end == S.to_int(a.end))),
            ("labelled with the requested data type (or the single provided one)",
             S.eq(r.data_type, _want(S, a, "data_type")))]


def _pc_ctor(eng, args, kw, st, fr, k, node):
    """strax.Chunk(...) inside Plugin.chunk: what the constructor is given (then through its own contract)"""
    from pyvc.library import contract_call
    dt = eng.to_v(st.env["data_type"])
    eng.oblige("plugin-chunk", "the chunk is declared with the PLUGIN's dtype for that data type (so that the constructor compares the "
                               "data's dtype with the promised one, not with itself)", st,
               eng.to_v(kw.get("dtype", PNONE)) == z3.Function("fn:" + DTYPE_FOR, V, V)(dt), node)
    eng.oblige("plugin-chunk", "and with the plugin's data kind for that data type, the data and the range handed in", st,
               z3.And(eng.to_v(kw.get("data_kind", PNONE)) == z3.Function("fn:plugin.data_kind_for", V, V)(dt),
                      z3.BoolVal(kw.get("data") is st.env.get("data")), eng.to_v(kw.get("start", PNONE)) == eng.to_v(st.env["start"]),
                      eng.to_v(kw.get("end", PNONE)) == eng.to_v(st.env["end"])), node)
    return contract_call(eng, CH.chunk_init_rows, list(args), kw, st, fr, k, node)


plugin_chunk = REG.add(Contract(
    F, "Plugin.chunk",
    params=dict(self=PLUGIN, start="V", end="V", data=INTERVALS, data_type="V", run_id="V"),
    ensures=_pc_ens,
    calls={"strax.Chunk": _pc_ctor},
    raises={"ValueError": lambda S, a: S.true, "ValueError:runs": lambda S, a: S.true},
    notes="every constructor failure surfaces as ValueError (Chunk.__init__ contract)",
))
PLUGIN_MODEL.methods["chunk"] = plugin_chunk


# -- Plugin._fix_output, result already a Chunk ------------------------------------------------
def _fo_want(S, a):
    return _want(S, a, "_dtype")


fix_output_chunk = REG.add(Contract(
    F, "Plugin._fix_output", variant="result=Chunk",
    params=dict(self=PLUGIN, result=CHUNK, start="V", end="V", superrun="V", subruns="V", _dtype="V"),
    ensures=lambda S, a, r: [
        ("a chunk is passed on only if it is labelled with the expected data type",
         S.eq(a.result.data_type, _fo_want(S, a))),
        ("a multi-output plugin never gets a bare chunk through", S.Not(S.And(a.self.multi_output, S.is_none(a._dtype))))],
    raises={"ValueError": lambda S, a: S.Or(S.And(a.self.multi_output, S.is_none(a._dtype)),
                                            S.Not(S.eq(a.result.data_type, _fo_want(S, a)))),
            "ValueError:runs": lambda S, a: S.true},
    calls=_CALLS,
))


# -- callers' view of a constructed chunk from Plugin.chunk ------------------------------------------
def _pc_result(eng, st, bound):
    from pyvc.contract import make_symbolic
    ref, st = make_symbolic(eng, eng.new_base("chunk"), CHUNK, st, set())
    st = st.with_cell(ref.base, "data", bound["data"])
    st = st.with_cell(ref.base, "start", eng.to_int(bound["start"]))
    st = st.with_cell(ref.base, "end", eng.to_int(bound["end"]))
    return ref, st


plugin_chunk.make_result = _pc_result

# -- loose callers' view of _fix_output for the recursive call inside the multi-output branch -----------
fix_output_any = Contract(
    F, "Plugin._fix_output", variant="callers-view",
    params=dict(self=PLUGIN, result="V", start="V", end="V", superrun="V", subruns="V", _dtype="V"),
    raises={"ValueError": lambda S, a: S.true, "PluginGaveWrongOutput": lambda S, a: S.true,
            "AssertionError": lambda S, a: S.true, "ValueError:runs": lambda S, a: S.true},
    returns="V")
PLUGIN_MODEL.methods["_fix_output"] = fix_output_any


def _dict_to_rec(eng, args, kw, st, fr, k, node):
    """strax.dict_to_rec: some structured array (its dtype is whatever the conversion produced)."""
    from pyvc.contract import make_symbolic
    from pyvc.engine import St
    rec, st = make_symbolic(eng, eng.new_base("rec"), INTERVALS, st, set())
    eng.assumptions.add("strax.dict_to_rec(x, dtype) returns some structured array; nothing is assumed about its dtype")
    st = St(st.env, st.heap, st.pc, {**st.ghost, "rec": rec})
    return k(rec, st)


def _fo_other_ens(S, a, r):
    single = S.Not(S.And(a.self.multi_output, S.is_none(a._dtype)))
    out = [("a multi-output plugin must deliver a dict",
            S.Implies(S.And(a.self.multi_output, S.is_none(a._dtype)), S.is_instance(a.result, "dict")))]
    if a.ghost._has("rec"):
        rec = a.ghost.rec
        out += [
            ("a bare result is accepted only with a known time range", S.Not(S.is_none(a.start))),
            ("a bare array is wrapped only if its dtype is the promised one (titles removed)",
             _dtype_matches(S, a, rec, _fo_want(S, a))),
            ("the wrapped chunk carries that array over the range handed in",
             S.And(S.is_slice(r.data, rec, 0, rec.n), r.start == S.to_int(a.start), r.end == S.to_int(a.end))),
            ("and is labelled with the expected data type", S.eq(r.data_type, _fo_want(S, a)))]
    return out


def _fo_comp_hook(eng, st, it, node):
    me = st.heap[st.env["self"].base]
    eng.oblige("fix-output", "a multi-output result is taken apart along the plugin's DECLARED outputs (every provided data type must be "
                             "in the dict - a missing one is an error, an extra one is not passed on)", st,
               eng.to_v(it) == eng.to_v(me["provides"]), node)


fix_output_other = REG.add(Contract(
    F, "Plugin._fix_output", variant="result=not-a-Chunk",
    params=dict(self=PLUGIN, result="V", start="V", end="V", superrun="V", subruns="V", _dtype="V"),
    requires=lambda S, a: [("result is not a Chunk", S.Not(S.is_instance(a.result, "strax.Chunk")))],
    ensures=_fo_other_ens,
    raises={"ValueError": lambda S, a: S.true, "PluginGaveWrongOutput": lambda S, a: S.true,
            "AssertionError": lambda S, a: S.true, "ValueError:runs": lambda S, a: S.true},
    calls=dict(_CALLS, **{"strax.dict_to_rec": _dict_to_rec}),
))
fix_output_other.comp_hooks = {1: _fo_comp_hook}



# --------------------------------------------------------------------------------------
# DownChunkingPlugin._fix_output (generator; single-output plugin): only well-labelled chunks are passed on
# --------------------------------------------------------------------------------------
import z3 as _z3  # noqa: E402
from pyvc.engine import V as _V, St as _St, Exc as _Exc  # noqa: E402

FD = "strax/plugins/down_chunking_plugin.py"


def _dc_transform(eng, args, kw, st, fr, k, node):
    """self.superrun_transformation(_result, superrun, subruns) (its own contract: C14)"""
    out = eng.fresh("transformed", "V")
    g = dict(st.ghost)
    g["passed_on"] = eng.to_v(args[-3])
    return k(Opq(out), _St(st.env, st.heap, st.pc, g))


def _dc_zip(eng, args, kw, st, fr, k, node):
    from pyvc.engine import PyZip
    if all(isinstance(x, (list, tuple)) for x in args):
        return k(PyZip(list(args)), st)
    return k(Opq(_z3.Function("fn:zip", _V, _V, _V)(eng.to_v(args[0]), eng.to_v(args[1]))), st)


def _dc_yields(S, a, v):
    item = a.ghost.passed_on
    is_dict = S.is_instance(item, "dict")
    return [("what is passed on is the item the computation just yielded", S.eq(item, S.v(a._result))),
            ("a bare item that is passed on is a strax.Chunk labelled with the plugin's data type",
             S.Implies(S.Not(is_dict), S.And(S.is_instance(item, "strax.Chunk"),
                                             S.eq(S.attr(item, "data_type"), S.getitem(S.attr(a.self, "provides"), 0)),
                                             S.Not(S.truthy(S.attr(a.self, "multi_output"))))))]


down_chunk_fix_output = REG.add(Contract(
    FD, "DownChunkingPlugin._fix_output",
    params=dict(self="V", result="V", start="V", end="V", superrun="V", subruns="V", _dtype="V"),
    ensures=lambda S, a, r: [("the computation's result was a generator", S.is_instance(a.result, "Generator"))],
    raises={"ValueError": lambda S, a: S.true, "Any": lambda S, a: S.true},
    yields=_dc_yields,
    ghost={"passed_on": _z3.Const("nothing_passed_on", _V)},
    calls={"self.superrun_transformation": _dc_transform, "zip": _dc_zip},
    loops={1: Loop(lambda S, a: []),
           2: Loop(lambda S, a: [], body_ensures=lambda S, a: [
               ("every chunk of a yielded dict is labelled with the very key it is filed under",
                S.eq(S.attr(a.v, "data_type"), S.v(a.data_type)))])},
    loop_ghost={1: ["passed_on"], 2: []},
))
