"""Bounded stand-ins for C10 on the real code (concrete-only; labelled bounded, never counted as proved):

* ``apply_selection`` with row selections (string, list of strings, callable) and keep / drop column sets (bare string, tuple,
  list; field names that contain other field names) against an independent numpy filter + projection;
* ``Context.get_array`` on STORED data (source chunking as written and a second, rechunked copy) against the fully loaded array
  filtered by the same predicate and projection: time ranges with end points on / just inside / just outside row and chunk
  boundaries, both modes, seconds_range on a run that does not start on a whole second (with and without run metadata), stored
  versus computed targets, both processors; "no chunk -> explicit error", "no row -> empty", "a partial request saves nothing".
"""

import atexit
import datetime
import logging
import shutil
import tempfile

import numpy as np

from pyvc.contract import Contract
from pyvc.harness import Harness

FU = "strax/utils.py"
FC = "strax/context.py"
_ROOT = tempfile.mkdtemp(prefix="verif_c10_")
atexit.register(lambda: shutil.rmtree(_ROOT, ignore_errors=True))

SEL_DT = np.dtype([(("Start", "time"), np.int64), (("End", "endtime"), np.int64), (("Area", "area"), np.float64),
                   (("Area per channel", "area_per_channel"), np.float64, (2,)), (("Data", "data"), np.int32),
                   (("Data top", "data_top"), np.int32), (("Channel", "channel"), np.int16), (("X", "x"), np.int64)])


def _strax():
    import strax
    return strax


def _rows(rng, n, t0=0):
    x = np.zeros(n, SEL_DT)
    t = t0
    for k in range(n):
        t += rng.randint(0, 3)
        x[k]["time"], x[k]["endtime"] = t, t + rng.randint(1, 4)
        x[k]["area"], x[k]["x"], x[k]["channel"] = rng.randint(0, 9), rng.randint(0, 5), rng.randint(0, 3)
        x[k]["area_per_channel"] = [k, k + 0.5]
        x[k]["data"], x[k]["data_top"] = 10 + k, 100 + k
    return x


SELECTIONS = [None, "x > 2", "(x > 1) & (area < 5)", ["x > 1", "area < 5"], ("channel == 1",), "callable:x_even"]
KEEPS = [None, "area", ("time", "x"), ["area_per_channel"], ("data",), ["time", "endtime", "data_top"]]
DROPS = [None, "area_per_channel", "data_top", ("area",), ["channel", "x"], "x", ("data", "area_per_channel")]


def _mask(x, selection):
    """independent definition of the row predicate"""
    if selection is None:
        return np.ones(len(x), bool)
    if isinstance(selection, str) and selection.startswith("callable:"):
        return x["x"] % 2 == 0
    conds = [selection] if isinstance(selection, str) else list(selection)
    m = np.ones(len(x), bool)
    for c in conds:
        m &= eval(c, {}, {n: x[n] for n in x.dtype.names})
    return m


def _time_mask(x, time_range, mode):
    if time_range is None or mode == "skip":
        return np.ones(len(x), bool)
    lo, hi = time_range
    if mode == "fully_contained":
        return (lo <= x["time"]) & (x["endtime"] <= hi)
    return (x["endtime"] > lo) & (x["time"] < hi)


def _columns(names, keep, drop):
    as_tuple = lambda c: (c,) if isinstance(c, str) else tuple(c)
    if keep:
        return [n for n in names if n in as_tuple(keep)]
    if drop:
        return [n for n in names if n not in as_tuple(drop)]
    return list(names)


def expected_selection(x, selection, keep, drop, time_range, mode):
    rows = x[_time_mask(x, time_range, mode) & _mask(x, selection)]
    return rows, _columns(x.dtype.names, keep, drop)


def _raw(v):
    """clause-level views back to plain numpy / Python values"""
    if hasattr(v, "arr") and hasattr(v, "n"):
        return v.arr
    if isinstance(v, dict):
        return {k: _raw(x) for k, x in v.items()}
    if isinstance(v, (list, tuple)):
        return type(v)(_raw(x) for x in v)
    return v


def same_table(got, rows, cols):
    if list(got.dtype.names) != list(cols):
        return f"columns {list(got.dtype.names)} instead of {list(cols)}"
    if len(got) != len(rows):
        return f"{len(got)} rows instead of {len(rows)}"
    for c in cols:
        if not np.array_equal(got[c], rows[c]):
            return f"column {c}: {got[c].tolist()} instead of {rows[c].tolist()}"
    return None


# ---- apply_selection -------------------------------------------------------------------------------------------
def _as_native(i):
    strax = _strax()
    sel = i["selection"]
    if isinstance(sel, str) and sel.startswith("callable:"):
        sel = lambda x: x["x"] % 2 == 0
    return strax.apply_selection(i["x"].copy(), selection=sel, keep_columns=i["keep_columns"], drop_columns=i["drop_columns"],
                                 time_range=i["time_range"], time_selection=i["time_selection"])


def _as_ens(S, a, r):
    rows, cols = expected_selection(_raw(a.x), _raw(a.selection), _raw(a.keep_columns), _raw(a.drop_columns), _raw(a.time_range), a.time_selection)
    why = same_table(_raw(r), rows, cols)
    return [("the result is the input filtered by the time predicate and the row selection, projected on exactly the kept / not "
             "dropped columns" + (f" [{why}]" if why else ""), why is None)]


def _as_gen(rng, tier):
    n = 0
    for sel in SELECTIONS:
        for keep, drop in [(k, None) for k in KEEPS] + [(None, d) for d in DROPS[1:]]:
            for tr, mode in ((None, "fully_contained"), ((2, 9), "fully_contained"), ((2, 9), "touching")):
                n += 1
                yield dict(x=_rows(rng, rng.randint(0, 7)), selection=sel, keep_columns=keep, drop_columns=drop, time_range=tr,
                           time_selection=mode)
    for _ in range(200 if tier == "quick" else 5000):
        lo = rng.randint(0, 12)
        keep, drop = rng.choice([(rng.choice(KEEPS), None), (None, rng.choice(DROPS))])
        yield dict(x=_rows(rng, rng.randint(0, 9)), selection=rng.choice(SELECTIONS), keep_columns=keep, drop_columns=drop,
                   time_range=rng.choice((None, (lo, lo + rng.randint(0, 9)))), time_selection=rng.choice(("fully_contained", "touching", "skip")))


apply_selection_full = Contract(
    FU, "apply_selection", variant="bounded: selections and columns", params=dict(
        x="V", selection="V", keep_columns="V", drop_columns="V", time_range="V", time_selection="V"),
    ensures=_as_ens, raises={},
    harness=Harness(native=_as_native, gen=_as_gen,
                    scope="rows <= 9 of a dtype whose field names contain each other (area / area_per_channel, data / data_top); "
                          "6 selections (string, conjunction, list, tuple, callable) x 6 keep sets / 6 drop sets (bare string, "
                          "tuple, list) x {no range, fully_contained, touching} + random",
                    nontrivial=lambda i: len(i["x"]) >= 1))


# ---- Context.get_array on stored data --------------------------------------------------------------------------
S_NS = 10 ** 9
LAYOUT = {}
_CTX = {}


def _classes():
    strax = _strax()
    if "cls" in _CTX:
        return _CTX["cls"]
    base = strax.time_fields

    class Things(strax.Plugin):
        provides = "things"
        depends_on = ()
        data_kind = "things"
        dtype = base + [(("Row number", "x"), np.int64), (("Area", "area"), np.int64), (("Area2", "area_2"), np.int64)]
        rechunk_on_save = False
        __version__ = "0"

        def source_finished(self):
            return True

        def is_ready(self, chunk_i):
            return chunk_i < len(LAYOUT["cuts"]) - 1

        def compute(self, chunk_i):
            a, b = LAYOUT["cuts"][chunk_i], LAYOUT["cuts"][chunk_i + 1]
            rows = [(k, r) for k, r in enumerate(LAYOUT["rows"]) if LAYOUT["homes"][k] == chunk_i]
            d = np.zeros(len(rows), self.dtype)
            for j, (k, (t, e)) in enumerate(rows):
                d[j]["time"], d[j]["endtime"], d[j]["x"], d[j]["area"], d[j]["area_2"] = t, e, k, (t * 7) % 5, t % 3
            return self.chunk(start=a, end=b, data=d)

    def _copy(self, things):
        r = np.zeros(len(things), self.dtype)
        for n in r.dtype.names:
            r[n] = things[n]
        return r

    mk = lambda name, save_when, rechunk: type("P_" + name, (strax.Plugin,), dict(
        provides=name, depends_on=("things",), data_kind="things_" + name, dtype=Things.dtype, compute=_copy, __version__="0",
        save_when=save_when, rechunk_on_save=rechunk, chunk_target_size_mb=(1e-4 if rechunk else 200)))
    _CTX["cls"] = [Things, mk("computed", strax.SaveWhen.NEVER, False), mk("rechunked", strax.SaveWhen.ALWAYS, True),
                   mk("kept", strax.SaveWhen.ALWAYS, False)]
    return _CTX["cls"]


def _layout(rng, subsecond):
    """a run of 2-4 chunks; rows may straddle nothing (strax keeps rows within chunks) but may overlap each other"""
    t0 = 1_600_000_000 * S_NS + (S_NS // 2 if subsecond else 0)
    unit = S_NS // 4 if subsecond else 1
    cuts, rows, home = [t0], [], {}
    t = t0
    for c in range(rng.randint(2, 4)):
        n = rng.choice((0, 1, 2, 3))
        for _ in range(n):
            s = t + unit * rng.randint(0, 2)
            e = s + unit * rng.randint(1, 3)
            if (s, e) not in home:
                rows.append((s, e))
                home[(s, e)] = c
            t = s if rng.random() < 0.3 else e
        end = max([e for (s, e) in rows if home[(s, e)] == c], default=t) + unit * rng.choice((0, 1, 2))
        end = max(end, cuts[-1] + unit)
        cuts.append(end)
        t = end
    rows.sort()
    return dict(cuts=cuts, rows=[list(r) for r in rows], homes=[home[r] for r in rows], unit=unit, t0=t0)


def _points(lay):
    u = lay["unit"]
    pts = set()
    for c in lay["cuts"]:
        pts |= {c - u, c, c + u}
    for s, e in lay["rows"]:
        pts |= {s, e, s + u, e - u}
    return sorted(pts)


def _ga_native(i):
    strax = _strax()
    LAYOUT.clear()
    LAYOUT.update(i["layout"])
    d = tempfile.mkdtemp(dir=_ROOT)
    lg = logging.getLogger("strax")
    old_level = lg.level
    lg.setLevel(logging.CRITICAL)
    try:
        cfg = dict(allow_multiprocess=False, timeout=30)
        st = strax.Context(storage=[strax.DataDirectory(d, provide_run_metadata=i["run_metadata"])], register=_classes(), config={}, **cfg)
        st.set_context_config({"forbid_creation_of": ()})
        for t in ("things", "rechunked", "kept") if i["target"] != "kept" else ("things", "rechunked"):
            st.make("0", t, progress_bar=False)
        if i["run_metadata"]:
            utc = datetime.timezone.utc
            st.storage[0].write_run_metadata("0", dict(
                name="0", start=datetime.datetime.fromtimestamp(LAYOUT["t0"] / S_NS, tz=utc),
                end=datetime.datetime.fromtimestamp(LAYOUT["cuts"][-1] / S_NS + 1, tz=utc)))
        full = st.get_array("0", i["target"] if i["target"] != "kept" else "computed", progress_bar=False)
        kw = dict(i["request"])
        proc = dict(processor="single_thread") if i["processor"] == "single_thread" else {}
        out = dict(full=full, error=None, got=None, stored_after=None)
        try:
            out["got"] = st.get_array("0", i["target"], progress_bar=False, **kw, **proc)
        except Exception as ex:     # noqa
            out["error"] = f"{type(ex).__name__}: {str(ex)[:120]}"
            out["error_type"] = type(ex).__name__
        if i["target"] == "kept":
            out["stored_after"] = st.is_stored("0", "kept")
        return out
    finally:
        lg.setLevel(old_level)
        shutil.rmtree(d, ignore_errors=True)


def _abs_range(i):
    req, lay = i["request"], i["layout"]
    if "time_range" in req:
        return tuple(req["time_range"])
    if "seconds_range" in req:
        t0 = (lay["t0"] // S_NS) * S_NS          # "seconds since run start", the start counted in whole seconds
        return tuple(t0 + int(S_NS * s) for s in req["seconds_range"])
    return None


def _ga_ens(S, a, r):
    r = _raw(r)
    a = type("A", (), dict(layout=_raw(a.layout), request=_raw(a.request), target=a.target))
    i = dict(layout=a.layout, request=a.request)
    tr = _abs_range(i)
    mode = a.request.get("time_selection", "fully_contained")
    full = r["full"]
    rows, cols = expected_selection(full, a.request.get("selection"), a.request.get("keep_columns"), a.request.get("drop_columns"), tr, mode)
    cuts = a.layout["cuts"]
    out = []
    overlaps_a_chunk = tr is None or any(c0 < tr[1] and tr[0] < c1 for c0, c1 in zip(cuts[:-1], cuts[1:]))
    if a.target == "kept" and tr is not None:
        out.append((f"a time range on a data type that is not stored but would be saved is refused outright (nothing partial is computed "
                    f"and saved) [{r['error']}]", r["got"] is None and r.get("error_type") == "DataNotAvailable"))
    elif not overlaps_a_chunk:
        out.append((f"a range overlapping no chunk yields an explicit error, not data [{r['error']}, got {None if r['got'] is None else len(r['got'])} rows]",
                    r["got"] is None and r["error"] is not None))
    else:
        why = "raised " + r["error"] if r["error"] else same_table(r["got"], rows, cols)
        out.append(("the rows and columns returned are exactly the fully loaded result filtered by the same predicate and projection"
                    + (f" [{why}]" if why else ""), why is None))
    if a.target == "kept":
        partial = tr is not None or a.request.get("selection") is not None or a.request.get("keep_columns") is not None \
            or a.request.get("drop_columns") is not None
        out.append(("a partial request saves nothing (and a complete one saves its ALWAYS target)", r["stored_after"] == (not partial)
                    or (r["error"] is not None and not r["stored_after"])))
    return out


def _ga_gen(rng, tier):
    n_lay = 6 if tier == "quick" else 60
    for li in range(n_lay):
        subsecond = li % 2 == 1
        lay = _layout(rng, subsecond)
        if not lay["rows"]:
            continue
        pts = _points(lay)
        pairs = [(lo, hi) for lo in pts for hi in pts if lo < hi]
        rng.shuffle(pairs)
        for (lo, hi) in pairs[: (10 if tier == "quick" else 60)]:
            for mode in ("fully_contained", "touching"):
                target = rng.choice(("things", "rechunked", "computed", "things", "rechunked"))
                req = dict(time_range=(lo, hi), time_selection=mode)
                extra = rng.choice(({}, {}, dict(selection="x > 1"), dict(selection=["x >= 1", "area < 4"]), dict(keep_columns=("time", "area")),
                                    dict(drop_columns="area_2"), dict(drop_columns=("area",)), dict(keep_columns="area")))
                req.update(extra)
                yield dict(layout=lay, request=req, target=target, processor=rng.choice(("threaded", "single_thread")), run_metadata=False)
        # seconds since run start, with and without run metadata
        secs = [(0, 1), (0.5, 1.5), (1, 3), (0.25, 0.75), (0, 0.25), (2, 2.75)]
        for sr in secs[: (3 if tier == "quick" else 6)]:
            for md in (False, True):
                yield dict(layout=lay, request=dict(seconds_range=sr, time_selection=rng.choice(("fully_contained", "touching"))),
                           target=rng.choice(("things", "rechunked")), processor="threaded", run_metadata=md)
        # nothing saved by a partial request; a complete one saves
        lo, hi = pairs[0]
        yield dict(layout=lay, request=dict(time_range=(lo, hi)), target="kept", processor="threaded", run_metadata=False)
        yield dict(layout=lay, request=dict(selection="x >= 0"), target="kept", processor="threaded", run_metadata=False)
        yield dict(layout=lay, request=dict(), target="kept", processor="threaded", run_metadata=False)


get_array_selection = Contract(
    FC, "Context.get_array", variant="bounded: selections on stored data", params=dict(
        layout="V", request="V", target="V", processor="V", run_metadata="V"),
    ensures=_ga_ens, raises={},
    harness=Harness(native=_ga_native, gen=_ga_gen,
                    scope="runs of 2-4 chunks x 0-3 (overlapping) rows, starting on a whole second (unit 1 ns) or half way a second "
                          "(unit 0.25 s); stored as written, stored rechunked, computed on the fly; time ranges with both end points "
                          "from {chunk boundary, row start, row end} +- 1 unit, both modes, with selections / keep / drop columns; "
                          "seconds_range with and without run metadata; both processors; an ALWAYS-saved target under partial and "
                          "complete requests (quick: 6 layouts x ~26 requests)",
                    nontrivial=lambda i: True))
