"""Contracts for strax/mailbox.py (C05 exactly-once in-order delivery, C13 capacity / fetch gate, C06 failure relay).

The Mailbox is a monitor: all shared state is touched under ``self._lock`` and threads wait only through
``Condition.wait_for``.  Its functions are verified section by section against the monitor invariant below (see
pyvc/monitor.py), which covers every interleaving of senders and readers.  Ghost history:

    Sent    : Int -> Bool     message numbers ever pushed
    SentMsg : Int -> V        the message pushed under each number
    End     : Int             number of the end marker (meaningful once ``closed``)
"""

import z3

from pyvc.contract import Contract, Loop, REG
from pyvc.engine import (ObjT, ClassModel, ListT, HeapT, Opq, PNONE, PINF, V, Exc, St, NONE, int2v, v2int, truthy)
from pyvc.library import Abstract, inline_source, inline_property, inline_method
from pyvc.monitor import Monitor
from pyvc.generators import IterT

F = "strax/mailbox.py"
STOP = z3.Const("global:StopIteration", V)
_n, _s, _k = z3.Ints("mq_n mq_s mq_k")


# --------------------------------------------------------------------------------------
# spec functions over the abstract state
# --------------------------------------------------------------------------------------
def nsub(o):
    return o._subscribers_have_read.n


def R(o, s):
    return o._subscribers_have_read.at(s)


def W(o, s):
    return o._subscriber_waiting_for.at(s)


def D(o, s):
    return o._subscriber_can_drive.at(s)


def can_fetch_spec(o):
    """_can_fetch as a formula: killed, or nobody still waits for a message we hold and a driver is waiting."""
    h = o._mailbox
    blocked = z3.And(h.size > 0, z3.Exists([_s], z3.And(0 <= _s, _s < nsub(o), W(o, _s) != NONE, v2int(W(o, _s)) <= h.lowest)))
    driver = z3.Exists([_s], z3.And(0 <= _s, _s < nsub(o), D(o, _s), W(o, _s) != NONE))
    return z3.Or(o.killed, z3.And(z3.Not(blocked), driver))


def invariant(S, o, g, gc_done=True):
    h = o._mailbox
    sent = lambda n: z3.Select(g.Sent, n)
    smsg = lambda n: z3.Select(g.SentMsg, n)
    cl = [
        ("I0 one entry per subscriber in all three lists",
         z3.And(nsub(o) >= 0, o._subscriber_waiting_for.n == nsub(o), o._subscriber_can_drive.n == nsub(o), o._n_sent >= 0)),
        ("I1 every buffered message was sent, under its own number",
         z3.ForAll([_n], z3.Implies(h.has(_n), z3.And(sent(_n), h.msg(_n) == smsg(_n))))),
        ("I1b message numbers are non-negative", z3.ForAll([_n], z3.Implies(sent(_n), _n >= 0))),
        ("I2 a subscriber has only read messages that were sent",
         z3.ForAll([_s, _k], z3.Implies(z3.And(0 <= _s, _s < nsub(o)),
                                        z3.And(R(o, _s) >= -1, z3.Implies(z3.And(0 <= _k, _k <= R(o, _s)), sent(_k)))))),
        ("I3 no loss: a sent message some subscriber has not read yet is still buffered",
         z3.ForAll([_s, _n], z3.Implies(z3.And(0 <= _s, _s < nsub(o), sent(_n), _n > R(o, _s)), h.has(_n)))),
        ("I5 once closed (and not killed), the end marker is the highest message; before closing no end marker exists",
         z3.If(o.closed,
               z3.Or(o.killed, z3.And(sent(g.End), smsg(g.End) == STOP, z3.ForAll([_n], z3.Implies(sent(_n), _n <= g.End)))),
               z3.ForAll([_n], z3.Implies(sent(_n), smsg(_n) != STOP)))),
        ("I5b there is at most one end marker, and it is the message numbered End",
         z3.ForAll([_n], z3.Implies(z3.And(sent(_n), smsg(_n) == STOP), _n == g.End))),
        ("I8 a force-killed mailbox is killed", z3.Implies(o.force_killed, o.killed)),
        ("I9 waiting_for entries are None or a message number",
         z3.ForAll([_s], z3.Implies(z3.And(0 <= _s, _s < nsub(o)),
                                    z3.Or(W(o, _s) == NONE, W(o, _s) == int2v(v2int(W(o, _s))))))),
    ]
    if gc_done:
        cl.append(("I11 only undelivered messages are held: every buffered message is still needed by some subscriber",
                   z3.Implies(nsub(o) > 0, z3.ForAll([_n], z3.Implies(h.has(_n), z3.Exists([_s], z3.And(
                       0 <= _s, _s < nsub(o), _n > R(o, _s))))))))
    if o.max_messages is not PINF:
        cl.append(("I4 the buffer never holds more than max_messages undelivered messages", h.size <= o.max_messages))
    else:
        cl.append(("I10 (lazy) implicit numbering: every number sent lies below the send counter",
                   z3.ForAll([_n], z3.Implies(sent(_n), _n < o._n_sent))))
    return cl


def guarantee(S, o0, g0, o1, g1, me):
    """What every section promises to the other threads (between its start 0 and its end 1)."""
    cl = [
        ("G1 history only grows", z3.ForAll([_n], z3.Implies(z3.Select(g0.Sent, _n), z3.And(
            z3.Select(g1.Sent, _n), z3.Select(g1.SentMsg, _n) == z3.Select(g0.SentMsg, _n))))),
        ("G2 subscribers are only added; read positions only advance; drive flags are fixed",
         z3.And(nsub(o0) <= nsub(o1), z3.ForAll([_s], z3.Implies(z3.And(0 <= _s, _s < nsub(o0)), z3.And(
             R(o1, _s) >= R(o0, _s), D(o1, _s) == D(o0, _s)))))),
        ("G3 closed / killed / force_killed are never reset, the kill reason is set once",
         z3.And(z3.Implies(o0.closed, o1.closed), z3.Implies(o0.killed, o1.killed),
                z3.Implies(o0.force_killed, o1.force_killed),
                z3.Implies(o0.killed, o1.killed_because == o0.killed_because),
                z3.Implies(o0.closed, g1.End == g0.End), o1._n_sent >= o0._n_sent)),
        ("G4 a thread writes only its own subscriber's read position and demand",
         z3.ForAll([_s], z3.Implies(z3.And(0 <= _s, _s < nsub(o0), _s != (me if (me is not None and not isinstance(me, (str, tuple))) else -1)),
                                    z3.And(R(o1, _s) == R(o0, _s), W(o1, _s) == W(o0, _s))))),
    ]
    return cl


def rely(S, o0, g0, o1, g1, me):
    cl = [c for c in guarantee(S, o0, g0, o1, g1, None) if not c[0].startswith("G4")]
    if isinstance(me, str) and me == "registering":
        # protocol assumption (caller obligation of the property): all subscribers register before the first send
        cl.append(("R-protocol nothing is sent while subscribers are still registering",
                   z3.ForAll([_n], z3.Not(z3.Select(g1.Sent, _n)))))
        return cl
    if isinstance(me, tuple) and me[0] == "sender":
        # protocol assumptions for a sending thread (caller obligations of the property):
        #  * implicit numbering (msg_number None): this is the only thread that sends to / closes the mailbox;
        #  * explicit numbering: nobody else uses this thread's message number, and the mailbox is not closed under it.
        num = me[1]
        same_hist = z3.ForAll([_n], z3.And(z3.Select(g1.Sent, _n) == z3.Select(g0.Sent, _n)))
        cl.append(("R-sender the only (implicit) sender / distinct explicit numbers; nobody closes under a pending send",
                   z3.And(o1.closed == o0.closed,
                          z3.If(num == NONE, z3.And(same_hist, o1._n_sent == o0._n_sent),
                                z3.Select(g1.Sent, v2int(num)) == z3.Select(g0.Sent, v2int(num))))))
        return cl
    if me is not None:
        cl.append(("R-me only this thread writes its own entries",
                   z3.And(R(o1, me) == R(o0, me), W(o1, me) == W(o0, me))))
    return cl


SIGNALS = {
    "_read_condition": lambda S, o0, g0, o1, g1: z3.Or(
        z3.And(z3.Not(o0.killed), o1.killed),
        z3.Exists([_n], z3.And(z3.Not(o0._mailbox.has(_n)), o1._mailbox.has(_n)))),
    "_write_condition": lambda S, o0, g0, o1, g1: z3.Or(
        z3.And(z3.Not(o0.killed), o1.killed),
        (z3.And(o0._mailbox.size >= o0.max_messages, o1._mailbox.size < o1.max_messages)
         if o0.max_messages is not PINF else z3.BoolVal(False))),
    "_fetch_new_condition": lambda S, o0, g0, o1, g1: z3.And(
        o1.lazy if isinstance(o1.lazy, z3.ExprRef) else z3.BoolVal(bool(o1.lazy)),
        z3.Not(can_fetch_spec(o0)), can_fetch_spec(o1)),
}

SHARED = ["closed", "killed", "force_killed", "killed_because", "_mailbox", "_subscribers_have_read",
          "_subscriber_waiting_for", "_subscriber_can_drive", "_n_sent"]
GHOST = ["Sent", "SentMsg", "End"]
MON = Monitor(invariant, guarantee, rely, SIGNALS, SHARED, GHOST)

GHOST0 = {"Sent": z3.Array("Sent", z3.IntSort(), z3.BoolSort()), "SentMsg": z3.Array("SentMsg", z3.IntSort(), V),
          "End": z3.Int("End")}


# --------------------------------------------------------------------------------------
# object model
# --------------------------------------------------------------------------------------
def _lock_of(eng, st, expr):
    """``with self._lock`` / ``with m._lock``"""
    import ast
    if isinstance(expr, ast.Attribute) and expr.attr == "_lock" and isinstance(expr.value, ast.Name):
        v = st.env.get(expr.value.id)
        return v
    return None


MB_MODEL = ClassModel(
    props={"_n_subscribers": inline_property(F, "Mailbox._n_subscribers"),
           "_lowest_msg_number": inline_property(F, "Mailbox._lowest_msg_number")},
    methods={})


def mailbox_t(lazy):
    const = lambda v: (lambda eng, name, st: (v, st))
    return ObjT("Mailbox", model=MB_MODEL, name="V", timeout="V", log="V",
                lazy=const(z3.BoolVal(lazy)), max_messages=(const(PINF) if lazy else "int"),
                closed="bool", killed="bool", force_killed="bool", killed_because="V",
                _mailbox=HeapT(), _subscribers_have_read=ListT("int"), _subscriber_waiting_for=ListT("V"),
                _subscriber_can_drive=ListT("bool"), _n_sent="int", _lock="V",
                _read_condition="V", _write_condition="V", _fetch_new_condition="V")


def _inv_requires(S, a):
    """At entry the (unlocked) mailbox satisfies the monitor invariant."""
    return invariant(S, a.self, a.ghost)


def _needed_wait(obj, cname, me):
    """wait_for wrapper: a thread goes to sleep only when its wait predicate is really false (blocks only if needed)"""
    base_of = lambda: MON.wait_handler(lambda eng, st: st.env[obj], me)

    def h(eng, args, kw, st, fr, k, node):
        o = eng.resolve(st.env[obj], st.heap)
        if cname == "_write_condition" and o.max_messages is not PINF:
            eng.oblige("backpressure", "a sender sleeps only when the buffer is full (and the mailbox is not killed)", st,
                       z3.And(o._mailbox.size >= o.max_messages, z3.Not(o.killed)), node)
        if cname == "_fetch_new_condition":
            eng.oblige("backpressure", "the fetcher sleeps only when the fetch gate is closed", st,
                       z3.Not(can_fetch_spec(o)), node)
        return base_of()(eng, args, kw, st, fr, k, node)
    return h


def mon_calls(obj="self", me=None, extra=None):
    ref_of = lambda eng, st: st.env[obj]
    calls = {
        f"{obj}._read_condition.notify_all": MON.notify_handler("_read_condition"),
        f"{obj}._write_condition.notify_all": MON.notify_handler("_write_condition"),
        f"{obj}._fetch_new_condition.notify_all": MON.notify_handler("_fetch_new_condition"),
        f"{obj}._read_condition.wait_for": MON.wait_handler(ref_of, me),
        f"{obj}._write_condition.wait_for": _needed_wait(obj, "_write_condition", me),
        f"{obj}._fetch_new_condition.wait_for": _needed_wait(obj, "_fetch_new_condition", me),
        f"{obj}.log.debug": Abstract(sort=None),
    }
    calls.update(extra or {})
    return calls


# --------------------------------------------------------------------------------------
# observers (callers hold the lock)
# --------------------------------------------------------------------------------------
def _has_msg_result(eng, st, bound):
    o = eng.resolve(bound["self"], st.heap)
    return z3.Or(o.killed, o._mailbox.has(eng.to_int(bound["number"]))), st


def _get_msg_result(eng, st, bound):
    o = eng.resolve(bound["self"], st.heap)
    return Opq(o._mailbox.msg(eng.to_int(bound["number"]))), st


def _can_fetch_result(eng, st, bound):
    o = eng.resolve(bound["self"], st.heap)
    return can_fetch_spec(o), st


def _mk_observers(lazy):
    T = mailbox_t(lazy)
    has_msg = Contract(F, "Mailbox._has_msg", params=dict(self=T, number="int"), raises={}, make_result=_has_msg_result,
                       variant=f"abstract heap, lazy={lazy}",
                       notes="abstract view of the heapq list: membership of the number (or killed)")
    get_msg = Contract(F, "Mailbox._get_msg", params=dict(self=T, number="int"),
                       requires=lambda S, a: [("the message is in the buffer", a.self._mailbox.has(a.number))],
                       raises={}, make_result=_get_msg_result, variant=f"abstract heap, lazy={lazy}")
    return has_msg, get_msg


HAS_MSG_E, GET_MSG_E = _mk_observers(False)
HAS_MSG_L, GET_MSG_L = _mk_observers(True)


# -- the same two functions verified on the concrete list of (number, message) pairs ----------------------
MB_LIST = ObjT("Mailbox", model=ClassModel(props={"_lowest_msg_number": inline_property(F, "Mailbox._lowest_msg_number")}),
               killed="bool", _mailbox=ListT(("int", "V")))

has_msg_list = REG.add(Contract(
    F, "Mailbox._has_msg", variant="list of pairs",
    params=dict(self=MB_LIST, number="int"),
    ensures=lambda S, a, r: [("true exactly when killed or some buffered pair carries this number",
                              S.Iff(r, S.Or(a.self.killed, S.exists(0, a.self._mailbox.n, lambda i: a.self._mailbox.at(i, 0) == a.number))))],
    raises={}))

get_msg_list = REG.add(Contract(
    F, "Mailbox._get_msg", variant="list of pairs",
    params=dict(self=MB_LIST, number="int"),
    ensures=lambda S, a, r: [("returns the message of the first buffered pair with this number",
                              S.exists(0, a.self._mailbox.n, lambda i: S.And(
                                  a.self._mailbox.at(i, 0) == a.number, a.self._mailbox.at(i, 1) == r,
                                  S.forall(0, i, lambda j: a.self._mailbox.at(j, 0) != a.number))))],
    raises={"RuntimeError": lambda S, a: S.forall(0, a.self._mailbox.n, lambda i: a.self._mailbox.at(i, 0) != a.number)},
    loops={1: Loop(lambda S, a: [("no earlier pair carries the number",
                                  S.forall(0, a.k_, lambda j: a.self._mailbox.at(j, 0) != a.number))])}))


# --------------------------------------------------------------------------------------
# _can_fetch (lazy mode only)
# --------------------------------------------------------------------------------------
MB_LAZY = mailbox_t(True)
MB_EAGER = mailbox_t(False)


def _cf_loop_inv(S, a):
    o = a.self
    return [("no driver seen so far is waiting",
             S.forall(0, a.k_, lambda j: S.Not(S.And(D(o, j), W(o, j) != NONE))))]


can_fetch = REG.add(Contract(
    F, "Mailbox._can_fetch",
    params=dict(self=MB_LAZY),
    requires=_inv_requires,
    ensures=lambda S, a, r: [("True exactly if killed, or nobody still waits for a buffered message and a driving reader waits",
                              S.Iff(r, can_fetch_spec(a.self)))],
    raises={},
    loops={1: Loop(_cf_loop_inv)},
    ghost=GHOST0,
    make_result=_can_fetch_result,
    calls={"self.log.debug": Abstract(sort=None)},
    notes="callers hold the lock; pure observer",
))


MB_MODEL.methods["_can_fetch"] = can_fetch

# --------------------------------------------------------------------------------------
# kill / subscribe / send / close
# --------------------------------------------------------------------------------------
def _both(name, build):
    """Register the eager and the lazy variant of a contract."""
    out = []
    for lazy in (False, True):
        out.append(REG.add(build(mailbox_t(lazy), "lazy" if lazy else "eager", lazy)))
    return out


def _kill(T, tag, lazy):
    return Contract(
        F, "Mailbox.kill", variant=tag,
        params=dict(self=T, upstream="bool", reason="V"),
        requires=_inv_requires,
        ensures=lambda S, a, r: [("the mailbox is killed", a.self.killed),
                                 ("an upstream kill also force-kills", S.Implies(a.upstream, a.self.force_killed))],
        raises={}, ghost=GHOST0,
        with_handler=MON.with_handler(_lock_of),
        calls=mon_calls(),
    )


KILL_E, KILL_L = _both("kill", _kill)


def _subscribe(T, tag, lazy):
    return Contract(
        F, "Mailbox.subscribe", variant=tag,
        params=dict(self=T, can_drive="bool"),
        requires=lambda S, a: _inv_requires(S, a) + [
            ("subscribers register before the first message is sent", z3.ForAll([_n], z3.Not(z3.Select(a.ghost.Sent, _n))))],
        ensures=lambda S, a, r: [("a new subscriber exists", nsub(a.self) >= 1)],
        raises={}, ghost=GHOST0,
        with_handler=MON.with_handler(_lock_of, me="registering"),
        calls=mon_calls(extra={"self._read": Abstract(sort="V", note="the reader generator for the new subscriber")}),
    )


SUBSCRIBE_E, SUBSCRIBE_L = _both("subscribe", _subscribe)


def _int_like(S, x):
    """msg_number == int(msg_number) without ValueError: modelled as 'is an int value'"""
    return x == int2v(v2int(x))


def _remember_number(eng, st):
    """ghost: the message number this send was called with (None = implicit numbering)"""
    return St(st.env, st.heap, st.pc, {**st.ghost, "my_number": st.env["msg_number"].t})


def _sender_me(st):
    return ("sender", st.ghost["my_number"])


def _send_exc(S, a, exc):
    """precision of send's own refusals (state at the raise)"""
    o = a.self
    if exc.origin != "stmt":
        return []
    if exc.cls == "InvalidMessageNumber":
        num = a.local.msg_number
        numi = S.to_int(num)
        return [("a message number is refused only if it is not an integer or every subscriber has already read past it",
                 S.Or(S.Not(S.int_valued(num)),
                      S.And(nsub(o) == 0, numi <= -1),
                      S.And(nsub(o) > 0, z3.ForAll([_s], z3.Implies(z3.And(0 <= _s, _s < nsub(o)), numi <= R(o, _s))))))]
    if exc.cls == "MailBoxAlreadyClosed":
        return [("refused as closed only if closed", o.closed)]
    if exc.cls == "MailboxKilled":
        return [("MailboxKilled only from a force-killed mailbox, carrying the recorded reason", S.And(o.force_killed, o.killed))]
    return []


def _send(T, tag, lazy):
    def requires(S, a):
        cl = _inv_requires(S, a) + [
            ("users never send the end marker themselves (close does)", a.msg != STOP),
            ("with implicit numbering all earlier numbers lie below the send counter (sole, implicit sender)",
             S.Implies(S.is_none(a.msg_number), z3.ForAll([_n], z3.Implies(z3.Select(a.ghost.Sent, _n), _n < a.self._n_sent)))),
            ("an explicit message number is used at most once",
             S.Implies(S.Not(S.is_none(a.msg_number)), S.Not(z3.Select(a.ghost.Sent, v2int(a.msg_number))))),
        ]
        if lazy:
            cl.append(("lazy mode numbers messages implicitly", S.is_none(a.msg_number)))
        return cl
    return Contract(
        F, "Mailbox.send", variant=tag,
        params=dict(self=T, msg="V", msg_number="V"),
        requires=requires,
        ensures=lambda S, a, r: [("on return the mailbox is killed (message dropped) or the message is part of the history",
                                  S.Or(a.self.killed, S.And(
                                      z3.Select(a.ghost.Sent, S.to_int(a.local.msg_number)),
                                      z3.Select(a.ghost.SentMsg, S.to_int(a.local.msg_number)) == a.msg))),
                                 ("send returns normally only on a mailbox that is not force-killed: the sender of a force-killed mailbox is "
                                  "stopped by MailboxKilled (carrying the reason), it does not carry on as if the message was merely lost",
                                  S.Not(a.self.force_killed)),
                                 ("implicit numbering stays usable: every number sent lies below the send counter again",
                                  S.Implies(S.is_none(a.msg_number),
                                            z3.ForAll([_n], z3.Implies(z3.Select(a.ghost.Sent, _n), _n < a.self._n_sent))))],
        raises={"MailBoxAlreadyClosed": lambda S, a: S.true, "MailboxKilled": lambda S, a: S.true,
                "InvalidMessageNumber": lambda S, a: S.true, "MailboxFullTimeout": lambda S, a: S.true},
        exc_ensures=_send_exc,
        ghost=GHOST0,
        with_handler=MON.with_handler(_lock_of, me=_sender_me),
        calls=mon_calls(me=_sender_me),
        local_sorts={"msg_number": "V"},
        setup=_remember_number,
    )


SEND_E, SEND_L = _both("send", _send)


# --------------------------------------------------------------------------------------
# close
# --------------------------------------------------------------------------------------
def _push_and_mark_end(eng, args, kw, st, fr, k, node):
    """heappush as in the library model; pushing the end marker also sets the ghost End."""
    from pyvc.library import LIB

    def after(res, s2):
        item = args[1]
        g = dict(s2.ghost)
        g["End"] = z3.If(eng.to_v(item[1]) == STOP, eng.to_int(item[0]), g["End"])
        return k(res, St(s2.env, s2.heap, s2.pc, g))
    return LIB["heapq.heappush"](eng, args, kw, st, fr, after, node)


def _closer_me(st):
    return ("sender", NONE)      # the closing thread is the (implicit) sender


def _close(T, tag, lazy):
    def requires(S, a):
        return _inv_requires(S, a) + [
            ("the end marker gets the next number: all earlier numbers lie below the send counter (sole, implicit sender)",
             z3.ForAll([_n], z3.Implies(z3.Select(a.ghost.Sent, _n), _n < a.self._n_sent)))]
    return Contract(
        F, "Mailbox.close", variant=tag,
        params=dict(self=T),
        requires=requires,
        ensures=lambda S, a, r: [
            ("the mailbox is closed", a.self.closed),
            ("unless it was killed, the end marker has been sent as the highest-numbered message",
             S.Or(a.self.killed, S.And(z3.Select(a.ghost.Sent, a.ghost.End), z3.Select(a.ghost.SentMsg, a.ghost.End) == STOP,
                                       z3.ForAll([_n], z3.Implies(z3.Select(a.ghost.Sent, _n), _n <= a.ghost.End)))))],
        raises={"MailBoxAlreadyClosed": lambda S, a: S.true, "MailboxKilled": lambda S, a: S.true,
                "MailboxFullTimeout": lambda S, a: S.true, "InvalidMessageNumber": lambda S, a: S.true},
        ghost=GHOST0,
        expected_dead=[("raise InvalidMessageNumber", "Msg numbers must be integers"),
                       ("raise InvalidMessageNumber", "Attempt to send message")],
        with_handler=MON.with_handler(_lock_of, me=_closer_me),
        calls=mon_calls(me=_closer_me, extra={"self.send": inline_method(F, "Mailbox.send"),
                                               "heapq.heappush": _push_and_mark_end}),
        local_sorts={"msg_number": "V"},
    )


CLOSE_E, CLOSE_L = _both("close", _close)


# --------------------------------------------------------------------------------------
# _read: the reader generator of one subscriber
# --------------------------------------------------------------------------------------
IS_FUTURE = z3.Function("isinstance:Future", V, z3.BoolSort())
FUT_RESULT = z3.Function("fn:future_result", V, V)


def res_of(m):
    """what a subscriber is handed for message m: the result of a future, the message itself otherwise"""
    return z3.If(IS_FUTURE(m), FUT_RESULT(m), m)


def _future_result(eng, args, kw, st, fr, k, node):
    fr.on_raise(Exc("TimeoutError"), st)
    fr.on_raise(Exc("Any", Opq(eng.fresh("future_exc", "V"))), st)      # the future's own exception
    return k(Opq(FUT_RESULT(st.env["msg"].t)), st)


def _kfe_reraise_default():
    """the default of kill_from_exception's ``reraise`` parameter, read from the real source"""
    import ast as _ast
    from pyvc.engine import find_function
    fn, _ = find_function(F, "Mailbox.kill_from_exception")
    names = [a_.arg for a_ in fn.args.args]
    defaults = dict(zip(names[len(names) - len(fn.args.defaults):], fn.args.defaults))
    d = defaults.get("reraise")
    return isinstance(d, _ast.Constant) and d.value is True


def _kill_from_exception_callee(eng, args, kw, st, fr, k, node):
    """self.kill_from_exception(e) from the reader: kills the mailbox (its own locked section, contract KFE) and - with the
    default reraise=True - re-raises e unless e is a MailboxKilled (then the next look at the mailbox raises MailboxKilled)"""
    reraises = eng.truth(kw["reraise"]) if "reraise" in kw else z3.BoolVal(_kfe_reraise_default())
    eng.oblige("relay", "an exception the consumer throws in at the yield is re-raised by the reader after the kill "
                        "(kill_from_exception is called with reraise true - its default)", st, reraises, node)
    e = eng.to_v(args[-1]) if args else NONE
    fr.on_raise(Exc("Any", Opq(eng.fresh("reraised", "V"))), st)
    return k(PNONE, st.assume(z3.Or(IS_MBK_EARLY(e), z3.Not(reraises))))


IS_MBK_EARLY = z3.Function("isinstance:MailboxKilled", V, z3.BoolSort())


def _reader_me(st):
    return st.env["subscriber_i"]


def _sent(a, n):
    return z3.Select(a.ghost.Sent, n)


def _smsg(a, n):
    return z3.Select(a.ghost.SentMsg, n)


def _delivered_ok(S, a):
    """the output so far is exactly the results of messages 0 .. nout-1, none of them the end marker"""
    return S.forall(0, a.out.n, lambda j: S.And(_sent(a, j), a.out.at(j) == res_of(_smsg(a, j)), _smsg(a, j) != STOP))


def _rd_inv1(S, a):
    """loop over sections (lock not held): only facts that no other thread can invalidate"""
    o, me = a.self, a.subscriber_i
    nn = a.next_number
    return [
        ("this reader is a registered subscriber", S.And(0 <= me, me < nsub(o))),
        ("its read position and demand are up to date", S.And(R(o, me) == nn - 1, W(o, me) == NONE, nn >= 0)),
        ("everything below next_number was sent", S.forall(0, nn, lambda j: _sent(a, j))),
        ("exactly the messages before next_number (minus the end marker) have been delivered, in order",
         S.And(a.out.n == nn - S.If(a.last_message, 1, 0), _delivered_ok(S, a))),
        ("last_message means the previous message was the end marker",
         S.Implies(a.last_message, S.And(nn >= 1, _smsg(a, nn - 1) == STOP))),
    ]


def _n0(a):
    return a.next_number - a.to_yield.n


def _ty_facts(S, a):
    ty, n0 = a.to_yield, _n0(a)
    return [
        ("to_yield holds the consecutive messages n0, n0+1, ... as sent",
         S.And(ty.n >= 0, S.forall(0, ty.n, lambda j: S.And(ty.at(j, 0) == n0 + j, _sent(a, n0 + j), ty.at(j, 1) == _smsg(a, n0 + j))))),
        ("every collected number was sent", S.forall(n0, a.next_number, lambda m: _sent(a, m))),
        ("only the last collected message can be the end marker, and last_message says whether it is",
         S.And(S.forall(0, ty.n - 1, lambda j: ty.at(j, 1) != STOP),
               S.Iff(a.last_message, S.And(ty.n >= 1, ty.at(ty.n - 1, 1) == STOP)))),
    ]


def _rd_inv2(S, a):
    """collecting loop, lock held, mailbox not killed"""
    o, me = a.self, a.subscriber_i
    return [
        ("registered, not killed", S.And(0 <= me, me < nsub(o), S.Not(o.killed), a.next_number >= 0, _n0(a) >= 0)),
        ("read position not yet advanced", S.And(R(o, me) == _n0(a) - 1, W(o, me) == NONE)),
        ("delivered so far: everything below n0", S.And(a.out.n == _n0(a), _delivered_ok(S, a))),
    ] + _ty_facts(S, a)


def _rd_inv3(S, a):
    """garbage-collection loop, lock held: the monitor invariant holds at every iteration"""
    o, me = a.self, a.subscriber_i
    return [("registered", S.And(0 <= me, me < nsub(o), S.Not(o.killed))),
            ("read position advanced to the last collected message", S.And(R(o, me) == a.next_number - 1, W(o, me) == NONE)),
            ("delivered so far: everything below n0", S.And(a.out.n == _n0(a), _delivered_ok(S, a), _n0(a) >= 0)),
            ] + _ty_facts(S, a) + [("monitor " + l, f) for l, f in invariant(S, o, a.ghost, gc_done=False)]


def _rd_inv4(S, a):
    """hand-out loop (lock not held): position k_ in to_yield"""
    o, me = a.self, a.subscriber_i
    return [
        ("registered", S.And(0 <= me, me < nsub(o), _n0(a) >= 0)),
        ("read position and demand are up to date", S.And(R(o, me) == a.next_number - 1, W(o, me) == NONE)),
        ("delivered: everything below n0 + k", S.And(a.out.n == _n0(a) + a.k_, _delivered_ok(S, a))),
    ] + _ty_facts(S, a)


def _read_wait(eng, args, kw, st, fr, k, node):
    """reader's wait: it must have published its demand (waiting_for[me] = the number it needs) before sleeping"""
    o = eng.resolve(st.env["self"], st.heap)
    me = st.env["subscriber_i"]
    eng.oblige("demand", "a reader publishes the message number it waits for before it sleeps", st,
               W(o, me) == int2v(eng.to_int(st.env["next_number"])), node)
    eng.oblige("backpressure", "a reader sleeps only when its next message is not there (and the mailbox is not killed)", st,
               z3.And(z3.Not(o._mailbox.has(eng.to_int(st.env["next_number"]))), z3.Not(o.killed)), node)
    return MON.wait_handler(lambda e_, s_: s_.env["self"], _reader_me)(eng, args, kw, st, fr, k, node)


def _read(T, tag, lazy):
    has_msg, get_msg = (HAS_MSG_L, GET_MSG_L) if lazy else (HAS_MSG_E, GET_MSG_E)
    return Contract(
        F, "Mailbox._read", variant=tag,
        params=dict(self=T, subscriber_i="int"),
        requires=lambda S, a: _inv_requires(S, a) + [
            ("the generator belongs to a registered subscriber that has read nothing yet",
             S.And(0 <= a.subscriber_i, a.subscriber_i < nsub(a.self), R(a.self, a.subscriber_i) == -1,
                   W(a.self, a.subscriber_i) == NONE))],
        ensures=lambda S, a, r: [
            ("the subscriber was handed exactly the messages sent before the end marker, in order, each once "
             "(futures replaced by their results), and then the iteration ends",
             S.And(_delivered_ok(S, a), _sent(a, a.out.n), _smsg(a, a.out.n) == STOP))],
        raises={"MailboxReadTimeout": lambda S, a: S.true, "MailboxKilled": lambda S, a: S.true,
                "TimeoutError": lambda S, a: S.true, "Exception": lambda S, a: S.true},
        exc_ensures=lambda S, a, exc: [("whatever was handed out before the failure is a correct prefix", _delivered_ok(S, a))],
        yields=lambda S, a, v: [("the next item handed out is the result of the next message in number order",
                                 S.And(_sent(a, a.out.n), S.v(v) == res_of(_smsg(a, a.out.n)), _smsg(a, a.out.n) != STOP))],
        yield_may_throw="Any",
        loops={1: Loop(_rd_inv1), 2: Loop(_rd_inv2), 3: Loop(_rd_inv3, variant=lambda S, a: a.self._mailbox.size),
               4: Loop(_rd_inv4)},
        ghost=GHOST0,
        with_handler=MON.with_handler(_lock_of, me=_reader_me),
        calls=mon_calls(me=_reader_me, extra={
            "self._has_msg": has_msg, "self._get_msg": get_msg, "self._can_fetch": can_fetch,
            "self._read_condition.wait_for": _read_wait,
            "msg.result": _future_result, "msg.done": Abstract(sort="bool"),
            "self.kill_from_exception": _kill_from_exception_callee}),
        local_sorts={"to_yield": ListT(("int", "V")), "msg": "V", "res": "V"},
        # only the section loop (1) sees other threads' updates of the ghost history (through the lock acquisition)
        loop_ghost={2: [], 3: [], 4: []},
        consts={"Future": __import__("pyvc.engine", fromlist=["Named"]).Named("Future")},
    )


READ_E, READ_L = _both("_read", _read)


# --------------------------------------------------------------------------------------
# kill_from_exception / _send_from : failure relay (C06) and the lazy fetch gate (C13)
# --------------------------------------------------------------------------------------
IS_MBK = z3.Function("isinstance:MailboxKilled", V, z3.BoolSort())


def _kfe(T, tag, lazy):
    kill_c = KILL_L if lazy else KILL_E

    def kill_hook(eng, args, kw, st, fr, k, node):
        """self.kill(reason=...): the callee's own locked section; remember (ghost) the reason it was called with"""
        g = dict(st.ghost)
        g["kill_reason"] = eng.to_v(kw.get("reason", PNONE)) if not isinstance(kw.get("reason"), tuple) else \
            z3.Function("fn:exc_info_triple", V, V)(eng.to_v(kw["reason"][1]))
        g["kill_called"] = z3.BoolVal(True)
        return k(PNONE, St(st.env, st.heap, st.pc, g))
    return Contract(
        F, "Mailbox.kill_from_exception", variant=tag,
        params=dict(self=T, e="V", reraise="bool"),
        ensures=lambda S, a, r: [
            ("the mailbox is killed", a.ghost.kill_called),
            ("a MailboxKilled is passed on with its ORIGINAL reason; anything else becomes the reason itself",
             z3.If(IS_MBK(a.e), a.ghost.kill_reason == z3.Function("getitem", V, V, V)(z3.Function("attr_args", V, V)(a.e), int2v(z3.IntVal(0))),
                   a.ghost.kill_reason == z3.Function("fn:exc_info_triple", V, V)(a.e))),
            ("returns normally only for MailboxKilled or when asked not to re-raise", S.Or(IS_MBK(a.e), S.Not(a.reraise)))],
        raises={"Any": lambda S, a: S.And(S.Not(IS_MBK(a.e)), a.reraise)},
        exc_ensures=lambda S, a, exc: [("the mailbox was killed before the exception is re-raised", a.ghost.kill_called),
                                       ("the exception re-raised is the one received", S.v(exc.payload) == a.e if exc.payload is not None else S.false)],
        ghost={"kill_called": z3.BoolVal(False), "kill_reason": z3.Const("no_reason", V)},
        calls={"self.kill": kill_hook, "self.log.debug": Abstract(sort=None), "sys.exc_info": Abstract(sort="V")},
        consts={"MailboxKilled": __import__("pyvc.engine", fromlist=["Named"]).Named("MailboxKilled")},
    )


KFE_E, KFE_L = _both("kill_from_exception", _kfe)


def _send_from(T, tag, lazy):
    def next_hook(eng, args, kw, st, fr, k, node):
        """x = next(iterable): the source is advanced.  In lazy mode the fetch gate must have answered True."""
        if lazy:
            eng.oblige("dominance", "lazy mode: the source is advanced only after the fetch gate answered True "
                                    "(a driving reader waits and nobody still waits for a buffered message)", st,
                       st.ghost["gate"], node)
        it = args[0]
        cell = st.heap[it.base]
        pos, n = cell["pos"], cell["n"]
        g = dict(st.ghost)
        g["gate"] = z3.BoolVal(False)
        s0 = St(st.env, st.heap, st.pc, g)
        fr.on_raise(Exc("Any", Opq(eng.fresh("source_exc", "V")), excluding=("StopIteration",)), s0)
        s1 = s0.assume(pos < n).with_cell(it.base, "pos", pos + 1)
        if len(args) >= 2:
            # next(iterable, default): the default is returned on exhaustion - an ITEM may be equal to it (nothing says a source
            # never yields None), so a caller that tests for the default cannot tell the two apart
            k(args[1], s0.assume(pos >= n))
        else:
            fr.on_raise(Exc("StopIteration", origin="callee"), s0.assume(pos >= n))
        return k(Opq(z3.Select(cell["seq"], pos)), s1)

    def gate_hook(eng, args, kw, st, fr, k, node):
        """self._can_fetch() evaluated under the lock: remember the answer (ghost)"""
        from pyvc.library import contract_call
        def after(r, s2):
            return k(r, St(s2.env, s2.heap, s2.pc, {**s2.ghost, "gate": r}))
        return contract_call(eng, can_fetch, [st.env["self"]], {}, st, fr, after, node)

    def wait_gate(eng, args, kw, st, fr, k, node):
        base = _needed_wait("self", "_fetch_new_condition", None)
        def after(r, s2):
            return k(r, St(s2.env, s2.heap, s2.pc, {**s2.ghost, "gate": eng.truth(r)}))
        return base(eng, args, kw, st, fr, after, node)

    def send_hook(eng, args, kw, st, fr, k, node):
        fr.on_raise(Exc("Any", Opq(eng.fresh("send_exc", "V"))), st)
        g = dict(st.ghost)
        g["n_forwarded"] = g["n_forwarded"] + 1
        return k(PNONE, St(st.env, st.heap, st.pc, g))

    def kfe_hook(eng, args, kw, st, fr, k, node):
        g = dict(st.ghost)
        g["killed_with"] = eng.to_v(args[0]) if not isinstance(args[0], Exc) else (
            eng.to_v(args[0].payload) if args[0].payload is not None else z3.Const("exc:" + args[0].cls, V))
        g["kill_called"] = z3.BoolVal(True)
        s2 = St(st.env, st.heap, st.pc, g)
        fr.on_raise(Exc("Any", Opq(eng.fresh("reraised", "V"))), s2)
        return k(PNONE, s2)

    def close_hook(eng, args, kw, st, fr, k, node):
        s2 = St(st.env, st.heap, st.pc, {**st.ghost, "close_called": z3.BoolVal(True)})
        fr.on_raise(Exc("Any", Opq(eng.fresh("close_exc", "V"))), s2)
        return k(PNONE, s2)

    def throw_hook(eng, args, kw, st, fr, k, node):
        s2 = St(st.env, st.heap, st.pc, {**st.ghost, "thrown_into_source": z3.BoolVal(True)})
        fr.on_raise(Exc("Any", Opq(eng.fresh("throw_exc", "V"))), s2)
        return k(PNONE, s2)

    extra = {"next": next_hook, "self._can_fetch": gate_hook, "self.send": send_hook,
             "self.kill_from_exception": kfe_hook, "self.close": close_hook, "iterable.throw": throw_hook}
    calls = mon_calls(extra=extra)
    calls["self._fetch_new_condition.wait_for"] = wait_gate
    return Contract(
        F, "Mailbox._send_from", variant=tag,
        params=dict(self=T, iterable=IterT()),
        requires=_inv_requires,
        ensures=lambda S, a, r: [
            ("the sender thread ends by closing the mailbox (source exhausted) or by killing it (any failure)",
             S.Or(a.ghost.close_called, a.ghost.kill_called)),
            ("every item the source produced was forwarded with send, in order",
             S.Or(a.ghost.kill_called, a.ghost.n_forwarded == a.iterable.n)),
            ("a regular stop consumes the whole source", S.Implies(S.Not(a.ghost.kill_called), a.iterable.pos == a.iterable.n))],
        raises={"Any": lambda S, a: S.true},
        exc_ensures=lambda S, a, exc: [("an exception leaves the sender thread only after the mailbox was killed with it "
                                        "(or from the final close)", S.Or(a.ghost.kill_called, a.ghost.close_called))],
        ghost={**GHOST0, "gate": z3.BoolVal(False), "kill_called": z3.BoolVal(False), "close_called": z3.BoolVal(False),
               "killed_with": z3.Const("nothing", V), "n_forwarded": z3.IntVal(0), "thrown_into_source": z3.BoolVal(False)},
        loops={1: Loop(lambda S, a: [("every item fetched so far was forwarded", S.And(a.ghost.n_forwarded == a.iterable.pos,
                                                                                       a.iterable.pos <= a.iterable.n, a.i >= 0)),
                                     ("nothing has failed yet", S.And(S.Not(a.ghost.kill_called), S.Not(a.ghost.close_called)))])},
        loop_ghost={1: ["gate", "n_forwarded", "Sent", "SentMsg", "End"]},
        with_handler=MON.with_handler(_lock_of),
        calls=calls,
    )


SEND_FROM_E, SEND_FROM_L = _both("_send_from", _send_from)


# --------------------------------------------------------------------------------------
# structural obligations on the AST of mailbox.py
# --------------------------------------------------------------------------------------
import ast as _ast  # noqa: E402
from pyvc.engine import load_module_ast  # noqa: E402
from pyvc.runner import Structural  # noqa: E402

SHARED_ATTRS = set(SHARED) | {"_subscriber_waiting_for", "_subscribers_have_read", "_subscriber_can_drive", "_mailbox"}
LOCK_HELD_METHODS = {"_can_fetch", "_has_msg", "_get_msg", "_lowest_msg_number", "_n_subscribers"}   # callers hold the lock
MUTATORS = {"append", "pop", "insert", "extend", "remove", "clear", "sort"}


def _under_lock(node, parents):
    p = parents.get(id(node))
    while p is not None:
        if isinstance(p, _ast.With) and any(
                isinstance(i.context_expr, _ast.Attribute) and i.context_expr.attr == "_lock" for i in p.items):
            return True
        p = parents.get(id(p))
    return False


def lock_discipline():
    """Every write to a shared attribute of the mailbox is lexically inside ``with self._lock`` (or in __init__ /
    a method whose contract says the caller holds the lock)."""
    tree, _ = load_module_ast(F)
    cls = next(n for n in tree.body if isinstance(n, _ast.ClassDef) and n.name == "Mailbox")
    out = []
    for fn in [n for n in cls.body if isinstance(n, _ast.FunctionDef)]:
        if fn.name == "__init__" or fn.name in LOCK_HELD_METHODS:
            continue
        parents = {}
        for p in _ast.walk(fn):
            for c in _ast.iter_child_nodes(p):
                parents[id(c)] = p
        bad = []
        for n in _ast.walk(fn):
            tgt_attrs = []
            if isinstance(n, (_ast.Assign, _ast.AugAssign)):
                targets = n.targets if isinstance(n, _ast.Assign) else [n.target]
                for t in targets:
                    for x in _ast.walk(t):
                        if isinstance(x, _ast.Attribute) and isinstance(x.value, _ast.Name) and x.value.id == "self" \
                                and x.attr in SHARED_ATTRS and isinstance(x.ctx, (_ast.Store, _ast.Load)):
                            tgt_attrs.append(x.attr)
            if isinstance(n, _ast.Call) and isinstance(n.func, _ast.Attribute) and n.func.attr in MUTATORS \
                    and isinstance(n.func.value, _ast.Attribute) and isinstance(n.func.value.value, _ast.Name) \
                    and n.func.value.value.id == "self" and n.func.value.attr in SHARED_ATTRS:
                tgt_attrs.append(n.func.value.attr)
            if isinstance(n, _ast.Call) and isinstance(n.func, _ast.Attribute) and n.func.attr in ("heappush", "heappop"):
                tgt_attrs.append("_mailbox")
            if tgt_attrs and not _under_lock(n, parents):
                bad.append((n.lineno, tgt_attrs))
        out.append((f"Mailbox.{fn.name}: shared state is written only under the lock", not bad,
                    "" if not bad else f"unlocked writes at {bad}"))
    return out


def _close_loop_protected(try_):
    """the ``m.close()`` calls of the regular-stop branch sit inside a try whose handler kills every mailbox of mbs_to_kill"""
    for stmt in try_.orelse:
        for t in _ast.walk(stmt):
            if isinstance(t, _ast.Try) and any("m.close()" in _ast.unparse(b) for b in t.body):
                for h in t.handlers:
                    hs = _ast.unparse(h)
                    if "for m in mbs_to_kill" in hs and "kill_from_exception(" in hs and _ast.unparse(h.type or _ast.Name("BaseException")) in ("Exception", "BaseException"):
                        return True
    return False


def divide_outputs_wiring():
    """Shape of divide_outputs (its mailboxes are a dict of unknown size, so this part is structural, not semantic)."""
    tree, _ = load_module_ast(F)
    fn = next(n for n in tree.body if isinstance(n, _ast.FunctionDef) and n.name == "divide_outputs")
    src = _ast.unparse(fn)
    try_ = next(n for n in _ast.walk(fn) if isinstance(n, _ast.Try) and n.handlers and n.orelse)
    handler = try_.handlers[0]
    h_src = _ast.unparse(handler)
    else_src = "\n".join(_ast.unparse(x) for x in try_.orelse)
    loop = next(n for n in _ast.walk(try_) if isinstance(n, _ast.While))
    loop_body = list(loop.body)
    gate_for = loop_body[0] if loop_body and isinstance(loop_body[0], _ast.For) else None
    gate_src = _ast.unparse(gate_for) if gate_for is not None else ""
    next_pos = next((i for i, st_ in enumerate(loop_body) if "next(source)" in _ast.unparse(st_)), -1)
    return [
        ("any exception kills every output mailbox with it", "for m in mbs_to_kill" in h_src and "kill_from_exception(e, reraise=False)" in h_src,
         h_src[:120]),
        ("the handler catches Exception", _ast.unparse(handler.type) == "Exception", ""),
        ("the exception is re-raised unless it is a MailboxKilled", "if not isinstance(e, MailboxKilled)" in h_src and "raise" in h_src, ""),
        ("a regular stop closes every output mailbox", "for m in mbs_to_kill" in else_src and "m.close()" in else_src, else_src[:80]),
        ("a failure while CLOSING one output (it was killed - e.g. by its failing saver - while the divider waits in close) kills every "
         "output too: the closing loop is covered by a handler that kills all of them (otherwise the other outputs are left neither closed "
         "nor killed and their readers wait for the timeout)", _close_loop_protected(try_), else_src[:160]),
        ("a failed send is thrown back into the source", "source.throw(e)" in src, ""),
        ("lazy mode: the source is advanced only after the gate loop over all outputs", gate_for is not None and next_pos > 0
         and "if lazy" in gate_src and "_can_fetch" in gate_src and "wait_for(m._can_fetch" in gate_src
         and "if d in flow_freely" in gate_src and "continue" in gate_src, gate_src[:100]),
        ("a timed-out gate raises instead of fetching", "raise MailboxReadTimeout" in gate_src, ""),
    ]


LOCK_DISCIPLINE = Structural("mailbox lock discipline", lock_discipline)
DIVIDE_OUTPUTS = Structural("divide_outputs wiring", divide_outputs_wiring)
