"""Contracts for C09: OverlapWindowPlugin - the window arithmetic that decides what is sent and what is kept."""

import z3

from pyvc.contract import Contract, Loop, REG
from pyvc.engine import ObjT, Opq, PNONE, V, St, Exc, TupleT, int2v
from pyvc.library import Abstract

F = "strax/plugins/overlap_window_plugin.py"
V2INT = z3.Function("v2int", V, z3.IntSort())
GETITEM = z3.Function("getitem", V, V, V)
WS = z3.Function("method:get_window_size", V, V)


def _gws_ens(S, a, r):
    w = WS(a.self)
    is_num = S.is_instance(w, "int+float")
    if isinstance(r, tuple):
        return [("a single number is used as look-back and as look-ahead window", S.And(is_num, S.eq(r[0], w), S.eq(r[1], w)))]
    return [("a pair is used as (look-back, look-ahead) and neither part is negative",
             S.And(S.Not(is_num), S.eq(r, w), S.to_int(S.getitem(w, 0)) >= 0, S.to_int(S.getitem(w, 1)) >= 0))]


get_window_size = REG.add(Contract(
    F, "OverlapWindowPlugin._get_window_size",
    params=dict(self="V"),
    ensures=_gws_ens,
    raises={"ValueError": lambda S, a: S.Not(S.is_instance(WS(a.self), "int+float"))},
))
