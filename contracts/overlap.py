"""Contracts for C09: OverlapWindowPlugin - the window arithmetic that decides what is sent and what is kept."""

import z3

from pyvc.contract import Contract, Loop, REG
from pyvc.engine import ObjT, Opq, PNONE, V, St, Exc, TupleT, int2v
from pyvc.library import Abstract

F = "strax/plugins/overlap_window_plugin.py"
V2INT = z3.Function("v2int", V, z3.IntSort())
GETITEM = z3.Function("getitem", V, V, V)
WS = z3.Function("method:get_window_size", V, V)


def _gws_ens(S, a, r):
    w = WS(a.self)
    is_num = S.is_instance(w, "int+float")
    if isinstance(r, tuple):
        return [("a single number is used as look-back and as look-ahead window", S.And(is_num, S.eq(r[0], w), S.eq(r[1], w)))]
    return [("a pair is used as (look-back, look-ahead) and neither part is negative",
             S.And(S.Not(is_num), S.eq(r, w), S.to_int(S.getitem(w, 0)) >= 0, S.to_int(S.getitem(w, 1)) >= 0))]


get_window_size = REG.add(Contract(
    F, "OverlapWindowPlugin._get_window_size",
    params=dict(self="V"),
    ensures=_gws_ens,
    raises={"ValueError": lambda S, a: S.Not(S.is_instance(WS(a.self), "int+float"))},
))


# --------------------------------------------------------------------------------------
# OverlapWindowPlugin.do_compute (one input kind, one output): what is sent, what is withheld, what is kept as input
# --------------------------------------------------------------------------------------
from contracts.chunk import CHUNK, chunk_wf  # noqa: E402
from pyvc.contract import make_symbolic  # noqa: E402


def _fresh_chunk(eng, st, hint):
    ref, st = make_symbolic(eng, eng.new_base(hint), CHUNK, st, set())
    view = eng.resolve(ref, st.heap)
    for _, f in chunk_wf(eng.S, view):
        st = st.assume(eng.S.b(f))
    return ref, view, st


def _concat_hook(eng, args, kw, st, fr, k, node):
    """strax.Chunk.concatenate([cached, new], allow_superrun): ASSUMED contract (checked by the bounded C07 stand-in):
    for two adjacent chunks the result spans both and holds the rows of the first followed by the rows of the second"""
    eng.assumptions.add("assumed contract of Chunk.concatenate for two adjacent chunks (checked by the bounded concatenate stand-in only)")
    lst = args[0]
    a, b = eng.resolve(lst[0], st.heap), eng.resolve(lst[1], st.heap)
    eng.oblige("overlap", "the cached input ends exactly where the new input starts", st, a.end == b.start, node)
    ref, v, st = _fresh_chunk(eng, st, "concatenated")
    S = eng.S
    st = st.assume(S.b(S.And(v.start == a.start, v.end == b.end, v.data.n == a.data.n + b.data.n)))
    g = dict(st.ghost)
    g["py:K"] = ref
    return k(ref, St(st.env, st.heap, st.pc, g))


def _super_compute_hook(eng, args, kw, st, fr, k, node):
    """super().do_compute(chunk_i=..., **kwargs): callers' view of Plugin.do_compute + _fix_output (proved as C08 / C12): a
    well-formed chunk covering exactly the inputs' interval; its rows are the user's computation (arbitrary)"""
    inp = eng.resolve(kw["a"], st.heap)
    fr.on_raise(Exc("Any", Opq(eng.fresh("compute_exc", "V"))), st)
    ref, v, st = _fresh_chunk(eng, st, "result")
    st = st.assume(eng.S.b(eng.S.And(v.start == inp.start, v.end == inp.end)))
    g = dict(st.ghost)
    g["py:R"] = ref
    g["py:IN"] = kw["a"]
    return k(ref, St(st.env, st.heap, st.pc, g))


def _window_hook(eng, args, kw, st, fr, k, node):
    """self._get_window_size(): (look-back, look-ahead); non-negative integers (contract above; assumption: integers)"""
    eng.assumptions.add("window sizes are non-negative integers (a negative single number is not refused by _get_window_size)")
    wl, wr = eng.fresh("w_left"), eng.fresh("w_right")
    g = dict(st.ghost)
    g["wl"], g["wr"] = wl, wr
    fr.on_raise(Exc("ValueError"), st)
    return k((wl, wr), St(st.env, st.heap, st.pc + [wl >= 0, wr >= 0], g))


def _cache_beyond_hook(eng, args, kw, st, fr, k, node):
    """self.cache_beyond(kwargs, cache_inputs_beyond, self.cached_input)"""
    me = st.heap[st.env["self"].base]
    eng.oblige("overlap", "the inputs are kept from two look-back windows before the point up to which results were sent", st,
               eng.to_int(args[1]) == me["sent_until"] - 2 * st.ghost["wl"] - 1, node)
    eng.oblige("overlap", "what is cached is this call's (concatenated) input", st,
               z3.BoolVal(isinstance(args[0], dict) and args[0].get("a") is st.ghost.get("py:IN")), node)
    fr.on_raise(Exc("ValueError"), st)
    g = dict(st.ghost)
    g["input_cached"] = z3.BoolVal(True)
    return k(eng.fresh("prev_split"), St(st.env, st.heap, st.pc, g))


def _ow_ens(S, a, r):
    g = a.ghost
    R = a.rghost["R"]
    me = a.self
    old_sent = a.old.self.sent_until
    start_here = S.max(S.min(old_sent, R.end), R.start)        # old sent_until clamped into the result's span
    inval = R.end - 2 * g.wr - 1
    return [
        ("what is sent starts where the previous call stopped sending (clamped into this result's span)", r.start == start_here),
        ("it ends at the new sent_until, which is where the withheld results start; those reach to the end of the input",
         S.And(r.end == me.sent_until, me.cached_results.start == me.sent_until, me.cached_results.end == R.end)),
        ("nothing is sent that lies beyond end - 2*look-ahead - 1 (it could still change when the next chunk arrives)",
         me.sent_until <= S.max(start_here, inval)),
        ("sent and withheld rows together are all result rows from the start of this sending on; sent rows end by sent_until, "
         "withheld rows start at or after it",
         S.And(S.forall(0, r.data.n, lambda j: r.data.f("endtime", j) <= me.sent_until),
               S.forall(0, me.cached_results.data.n, lambda j: me.cached_results.data.f("time", j) >= me.sent_until))),
        ("sending only moves forward", me.sent_until >= start_here),
        ("the input needed for the next call was cached", g.input_cached)]


OWP = ObjT("OverlapWindowPlugin", cached_input={"a": CHUNK}, cached_results=CHUNK, sent_until="int", multi_output="bool", allow_superrun="V")
OWP_FIRST = ObjT("OverlapWindowPlugin", cached_input={}, cached_results=CHUNK, sent_until="int", multi_output="bool", allow_superrun="V")


def _ow_contract(variant, self_spec):
    return REG.add(Contract(
        F, "OverlapWindowPlugin.do_compute", variant=variant,
        params=dict(self=self_spec, chunk_i="V", kwargs={"a": CHUNK}),
        requires=lambda S, a: chunk_wf(S, a.kwargs["a"]) + [("single-output plugin", S.Not(a.self.multi_output)), ("sent_until >= 0", a.self.sent_until >= 0)]
        + ([] if variant.startswith("first") else (chunk_wf(S, a.self.cached_input["a"]) + [
            ("the cached input ends where the new input starts (established by the previous call: the cache is the tail of its input)",
             a.self.cached_input["a"].end == a.kwargs["a"].start)])),
        ensures=_ow_ens,
        raises={"Any": lambda S, a: S.true, "ValueError": lambda S, a: S.true, "CannotSplit": lambda S, a: S.true,
                "ValueError:runs": lambda S, a: S.true, "RuntimeError": lambda S, a: S.false},
        ghost={"wl": z3.IntVal(0), "wr": z3.IntVal(0), "input_cached": z3.BoolVal(False)},
        calls={"strax.Chunk.concatenate": _concat_hook, "super().do_compute": _super_compute_hook,
               "self._get_window_size": _window_hook, "self.cache_beyond": _cache_beyond_hook},
        expected_dead=[("raise RuntimeError", "OverlapWindowPlugin got incongruent inputs"),
                       ("raise RuntimeError", "OverlapWindowPlugin must have a dependency")],
    ))


ow_do_compute_first = _ow_contract("first-call", OWP_FIRST)
ow_do_compute_later = _ow_contract("later-call", OWP)
