"""Contracts for C08: Plugin.do_compute - the time-range consistency guard in front of every compute call."""

import z3

from pyvc.contract import Contract, Loop, REG
from pyvc.engine import ObjT, Opq, PNONE, V, St, Exc
from pyvc.library import Abstract

F = "strax/plugins/plugin.py"
SAVE_WHEN = {"strax.SaveWhen.NEVER": z3.IntVal(0), "strax.SaveWhen.EXPLICIT": z3.IntVal(1),
             "strax.SaveWhen.TARGET": z3.IntVal(2), "strax.SaveWhen.ALWAYS": z3.IntVal(3)}
CHUNK_IN = ObjT("Chunk", start="int", end="int", data="V", superrun="V", subruns="V")
V2INT = z3.Function("v2int", V, z3.IntSort())


def _compute_hook(eng, args, kw, st, fr, k, node):
    """self.compute(**_kwargs): the user's computation; records what it was given"""
    g = dict(st.ghost)
    g["computed"] = z3.BoolVal(True)
    for name, v in kw.items():
        if name in ("chunk_i", "start", "end", "**"):
            continue
        g["py:data:" + name] = v
    g["py:start"] = kw.get("start")
    g["py:end"] = kw.get("end")
    g["py:chunk_i"] = kw.get("chunk_i")
    fr.on_raise(Exc("Any", Opq(eng.fresh("compute_exc", "V"))), St(st.env, st.heap, st.pc, g))
    return k(Opq(eng.fresh("compute_result", "V")), St(st.env, st.heap, st.pc, g))


def _fix_output_hook(eng, args, kw, st, fr, k, node):
    g = dict(st.ghost)
    g["fixed"] = z3.BoolVal(True)
    g["py:fix_args"] = tuple(args)
    fr.on_raise(Exc("Any", Opq(eng.fresh("fix_exc", "V"))), st)
    return k(Opq(eng.fresh("fixed_result", "V")), St(st.env, st.heap, st.pc, g))


def _uniq_hook(eng, args, kw, st, fr, k, node):
    """self._check_subruns_uniqueness(kwargs, {k: v.<annotation>}): the common annotation of the inputs (or ValueError)"""
    fr.on_raise(Exc("ValueError"), st)
    res = Opq(eng.fresh("annotation", "V"))
    which = None
    if len(args) > 1 and isinstance(args[-1], dict) and args[-1]:
        first = next(iter(args[-1].values()))
        for cand in ("superrun", "subruns"):
            for ch in st.env["kwargs"].values():
                if first is st.heap[ch.base].get(cand):
                    which = cand
    g = dict(st.ghost)
    g["py:ann:" + str(which)] = res
    return k(res, St(st.env, st.heap, st.pc, g))


def _ranges_equal(S, chunks):
    cs = list(chunks.values())
    return S.And(*[S.And(c.start == cs[0].start, c.end == cs[0].end) for c in cs[1:]]) if len(cs) > 1 else S.true


def _strict(S, a):
    return S.to_int(S.attr(a.self, "save_when")) > 1


def _dc_ens(names):
    def ens(S, a, r):
        g = a.ghost
        cs = a.kwargs
        first = cs[names[0]]
        out = [("the computation ran and its result went through _fix_output", S.And(g.computed, g.fixed)),
               ("a plugin that saves by default computes only on inputs that all cover one identical time interval",
                S.Implies(_strict(S, a), _ranges_equal(S, cs)))]
        py = a.pyghost
        for n in names:
            out.append((f"the computation receives the rows of input {n}", S.eq(S.v(py["py:data:" + n]), cs[n].data)))
        takes_i = S.truthy(S.attr(a.self, "compute_takes_chunk_i"))
        takes_se = S.truthy(S.attr(a.self, "compute_takes_start_end"))
        out.append(("the chunk number is passed exactly to computations that take it",
                    S.If(takes_i, S.b(py["py:chunk_i"] is not None) if py["py:chunk_i"] is None else S.eq(S.v(py["py:chunk_i"]), a.chunk_i),
                         S.b(py["py:chunk_i"] is None))))
        out.append(("start and end are passed exactly to computations that take them, and are the inputs' interval",
                    S.If(takes_se, S.b(py["py:start"] is not None and py["py:end"] is not None), S.b(py["py:start"] is None and py["py:end"] is None))))
        fa = py["py:fix_args"]
        out.append(("the inputs' common superrun and subruns annotations are handed on to the result",
                    S.b("py:ann:superrun" in py and "py:ann:subruns" in py and len(fa) == 5
                        and fa[3] is py.get("py:ann:superrun") and fa[4] is py.get("py:ann:subruns"))))
        out.append(("the result is declared to cover exactly the inputs' interval (the union for a lenient plugin)",
                    S.And(S.to_int(S.v(fa[1])) <= first.start, S.to_int(S.v(fa[2])) >= first.end,
                          S.Implies(_ranges_equal(S, cs), S.And(S.to_int(S.v(fa[1])) == first.start, S.to_int(S.v(fa[2])) == first.end)))))
        return out
    return ens


def _dc_contract(names):
    return REG.add(Contract(
        F, "Plugin.do_compute", variant=f"{len(names)} input(s)",
        params=dict(self="V", chunk_i="V", kwargs={n: CHUNK_IN for n in names}),
        requires=lambda S, a: [("single-output plugin: save_when is one SaveWhen value",
                                S.And(0 <= S.to_int(S.attr(a.self, "save_when")), S.to_int(S.attr(a.self, "save_when")) <= 3))],
        ensures=_dc_ens(names),
        raises={"ValueError": lambda S, a: S.true, "Any": lambda S, a: S.true, "RuntimeError": lambda S, a: S.false},
        exc_ensures=lambda S, a, exc: (
            [("inputs with different time ranges are refused BEFORE the computation for a plugin that saves by default",
              S.Implies(S.And(_strict(S, a), S.Not(_ranges_equal(S, a.kwargs))), S.Not(a.ghost.computed)))]),
        ghost={"computed": z3.BoolVal(False), "fixed": z3.BoolVal(False)},
        consts=SAVE_WHEN,
        calls={"self.compute": _compute_hook, "self._fix_output": _fix_output_hook, "self._check_subruns_uniqueness": _uniq_hook,
               "hasattr": lambda eng, args, kw, st, fr, k, node: k(z3.BoolVal(False), st),
               "warn": Abstract(sort=None), "sys.getrefcount": Abstract(sort="int")},
        loops={},
    ))


do_compute_1 = _dc_contract(["a"])
do_compute_2 = _dc_contract(["a", "b"])
do_compute_3 = _dc_contract(["a", "b", "c"])


# --------------------------------------------------------------------------------------
# Plugin._fetch_chunk: the next chunk of one dependency is appended to what is buffered for it
# --------------------------------------------------------------------------------------
GETITEM = z3.Function("getitem", V, V, V)
ATTR_BUF = z3.Function("attr:input_buffer", V, V)
CONCAT2 = z3.Function("fn:concatenate2", V, V, V, V)      # concatenate([first, second], allow_superrun)
NOTHING = z3.Const("nothing_yet", V)


def _fc_buffer(a_self, d):
    from pyvc.ops import SymOps
    S = SymOps()
    return S.getitem(S.attr(a_self, "input_buffer"), d)


def _fc_next(eng, args, kw, st, fr, k, node):
    """next(iters[d]): the source of this dependency hands over its next chunk, or is exhausted"""
    src = eng.to_v(args[0])
    g = dict(st.ghost)
    eng.oblige("wiring", "the chunk is taken from the iterator of the data type asked for (iters[d]), once", st,
               z3.And(src == GETITEM(st.env["iters"].t, st.env["d"].t), z3.Not(g["asked"])), node)
    g["asked"] = z3.BoolVal(True)
    s_end = St(st.env, st.heap, st.pc, {**g, "ended": z3.BoolVal(True)})
    fr.on_raise(Exc("StopIteration"), s_end)
    new = eng.fresh("next_chunk", "V")
    g["fetched"] = new
    return k(Opq(new), St(st.env, st.heap, st.pc, g))


def _fc_concat(eng, args, kw, st, fr, k, node):
    """strax.Chunk.concatenate([buffered, new], self.allow_superrun) - its own contract is proved for two chunks (C07)"""
    lst = args[0]
    if not isinstance(lst, (list, tuple)) or len(lst) != 2:
        eng.oblige("contract-shape", "concatenate is handed exactly [what is buffered, the new chunk]", st, z3.BoolVal(False), node)
        return None
    first, second = eng.to_v(lst[0]), eng.to_v(lst[1])
    allow = eng.to_v(args[1] if len(args) > 1 else kw.get("allow_superrun"))
    return k(Opq(CONCAT2(first, second, allow)), st)


def _fc_store(eng, st, key, v, node):
    """self.input_buffer[key] = v"""
    g = dict(st.ghost)
    eng.oblige("frame", "only the buffer of the data type asked for is replaced, and only once", st,
               z3.And(eng.to_v(key) == st.env["d"].t, z3.Not(g["stored_flag"])), node)
    g["stored_flag"] = z3.BoolVal(True)
    g["stored"] = eng.to_v(v)
    return St(st.env, st.heap, st.pc, g)


def _fc_short(S, a):
    """the buffer of d ends before the time the caller needs (only asked when a time was given)"""
    from pyvc.engine import NONE
    end = S.attr(_fc_buffer(a.self, a.d), "end")
    return z3.And(a.check_end_not_before != NONE, V2INT(end) < V2INT(a.check_end_not_before))


fetch_chunk = REG.add(Contract(
    F, "Plugin._fetch_chunk",
    params=dict(self="V", d="V", iters="V", check_end_not_before="V"),
    ensures=lambda S, a, r: [
        ("answers True exactly when the source handed over a chunk",
         S.Iff(r, S.And(a.ghost.asked, S.Not(a.ghost.ended)))),
        ("then the buffer of d is what was buffered followed by the new chunk - nothing of either is dropped, the order is kept",
         S.Implies(r, S.And(a.ghost.stored_flag,
                            a.ghost.stored == CONCAT2(_fc_buffer(a.self, a.d), a.ghost.fetched,
                                                      S.attr(a.self, "allow_superrun"))))),
        ("an exhausted source leaves the buffer as it was, and False is only answered if the buffer reaches the time needed",
         S.Implies(S.Not(r), S.And(a.ghost.ended, S.Not(a.ghost.stored_flag), S.Not(_fc_short(S, a)))))],
    raises={"RuntimeError": lambda S, a: _fc_short(S, a)},
    exc_ensures=lambda S, a, exc: [("the error is raised only for an exhausted source, and the buffer is left as it was",
                                    S.And(a.ghost.ended, S.Not(a.ghost.stored_flag)))],
    returns="bool",
    ghost={"asked": z3.BoolVal(False), "ended": z3.BoolVal(False), "fetched": NOTHING, "stored": NOTHING,
           "stored_flag": z3.BoolVal(False)},
    calls={"next": _fc_next, "strax.Chunk.concatenate": _fc_concat},
    store_hooks={"self.input_buffer": _fc_store},
))
