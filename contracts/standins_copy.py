"""Bounded stand-ins for C16 on the real code: copy_to_frontend, the stand-alone file rechunker, rechunk on load and
per-chunk building + merge_per_chunk_storage all give data that loads to exactly the rows of the original.  Concrete-only."""

import atexit
import contextlib
import glob
import io
import json
import logging
import os
import shutil
import tempfile
import warnings

import numpy as np

from pyvc.contract import Contract
from pyvc.harness import Harness

F = "strax/context.py"
_TMP_ROOT = tempfile.mkdtemp(prefix="verif_c16_")
atexit.register(lambda: shutil.rmtree(_TMP_ROOT, ignore_errors=True))
LAYOUT = {}


def _classes(rechunk_on_load=False):
    import strax
    dtype = strax.time_fields + [(("value", "v"), np.int64), (("blob", "w"), np.float64, 40)]

    class Src(strax.Plugin):
        provides = "src"
        depends_on = ()
        data_kind = "k"
        rechunk_on_save = False
        __version__ = "0"

        def source_finished(self):
            return True

        def is_ready(self, chunk_i):
            return chunk_i < len(LAYOUT["chunks"])

        def compute(self, chunk_i):
            n = LAYOUT["chunks"][chunk_i]
            r = np.zeros(n, self.dtype)
            t0 = 1000 * chunk_i
            r["time"] = t0 + 10 * np.arange(n)
            r["endtime"] = r["time"] + 5
            r["v"] = 100 * chunk_i + np.arange(n)
            r["w"] = r["v"][:, None] * 0.5
            return self.chunk(start=t0, end=t0 + 1000, data=r)
    Src.dtype = dtype
    Src.rechunk_on_load = rechunk_on_load
    Src.chunk_source_size_mb = 0.001 if rechunk_on_load else 200

    class Der(strax.Plugin):
        provides = "der"
        depends_on = ("src",)
        data_kind = "k"
        __version__ = "0"
        rechunk_on_save = False

        def compute(self, k):
            r = np.zeros(len(k), self.dtype)
            r["time"], r["endtime"], r["v"], r["w"] = k["time"], k["endtime"], k["v"] * 2, k["w"] + 1
            return r
    Der.dtype = dtype

    def _same(self, k):
        r = np.zeros(len(k), self.dtype)
        r["time"], r["endtime"], r["v"], r["w"] = k["time"], k["endtime"], k["v"] + 1, k["w"]
        return r
    mk = lambda name, dep: type("P_" + name, (strax.Plugin,), dict(provides=name, depends_on=(dep,), data_kind="k", __version__="0",
                                                                    rechunk_on_save=False, compute=_same, dtype=dtype))
    return [Src, Der, mk("der2", "der"), mk("der3", "der2")]


def _ctx(dirs, **kw):
    import strax
    st = strax.Context(storage=[strax.DataDirectory(d) for d in dirs], register=_classes(**kw))
    st.set_context_config({"use_per_run_defaults": False})
    st.log.setLevel(logging.CRITICAL)
    return st


def _rows(a):
    return [(int(r["time"]), int(r["endtime"]), int(r["v"]), float(r["w"].sum())) for r in a]


def _meta_ok(dirname):
    """metadata consistent with the files: every listed chunk file exists, row counts add up"""
    md = json.load(open(glob.glob(os.path.join(dirname, "*metadata.json"))[0]))
    ok = all((c["n"] == 0) or os.path.exists(os.path.join(dirname, c["filename"])) for c in md["chunks"])
    listed = {c["filename"] for c in md["chunks"] if c.get("filename")}
    present = {os.path.basename(f) for f in glob.glob(os.path.join(dirname, "*")) if not f.endswith("metadata.json")}
    return ok and present <= listed, sum(c["n"] for c in md["chunks"]), md


def _native(i):
    with contextlib.redirect_stdout(io.StringIO()), contextlib.redirect_stderr(io.StringIO()):
        try:
            return _native_(i)
        except Exception as ex:  # noqa
            return dict(error=f"{type(ex).__name__}: {str(ex)[:200]}")


def _native_(i):
    import strax
    warnings.simplefilter("ignore")
    LAYOUT["chunks"] = list(i["chunks"])
    a = tempfile.mkdtemp(dir=_TMP_ROOT)
    b = tempfile.mkdtemp(dir=_TMP_ROOT)
    res = dict(error=None)
    try:
        st = _ctx([a])
        st.make("0", "src", progress_bar=False)
        original = _rows(st.get_array("0", "src", progress_bar=False))
        res["original"] = original
        src_dir = glob.glob(os.path.join(a, "0-src-*"))[0]
        src_files_before = sorted((os.path.basename(f), os.path.getsize(f)) for f in glob.glob(os.path.join(src_dir, "*")))
        op = i["op"]
        if op == "copy":
            st2 = _ctx([a, b])
            st2.copy_to_frontend("0", "src", target_frontend_id=1, target_compressor=i["compressor"], rechunk=i["rechunk"],
                                 rechunk_to_mb=i["target_mb"])
            st3 = _ctx([b])
            res["loaded"] = _rows(st3.get_array("0", "src", progress_bar=False))
            dst = glob.glob(os.path.join(b, "0-src-*"))[0]
            res["meta_ok"], res["meta_n"], md = _meta_ok(dst)
            res["compressor_ok"] = i["compressor"] is None or md["compressor"] == i["compressor"]
        elif op == "copy2":
            c2 = tempfile.mkdtemp(dir=_TMP_ROOT)
            try:
                st2 = _ctx([a, b, c2])
                st2.copy_to_frontend("0", "src", target_frontend_id=None, rechunk=i["rechunk"], rechunk_to_mb=i["target_mb"])
                res["loaded"] = _rows(_ctx([b]).get_array("0", "src", progress_bar=False))
                res["loaded_second"] = _rows(_ctx([c2]).get_array("0", "src", progress_bar=False))
                res["meta_ok"], res["meta_n"], _ = _meta_ok(glob.glob(os.path.join(c2, "0-src-*"))[0])
                res["compressor_ok"] = True
            finally:
                shutil.rmtree(c2, ignore_errors=True)
        elif op == "dry_load":
            md = json.load(open(glob.glob(os.path.join(src_dir, "*metadata.json"))[0]))
            per_chunk = [[r for r in original if 1000 * ci <= r[0] < 1000 * (ci + 1)] for ci in range(len(i["chunks"]))]
            sel = i["select"]
            got = strax.dry_load_files(src_dir, sel, disable=True)
            idx = list(range(len(i["chunks"]))) if sel is None else (list(sel) if isinstance(sel, (list, tuple)) else [sel])
            res["loaded"] = _rows(got)
            res["original"] = [r for ci in idx for r in per_chunk[ci]]
            res["meta_ok"], res["meta_n"], res["compressor_ok"] = True, len(res["original"]), True
        elif op == "per_chunk_partial":
            direct = _rows(_ctx([b]).get_array("0", "der", progress_bar=False))
            n_chunks = len(i["chunks"])
            grp = [[j] for j in range(n_chunks // 2, n_chunks)]          # the later half only, the last chunk included
            for g in grp:
                st.make("0", "der", chunk_number={"src": g}, progress_bar=False)
            st.merge_per_chunk_storage("0", "der", "src", chunk_number_group=grp, rechunk=i["rechunk"])
            res["stored_before_merge"] = bool(_ctx([a]).is_stored("0", "der"))      # a partial merge must not count as the complete data
            res["loaded"] = _rows(_ctx([a]).get_array("0", "der", progress_bar=False))
            res["original"] = direct
            res["meta_ok"], res["meta_n"], res["compressor_ok"] = True, len(direct), True
        elif op == "rechunker":
            out = strax.rechunker(source_directory=src_dir, dest_directory=None if i["replace"] else b, replace=i["replace"],
                                  compressor=i["compressor"], target_size_mb=i["target_mb"], rechunk=i["rechunk"],
                                  progress_bar=i["progress_bar"], parallel=i["parallel"], max_workers=2)
            where = a if i["replace"] else b
            st3 = _ctx([where])
            res["loaded"] = _rows(st3.get_array("0", "src", progress_bar=False))
            dst = glob.glob(os.path.join(where, "0-src-*"))[0]
            res["meta_ok"], res["meta_n"], md = _meta_ok(dst)
            res["compressor_ok"] = i["compressor"] is None or md["compressor"] == i["compressor"]
        elif op == "rechunk_on_load":
            st3 = _ctx([a], rechunk_on_load=True)
            chunks = list(st3.get_iter("0", "src", progress_bar=False, max_workers=i["workers"]))
            res["loaded"] = _rows(np.concatenate([c.data for c in chunks]))
            res["n_chunks_loaded"] = len(chunks)
            res["contiguous"] = all(x.end == y.start for x, y in zip(chunks, chunks[1:]))
            res["meta_ok"], res["meta_n"], res["compressor_ok"] = True, len(original), True
            der = st3.get_array("0", "der", progress_bar=False, max_workers=i["workers"])
            res["der_ok"] = [int(x) for x in der["v"]] == [2 * r[2] for r in original]
        elif op == "per_chunk_deep":
            # a target three plugins above the per-chunk data type: its per-chunk pieces must not be filed under the full key
            direct = _rows(_ctx([b]).get_array("0", "der3", progress_bar=False))
            n_chunks = len(i["chunks"])
            grp = [[j] for j in range(n_chunks)]
            st.make("0", "der3", chunk_number={"src": grp[0]}, progress_bar=False)
            fresh = _ctx([a])
            res["stored_before_merge"] = bool(fresh.is_stored("0", "der3")) or bool(fresh.is_stored("0", "der2"))
            for g in grp[1:]:
                st.make("0", "der3", chunk_number={"src": g}, progress_bar=False)
            st.merge_per_chunk_storage("0", "der3", "src", chunk_number_group=grp, rechunk=i["rechunk"])
            res["loaded"] = _rows(_ctx([a]).get_array("0", "der3", progress_bar=False))
            res["original"] = direct
            res["meta_ok"], res["meta_n"], res["compressor_ok"] = True, len(direct), True
        elif op == "per_chunk":
            direct = _rows(_ctx([b]).get_array("0", "der", progress_bar=False))
            n_chunks = len(i["chunks"])
            for grp in i["groups"]:
                st.make("0", "der", chunk_number={"src": list(grp)}, progress_bar=False, processor=i["processor"])
            res["stored_before_merge"] = bool(st.is_stored("0", "der"))
            # the per-chunk jobs may have run in any order; the merge is given the groups in chunk order
            st.merge_per_chunk_storage("0", "der", "src", chunk_number_group=sorted(list(g) for g in i["groups"]), rechunk=i["rechunk"])
            res["loaded"] = _rows(_ctx([a]).get_array("0", "der", progress_bar=False))
            res["original"] = direct
            dst = [d for d in glob.glob(os.path.join(a, "0-der-*")) if os.path.isdir(d)]
            res["meta_ok"], res["meta_n"], res["compressor_ok"] = True, len(direct), True
        src_files_after = sorted((os.path.basename(f), os.path.getsize(f)) for f in glob.glob(os.path.join(src_dir, "*"))) \
            if os.path.isdir(src_dir) else None
        res["source_intact"] = src_files_after == src_files_before
        res["source_rows_after"] = _rows(_ctx([a]).get_array("0", "src", progress_bar=False)) if not op.startswith("per_chunk") else original
        return res
    finally:
        shutil.rmtree(a, ignore_errors=True)
        shutil.rmtree(b, ignore_errors=True)


def _ens(S, a, r):
    if r["error"] is not None:
        return [("the operation succeeds: " + r["error"], False)]
    out = [("the result loads to exactly the rows of the original / directly made data", r["loaded"] == r["original"]),
           ("metadata is consistent with the new files (listed files exist, row counts add up)", r["meta_ok"] and r["meta_n"] == len(r["original"])),
           ("the requested compressor is recorded", r["compressor_ok"])]
    if a.op == "copy2":
        out.append(("EVERY target frontend receives the complete data", r["loaded_second"] == r["original"]))
    if a.op == "dry_load":
        return out[:1]
    if a.op in ("copy", "copy2", "rechunk_on_load") or (a.op == "rechunker" and not a.replace):
        out.append(("the source data is left intact", r["source_intact"] and r["source_rows_after"] == r["original"]))
    if a.op == "rechunker" and a.replace:
        out.append(("with replace the source location holds the rewritten data", r["source_rows_after"] == r["original"]))
    if a.op == "rechunk_on_load":
        out += [("rechunking on load yields contiguous chunks", r["contiguous"]),
                ("a dependent plugin computes the same from rechunked input", r["der_ok"])]
    if a.op in ("per_chunk", "per_chunk_deep"):
        out.append(("nothing counts as stored before the merge (also for data types several plugins above the per-chunk one)",
                    r["stored_before_merge"] is False))
    if a.op == "per_chunk_partial":
        out.append(("a merge of only some chunks does not count as the complete data type", r["stored_before_merge"] is False))
    return out


def _gen(rng, tier):
    thorough = tier == "thorough"
    layouts = [[3, 0, 2], [1, 1, 1, 1], [40, 5], [0, 4]] if thorough else [[3, 0, 2], [40, 5]]
    comps = ["blosc", "zstd", "lz4", "bz2", None] if thorough else ["zstd", "bz2", None]
    for chunks in layouts:
        for comp in comps:
            for rechunk in (False, True):
                for mb in ((0.001, 200) if thorough else (0.001,)):
                    yield dict(op="copy", chunks=chunks, compressor=comp, rechunk=rechunk, target_mb=mb)
                    for parallel in ((False, "thread", "process") if thorough else (False, "thread")):
                        for replace in (False, True):
                            for bar in ((True, False) if (thorough or not replace) else (True,)):
                                yield dict(op="rechunker", chunks=chunks, compressor=comp, rechunk=rechunk, target_mb=mb, parallel=parallel,
                                           replace=replace, progress_bar=bar)
        for workers in (1, 2):
            yield dict(op="rechunk_on_load", chunks=chunks, workers=workers)
        yield dict(op="copy2", chunks=chunks, rechunk=False, target_mb=200)
        for sel in (None, 0, [0], [0, len(chunks) - 1], (1,)):
            yield dict(op="dry_load", chunks=chunks, select=sel)
    # chunk numbers that are not consecutive / not ascending, skipping a chunk that HAS rows
    for sel in ([0, 2], [2, 0], (3, 1), [1, 3, 0]):
        yield dict(op="dry_load", chunks=[2, 3, 1, 2], select=sel)
    yield dict(op="per_chunk_deep", chunks=[3, 2, 4], rechunk=False)
    yield dict(op="per_chunk_deep", chunks=[3, 2, 4], rechunk=True)
    for chunks in layouts:
        if len(chunks) > 2:
            yield dict(op="per_chunk_partial", chunks=chunks, rechunk=True)
        n = len(chunks)
        groupings = [[[j] for j in range(n)], [list(range(n))]] + ([[list(range(0, n // 2)), list(range(n // 2, n))]] if n > 2 else [])
        if thorough:
            groupings.append([[j] for j in reversed(range(n))])
        for groups in groupings:
            for proc in (("single_thread", "threaded_mailbox") if thorough else ("single_thread",)):
                for rechunk in (False, True):
                    yield dict(op="per_chunk", chunks=chunks, groups=groups, processor=proc, rechunk=rechunk)


copy_preserves = Contract(
    F, "copy_to_frontend / rechunker / rechunk on load / merge_per_chunk_storage",
    params=dict(op="V", chunks="V"), ensures=_ens, raises={},
    harness=Harness(native=_native, gen=_gen,
                    scope="stored layouts {[3,0,2],[40,5]} (thorough: also [1,1,1,1],[0,4]) rows per chunk with a 40-float field; dry_load_files also "
                          "with non-consecutive / descending chunk numbers on layout [2,3,1,2]; "
                          "copy_to_frontend x compressors {zstd,bz2,keep} (thorough: +blosc,lz4) x rechunk on/off x target size; stand-alone "
                          "rechunker x the same x serial / thread (thorough: process) x replace on/off x progress bar on/off; rechunk on load "
                          "with 1 and 2 workers; per-chunk make over groupings {singletons, all, halves} + merge_per_chunk_storage, a partial merge of the later half, copy to two "
                          "targets at once, dry_load_files with None / a number / lists; every "
                          "result loaded through a fresh Context and compared row by row",
                    nontrivial=lambda i: True))
