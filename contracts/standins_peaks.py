"""Bounded stand-ins for the peak-level functions (C19): find_peaks, the hit->peak->waveform chain, replace_merged,
peak splitting.  Concrete-only contracts: direct definitions evaluated on the real code over a stated scope."""

import itertools

import numpy as np

from pyvc.contract import Contract
from pyvc.harness import Harness
from pyvc.engine import RowsT, ArrT
import contracts.peaks as PK
from contracts.harness_pulse import make_records

FB = "strax/processing/peak_building.py"
FM = "strax/processing/peak_merging.py"
FS = "strax/processing/peak_splitting.py"


def _strax():
    import strax
    return strax


def make_hits(rows, dt=1):
    """rows: (time, length, channel, area)"""
    strax = _strax()
    h = np.zeros(len(rows), dtype=strax.hit_dtype)
    for i, (t, ln, ch, area) in enumerate(rows):
        h[i]["time"], h[i]["length"], h[i]["dt"], h[i]["channel"], h[i]["area"] = t, ln, dt, ch, area
    return h


# ---- find_peaks -------------------------------------------------------------------------------
def reference_clusters(hits, gap, le, re_, max_duration):
    """Gap-threshold clustering with the duration cut, as documented: returns list of lists of hit indices and
    a flag telling whether the cluster was closed by the duration cut."""
    clusters, cur, end, start = [], [], None, None
    closed_by_duration = []
    for i, h in enumerate(hits):
        t0, t1 = int(h["time"]), int(h["time"]) + int(h["dt"]) * int(h["length"])
        if not cur:
            start, end = t0 - le, t1
        cur.append(i)
        end = max(end, t1)
        last = i == len(hits) - 1
        far = too_long = False
        if not last:
            nh = hits[i + 1]
            far = int(nh["time"]) - end >= gap
            too_long = (int(nh["time"]) - start + int(nh["dt"]) * int(nh["length"]) + le + re_) > max_duration
        if last or far or too_long:
            clusters.append((cur, start, end))
            closed_by_duration.append(bool(too_long and not far and not last))
            cur = []
    return clusters, closed_by_duration


def _fp_ens(S, a, r):
    hits, peaks = a.hits.arr, r.arr
    clusters, by_duration = reference_clusters(hits, a.gap_threshold, a.left_extension, a.right_extension, a.max_duration)
    to_pe = a.adc_to_pe.arr
    want = []
    for (idx, start, end), dur in zip(clusters, by_duration):
        area = sum(float(hits[i]["area"]) * float(to_pe[int(hits[i]["channel"])]) for i in idx)
        nch = len({int(hits[i]["channel"]) for i in idx if float(hits[i]["area"]) * float(to_pe[int(hits[i]["channel"])]) != 0})
        if area < a.min_area or nch < a.min_channels:
            continue
        want.append((idx, start, end, area))
    out = [("peaks are exactly the gap-threshold clusters that pass the area / channel cuts", len(peaks) == len(want))]
    if len(peaks) != len(want):
        return out
    strax = _strax()
    ends = strax.endtime(peaks)
    for k, (idx, start, end, area) in enumerate(want):
        p = peaks[k]
        out.append((f"peak {k}: starts left_extension before its first hit", int(p["time"]) == start))
        out.append((f"peak {k}: reaches right_extension past its last hit end", int(ends[k]) >= end + a.right_extension - int(p["dt"]) + 0
                    and int(ends[k]) <= end + a.right_extension))
        out.append((f"peak {k}: n_hits", int(p["n_hits"]) == len(idx)))
        # largest gap between a hit and the end of the hits before it in the same peak (0 for a single hit)
        mg, run_end = 0, None
        for i in idx:
            t0, t1 = int(hits[i]["time"]), int(hits[i]["time"]) + int(hits[i]["dt"]) * int(hits[i]["length"])
            if run_end is not None:
                mg = max(mg, t0 - run_end)
            run_end = t1 if run_end is None else max(run_end, t1)
        out.append((f"peak {k}: max_gap is the largest gap between consecutive hits of THIS peak", int(p["max_gap"]) == mg))
        out.append((f"peak {k}: area is the sum of its hits' areas in PE", abs(float(p["area"]) - area) <= 1e-3 * max(1, abs(area))))
    out.append(("peaks are disjoint and time-ordered",
                all(int(ends[k]) <= int(peaks[k + 1]["time"]) for k in range(len(peaks) - 1))))
    return out


def _fp_gen(rng, tier):
    # exhaustive small: up to 3 hits of length 1..2 on a 0..9 grid, dt=1
    starts = range(0, 10)
    for n in (1, 2, 3):
        for ts in itertools.combinations_with_replacement(starts, n):
            for gap, le, re_, md in ((4, 1, 2, 10_000), (4, 1, 2, 8), (3, 0, 0, 6), (5, 2, 2, 9)):
                rows = [(t, 1 + (k % 2), k % 2, 3 + k) for k, t in enumerate(ts)]
                yield dict(hits=make_hits(rows), adc_to_pe=np.ones(2), gap_threshold=gap, left_extension=le,
                           right_extension=re_, min_area=0, min_channels=1, max_duration=md)
    for _ in range(400 if tier == "quick" else 30000):
        n = rng.randint(1, 12)
        t, rows = 0, []
        for _i in range(n):
            t += rng.choice((0, 1, 2, 3, 5, 8, 13))
            rows.append((t, rng.randint(1, 4), rng.randint(0, 3), rng.randint(0, 9)))
        le, re_ = rng.randint(0, 2), rng.randint(0, 3)
        yield dict(hits=make_hits(rows), adc_to_pe=np.array([1.0, 0.5, 2.0, 1.0]), gap_threshold=le + re_ + rng.randint(1, 5),
                   left_extension=le, right_extension=re_, min_area=rng.choice((0, 0, 5)), min_channels=rng.choice((1, 1, 2)),
                   max_duration=rng.choice((10_000, 10_000, 12, 20)))


def _fp_native(i):
    return _strax().find_peaks(i["hits"], i["adc_to_pe"], gap_threshold=i["gap_threshold"], left_extension=i["left_extension"],
                               right_extension=i["right_extension"], min_area=i["min_area"], min_channels=i["min_channels"],
                               max_duration=i["max_duration"])


find_peaks = Contract(
    FB, "find_peaks", params=dict(hits=RowsT(), adc_to_pe=ArrT("real"), gap_threshold="int", left_extension="int",
                                  right_extension="int", min_area="int", min_channels="int", max_duration="int"),
    ensures=_fp_ens, raises={},
    harness=Harness(native=_fp_native, gen=_fp_gen,
                    scope="1..3 hits on a 0..9 grid x 4 (gap, extension, max_duration) settings (exhaustive) + random 1..12 hits, "
                          "4 channels, gap thresholds, extensions 0..3, max durations, area / channel cuts",
                    nontrivial=lambda i: len(i["hits"]) >= 2))


def _f10_region(inputs, outcome):
    """Known finding F10: overlap of two peaks when the first was closed by the max_duration test."""
    if not outcome.failed or any("disjoint" not in f for f in outcome.failed):
        return False
    _, by_duration = reference_clusters(inputs["hits"], inputs["gap_threshold"], inputs["left_extension"],
                                        inputs["right_extension"], inputs["max_duration"])
    return any(by_duration)


find_peaks.known_regions["F10"] = _f10_region


# ---- hits -> peaks -> summed waveform: area conservation -------------------------------------------
def _chain_native(i):
    strax = _strax()
    recs = i["records"]
    hits = strax.find_hits(recs, min_amplitude=i["threshold"])
    hits = strax.sort_by_time(hits)
    to_pe = i["to_pe"]
    peaks = strax.find_peaks(hits, to_pe, gap_threshold=i["gap"], left_extension=1, right_extension=1, min_area=0, min_channels=1)
    rlinks = strax.record_links(recs)
    hitlets_area = hits["area"] * to_pe[hits["channel"]]
    areas_before = peaks["area"].copy()
    strax.sum_waveform(peaks, hits, recs, rlinks, to_pe)
    return dict(peaks=peaks, hits=hits, hit_area_pe=hitlets_area, find_peaks_area=areas_before)


def _chain_ens(S, a, r):
    peaks, hits = r["peaks"].arr, r["hits"].arr
    strax = _strax()
    out = []
    ends = strax.endtime(peaks)
    for k, p in enumerate(peaks):
        inside = (hits["time"] >= p["time"]) & (strax.endtime(hits) <= ends[k])
        want = float(r["hit_area_pe"].arr[inside].sum())
        tol = 1e-3 * max(1.0, abs(want))
        out.append((f"peak {k}: area = sum of its hits' contributions", abs(float(p["area"]) - want) <= tol))
        out.append((f"peak {k}: summed waveform integrates to the area", abs(float(p["data"][: p["length"]].sum()) - want) <= tol))
        out.append((f"peak {k}: per-channel areas add up to the area", abs(float(p["area_per_channel"].sum()) - want) <= tol))
    return out


def _chain_gen(rng, tier):
    spr = 6
    for _ in range(150 if tier == "quick" else 10000):
        rows, t = [], 0
        for p in range(rng.randint(1, 4)):
            ch = rng.randint(0, 2)
            n_frag = rng.randint(1, 2)
            for fi in range(n_frag):
                ln = spr if fi < n_frag - 1 else rng.randint(1, spr)
                rows.append((t, ch, fi, ln, 1, tuple(rng.choice((0, 0, 1, 2, 5)) for _ in range(ln))))
                t += spr
            t += rng.choice((0, 2, 9, 30))
        recs = make_records(rows, spr)
        yield dict(records=recs, threshold=rng.randint(1, 2), to_pe=np.array([1.0, 0.5, 2.0]), gap=rng.choice((3, 5, 12)))


peak_chain = Contract(
    FB, "sum_waveform", params=dict(records=RowsT(), threshold="int", to_pe=ArrT("real"), gap="int"),
    ensures=_chain_ens, raises={},
    harness=Harness(native=_chain_native, gen=_chain_gen,
                    scope="random pulses (1..2 fragments of 6 samples, 3 channels, amplitudes 0..5) -> find_hits -> find_peaks -> sum_waveform "
                          "(no down-sampling in this scope)",
                    nontrivial=lambda i: len(i["records"]) >= 1))


# ---- merge_peaks -------------------------------------------------------------------------------------
def _mp_native(i):
    return _strax().merge_peaks(i["peaks"], i["start_merge_at"], i["end_merge_at"])


def _mp_ens(S, a, r):
    strax = _strax()
    peaks, new = a.peaks.arr, r.arr
    pe = strax.endtime(peaks)
    ne = strax.endtime(new)
    out = [("one merged peak per group", len(new) == a.start_merge_at.n)]
    if len(new) != a.start_merge_at.n:
        return out
    for g in range(len(new)):
        s_, e_ = int(a.start_merge_at.arr[g]), int(a.end_merge_at.arr[g])
        grp = peaks[s_:e_]
        import math
        gcd = 0
        for d_ in grp["dt"]:
            gcd = math.gcd(gcd, int(d_))
        # the merged peak is sampled at the gcd of its parts' sampling widths; its end is the last end rounded DOWN to that grid
        # (never beyond it, so that peaks stay disjoint) - for equal widths and aligned parts that is the last end itself
        out.append((f"group {g}: spans first start to last end (to within one sample of the common sampling width)",
                    int(new[g]["time"]) == int(grp[0]["time"]) and int(pe[e_ - 1]) - gcd < int(ne[g]) <= int(pe[e_ - 1])
                    and all(int(d_) % int(new[g]["dt"]) == 0 for d_ in grp["dt"])))
        out.append((f"group {g}: areas and hit counts add up", abs(float(new[g]["area"]) - float(grp["area"].sum())) < 1e-3
                    and int(new[g]["n_hits"]) == int(grp["n_hits"].sum())
                    and np.allclose(new[g]["area_per_channel"], grp["area_per_channel"].sum(axis=0))))
        out.append((f"group {g}: the merged waveform integrates to the summed area",
                    abs(float(new[g]["data"][: new[g]["length"]].sum()) - float(sum(p["data"][: p["length"]].sum() for p in grp))) < 1e-2))
    return out


def _mp_gen(rng, tier):
    strax = _strax()
    dt = strax.peak_dtype(n_channels=2, n_sum_wv_samples=120)
    for case in range(300 if tier == "quick" else 20000):
        n = rng.randint(2, 7)
        peaks = np.zeros(n, dtype=dt)
        t = 0
        # every third case mixes sampling widths that are not multiples of the smallest one (the merged peak needs their gcd)
        dts = (1,) if case % 3 else rng.choice(((2, 3), (2, 4), (3, 3), (4, 6)))
        for k in range(n):
            t += rng.randint(0, 3)
            ln = rng.randint(1, 4)
            peaks[k]["time"], peaks[k]["length"], peaks[k]["dt"] = t, ln, rng.choice(dts)
            w = [rng.randint(0, 5) for _ in range(ln)]
            peaks[k]["data"][:ln] = w
            peaks[k]["area"] = sum(w)
            peaks[k]["area_per_channel"] = [sum(w) - 1.0, 1.0]
            peaks[k]["n_hits"] = rng.randint(1, 3)
            t += ln * int(peaks[k]["dt"])
        groups, k = [], 0
        while k < n - 1:
            if rng.random() < 0.5:
                e = rng.randint(k + 2, min(n, k + 3))
                groups.append((k, e))
                k = e
            else:
                k += 1
        if rng.random() < 0.5 and (not groups or groups[-1][1] < n - 1):
            groups.append((n - 2, n))      # a group reaching the very end of the list
        if groups:
            yield dict(peaks=peaks, start_merge_at=np.array([g[0] for g in groups]), end_merge_at=np.array([g[1] for g in groups]))


merge_peaks = Contract(
    FM, "merge_peaks", params=dict(peaks=RowsT(), start_merge_at=ArrT("int"), end_merge_at=ArrT("int")),
    ensures=_mp_ens, raises={},
    harness=Harness(native=_mp_native, gen=_mp_gen,
                    scope="random disjoint peak lists of 2..7 peaks (<=4 samples; dt 1, or mixed dt from (2,3) (2,4) (3,3) (4,6)) with merge groups of 2..3 consecutive peaks, "
                          "including groups that end at the last peak",
                    nontrivial=lambda i: True))


# ---- sum_waveform on the children of a split: the children add up to the parent -------------------------
def _sw_split_native(i):
    strax = _strax()
    recs = i["records"]
    to_pe = i["to_pe"]
    hits = strax.sort_by_time(strax.find_hits(recs, min_amplitude=1))
    rlinks = strax.record_links(recs)
    parent = strax.find_peaks(hits, to_pe, gap_threshold=i["gap"], left_extension=0, right_extension=0, min_area=0, min_channels=1)
    strax.sum_waveform(parent, hits, recs, rlinks, to_pe)
    kids = []
    for p in parent:
        cut = int(p["time"]) + max(1, min(int(p["length"]) - 1, i["cut"]))
        if p["length"] < 2:
            continue
        for a, b in ((int(p["time"]), cut), (cut, int(p["time"] + p["length"] * p["dt"]))):
            k = np.zeros(1, dtype=parent.dtype)
            k["time"], k["length"], k["dt"], k["channel"] = a, b - a, 1, p["channel"]
            kids.append(k)
    kids = np.concatenate(kids) if kids else parent[:0].copy()
    strax.sum_waveform(kids, hits, recs, rlinks, to_pe)
    return dict(parent=parent, kids=kids)


def _sw_split_ens(S, a, r):
    parent, kids = r["parent"].arr, r["kids"].arr
    strax = _strax()
    out = []
    pe = strax.endtime(parent)
    for pi, p in enumerate(parent):
        mine = kids[(kids["time"] >= p["time"]) & (strax.endtime(kids) <= pe[pi])]
        if not len(mine):
            continue
        w_parent = p["data"][: p["length"]].astype(np.float64)
        w_kids = np.concatenate([k["data"][: k["length"]] for k in mine]).astype(np.float64)
        out.append((f"children of peak {pi}: their summed waveforms concatenate to the parent's",
                    len(w_kids) == len(w_parent) and np.allclose(w_kids, w_parent, atol=1e-4)))
        out.append((f"children of peak {pi}: areas add up to the parent's area",
                    abs(float(mine["area"].sum()) - float(p["area"])) < 1e-3 * max(1.0, abs(float(p["area"])))))
    return out or [("no peak long enough to split", True)]


def _sw_split_gen(rng, tier):
    spr = 6
    for _ in range(200 if tier == "quick" else 15000):
        rows, t = [], rng.randint(0, 3)
        n_pulses = rng.randint(2, 4)
        for p in range(n_pulses):
            ch = rng.randint(0, 2)
            ln = rng.randint(1, spr)
            rows.append((t, ch, 0, ln, 1, tuple(rng.choice((1, 2, 5)) for _ in range(ln))))
            t += rng.choice((0, 1, 2, 3))      # overlapping / adjacent pulses in different channels
        rows.sort(key=lambda r_: (r_[0], r_[1]))
        yield dict(records=make_records(rows, spr), to_pe=np.array([1.0, 0.5, 2.0]), gap=20, cut=rng.randint(1, 8))


sum_waveform_children = Contract(
    FB, "sum_waveform", variant="children of a split", params=dict(records=RowsT(), to_pe=ArrT("real"), gap="int", cut="int"),
    ensures=_sw_split_ens, raises={},
    harness=Harness(native=_sw_split_native, gen=_sw_split_gen,
                    scope="random 2..4 overlapping single-fragment pulses in 3 channels -> one parent peak, cut at every position into two "
                          "children whose waveforms are summed again",
                    nontrivial=lambda i: True))


# ---- replace_merged ---------------------------------------------------------------------------------
def _rm_ens(S, a, r):
    strax = _strax()
    orig, merge, res = a.orig.arr, a.merge.arr, r.arr
    oe, me = strax.endtime(orig), strax.endtime(merge)
    covered = np.zeros(len(orig), dtype=bool)
    for j in range(len(merge)):
        covered |= (oe > merge[j]["time"]) & (orig["time"] < me[j])
    want = np.concatenate([orig[~covered], merge])
    want = want[np.argsort(want["time"], kind="mergesort")]
    same = len(res) == len(want) and all(res[i].tobytes() == want[i].tobytes() for i in range(len(want)))
    return [("result = merged peaks plus every original peak outside all merged spans, in time order, untouched rows bit-identical", same)]


def _rm_gen(rng, tier):
    strax = _strax()
    dt = strax.peak_dtype(n_channels=2, n_sum_wv_samples=4)
    for it in range(600 if tier == "quick" else 30000):
        n = rng.randint(1, 7)
        orig = np.zeros(n, dtype=dt)
        t = 0
        # sampling width: 1 for a third of the cases, otherwise 2 or 3 - the merged peak built below then ends on the grid of
        # that width, i.e. possibly BEFORE the end of its last constituent (as merge_peaks' flooring does)
        width = 1 if it % 3 == 0 else rng.choice((2, 3))
        for k in range(n):
            t += rng.randint(0, 4)
            ln = rng.randint(1, 4)
            orig[k]["time"], orig[k]["length"], orig[k]["dt"], orig[k]["area"] = t, ln, 1, k + 1
            t += ln
        # merge some runs of consecutive peaks
        merged, k = [], 0
        while k < n:
            if rng.random() < 0.35 and k + 1 < n:
                m = rng.randint(k + 1, min(n - 1, k + 2))
                merged.append((k, m))
                k = m + 1
            else:
                k += 1
        merge = np.zeros(len(merged), dtype=dt)
        for j, (s, e) in enumerate(merged):
            merge[j]["time"] = orig[s]["time"]
            span = int(strax.endtime(orig[e:e + 1])[0] - orig[s]["time"])
            merge[j]["dt"] = width
            merge[j]["length"] = max(1, span // width)
            merge[j]["area"] = 100 + j
        # keep the case only if every merged peak still touches all its constituents and nothing else (the premise under which
        # "replace" is defined); shortened merged peaks that stop before their last constituent starts are left out
        ok = True
        me = strax.endtime(merge)
        for j, (s_, e_) in enumerate(merged):
            if me[j] <= orig[e_]["time"] or me[j] > strax.endtime(orig[e_:e_ + 1])[0]:
                ok = False      # (also left out: a span shorter than one sample of the coarser grid, where the merged peak would reach beyond its last constituent)
        if len(merge) and ok:
            yield dict(orig=orig, merge=merge)


def _rm_wrapper_native(i):
    """the real wrapper, with the kernel run as plain Python: numba does no bounds checking, so skip windows that do not fit (a
    changed wrapper) would corrupt memory in the compiled kernel instead of raising; the compiled kernel has its own replay scope"""
    import strax.processing.peak_merging as pm
    jit = pm._replace_merged
    pm._replace_merged = getattr(jit, "py_func", jit)
    try:
        return pm.replace_merged(i["orig"], i["merge"])
    finally:
        pm._replace_merged = jit


replace_merged = Contract(
    FM, "replace_merged", params=dict(orig=RowsT(), merge=RowsT()), ensures=_rm_ens, raises={},
    harness=Harness(native=lambda i: _rm_wrapper_native(i), gen=_rm_gen,
                    scope="random disjoint peak lists of 1..7 peaks with merged runs of 2..3 consecutive peaks; merged peaks sampled 1, 2 or 3 ns wide and "
                          "floored to that grid (so they may end before their last constituent does)",
                    nontrivial=lambda i: len(i["orig"]) >= 2))


# ---- find_peak_groups: groups of intervals = gap-threshold clusters whatever the peaks' areas ------------------------------
def _fpg_ens(S, a, r):
    strax = _strax()
    peaks = a.peaks.arr
    t, e = r
    t, e = np.asarray(t.arr if hasattr(t, "arr") else t), np.asarray(e.arr if hasattr(e, "arr") else e)
    pe = strax.endtime(peaks)
    groups, cur_start, cur_end = [], None, None
    for k in range(len(peaks)):
        if cur_start is None:
            cur_start, cur_end = int(peaks[k]["time"]), int(pe[k])
        elif int(peaks[k]["time"]) - cur_end >= a.gap_threshold:
            groups.append((cur_start, cur_end))
            cur_start, cur_end = int(peaks[k]["time"]), int(pe[k])
        else:
            cur_end = max(cur_end, int(pe[k]))
    if cur_start is not None:
        groups.append((cur_start, cur_end))
    want_t = [g[0] - a.left_extension for g in groups]
    want_e = [g[1] + a.right_extension for g in groups]
    return [("the groups are exactly the gap-threshold clusters of the intervals (no cut on area or channels), each from its first "
             "start minus the left extension to its last end plus the right extension",
             list(map(int, t)) == want_t and list(map(int, e)) == want_e)]


def _fpg_gen(rng, tier):
    strax = _strax()
    dt = strax.peak_dtype(n_channels=2, n_sum_wv_samples=4)
    for it in range(300 if tier == "quick" else 20000):
        n = rng.randint(1, 6)
        p = np.zeros(n, dtype=dt)
        t = 0
        for k in range(n):
            t += rng.choice((0, 1, 2, 5, 9))
            ln = rng.randint(1, 4)
            p[k]["time"], p[k]["length"], p[k]["dt"] = t, ln, 1
            p[k]["area"] = rng.choice((-2.0, -1.0, 0.0, 1.0, 2.5))
            t += ln
        le, re_ = rng.choice(((0, 0), (1, 1), (0, 2)))
        yield dict(peaks=p, gap_threshold=rng.choice((le + re_ + 1, 4, 6)), left_extension=le, right_extension=re_)


find_peak_groups = Contract(
    FB, "find_peak_groups", params=dict(peaks=RowsT(), gap_threshold="int", left_extension="int", right_extension="int"),
    ensures=_fpg_ens, raises={},
    harness=Harness(native=lambda i: _strax().find_peak_groups(i["peaks"], i["gap_threshold"], i["left_extension"], i["right_extension"]),
                    gen=_fpg_gen, scope="random disjoint peak lists of 1..6 peaks with areas in {-2,-1,0,1,2.5}, gaps 0..9, extensions (0,0),(1,1),(0,2), "
                                        "no duration cut", nontrivial=lambda i: len(i["peaks"]) >= 2))


# ---- peak splitting: children tile the parent --------------------------------------------------------
def _split_native(i):
    strax = _strax()
    from strax.processing.peak_splitting import LocalMinimumSplitter, NaturalBreaksSplitter
    peaks = i["peaks"].copy()
    splitter = LocalMinimumSplitter() if i["algorithm"] == "local_minimum" else NaturalBreaksSplitter()
    is_split = np.zeros(len(peaks), dtype=bool)
    if i["algorithm"] == "local_minimum":
        args = (0.0, 0.0)
    else:
        args = (np.full(len(peaks), i["threshold"]), False, False, 0)
    new = splitter._split_peaks(split_finder=splitter.find_split_points, peaks=peaks, is_split=is_split, orig_dt=i.get("orig_dt", 1),
                                min_area=0, args_options=args, result_dtype=peaks.dtype)
    return dict(children=new, is_split=is_split)


def _split_ens(S, a, r):
    strax = _strax()
    peaks, kids, is_split = a.peaks.arr, r["children"].arr, r["is_split"].arr
    out = []
    ke = strax.endtime(kids)
    pe = strax.endtime(peaks)
    pos = 0
    for pi, p in enumerate(peaks):
        if not is_split[pi]:
            continue
        mine = [k for k in range(len(kids)) if kids[k]["time"] >= p["time"] and ke[k] <= pe[pi]]
        mine = [k for k in mine if k >= pos]
        # children are emitted parent by parent, in time order
        seq = []
        t = int(p["time"])
        k = pos
        while k < len(kids) and int(kids[k]["time"]) == t and int(ke[k]) <= int(pe[pi]):
            seq.append(k)
            t = int(ke[k])
            k += 1
        pos = k
        out.append((f"children of split peak {pi} tile its time span without gap or overlap", t == int(pe[pi]) and len(seq) >= 2))
    if not out:
        out.append(("no peak was split", True))
    return out


def _split_gen(rng, tier):
    strax = _strax()
    dt = strax.peak_dtype(n_channels=2, n_sum_wv_samples=8)
    alphabet = (0, 1, 3, 6)
    def mk(ws, pdt=1):
        peaks = np.zeros(len(ws), dtype=dt)
        t = 100
        for k, w in enumerate(ws):
            peaks[k]["time"], peaks[k]["length"], peaks[k]["dt"] = t, len(w), pdt
            peaks[k]["data"][: len(w)] = w
            peaks[k]["area"] = sum(w)
            t += len(w) * pdt + 5
        return peaks
    for n in (3, 4, 5):
        for w in itertools.product(alphabet, repeat=n):
            for algo in ("local_minimum", "natural_breaks"):
                yield dict(peaks=mk([w]), algorithm=algo, threshold=0.2)
    # down-sampled parents: the parent's dt is a multiple of the records' dt (orig_dt) the children are given
    for w in itertools.product(alphabet, repeat=4):
        for pdt, odt in ((2, 1), (4, 2), (4, 1), (2, 2)):
            yield dict(peaks=mk([w], pdt), algorithm="local_minimum", threshold=0.2, orig_dt=odt)
    for _ in range(200 if tier == "quick" else 20000):
        ws = [tuple(rng.choice(alphabet) for _ in range(rng.randint(2, 8))) for _ in range(rng.randint(1, 3))]
        pdt, odt = rng.choice(((1, 1), (1, 1), (2, 1), (4, 2), (6, 3), (4, 1)))
        yield dict(peaks=mk(ws, pdt), algorithm=rng.choice(("local_minimum", "natural_breaks")), threshold=rng.choice((0.1, 0.3, 0.6)),
                   orig_dt=odt)


split_peaks = Contract(
    FS, "PeakSplitter._split_peaks", params=dict(peaks=RowsT(), algorithm="V", threshold="real", orig_dt="V"),
    ensures=_split_ens, raises={},
    harness=Harness(native=_split_native, gen=_split_gen,
                    scope="all waveforms over {0,1,3,6} of 3..5 samples (exhaustive) x both split finders; all of 4 samples on down-sampled parents "
                          "(dt 2, 4 with records' dt 1, 2) + random 1..3 peaks of 2..8 samples with parent dt / records' dt in {1/1, 2/1, 4/2, 6/3, 4/1}",
                    nontrivial=lambda i: True))


# ---- symmetric_moving_average harness (also the replay scope of its proof) ------------------------------
def _sma_gen(rng, tier):
    for n in range(0, 6):
        for w in itertools.product((0.0, 1.0, 4.0), repeat=n):
            for ww in range(0, 7):
                yield dict(a=np.array(w, dtype=np.float64), wing_width=ww)
    for _ in range(300 if tier == "quick" else 20000):
        yield dict(a=np.array([rng.randint(-5, 20) for _ in range(rng.randint(1, 12))], dtype=np.float64), wing_width=rng.randint(0, 14))


def _sma_native(f):
    return lambda i: f(i["a"], i["wing_width"])


def _sma():
    from strax.processing.peak_splitting import symmetric_moving_average
    return symmetric_moving_average


PK.symmetric_moving_average.harness = Harness(
    native=_sma_native(lambda a, w: _sma()(a, w)),
    variants=[("py_func", _sma_native(lambda a, w: _sma().py_func(a, w)))],
    gen=_sma_gen, scope="all waveforms over {0,1,4} of <=5 samples x wing widths 0..6 (exhaustive) + random <=12 samples, wings <=14",
    nontrivial=lambda i: len(i["a"]) >= 2 and i["wing_width"] >= 1)


# ---- store_downsampled_waveform: smallest factor that fits, blocks summed, dt scaled, only a fractional tail dropped -----------
FPP = "strax/processing/peak_properties.py"


def _sdw_native(i):
    strax = _strax()
    p = np.zeros(1, dtype=strax.peak_dtype(n_channels=2, n_sum_wv_samples=i["n_samples"]))
    p["time"], p["dt"], p["length"] = 1000, i["dt"], len(i["waveform"])
    buf = np.array(i["waveform"], dtype=np.float32)
    strax.store_downsampled_waveform(p[0], buf)
    return dict(length=int(p[0]["length"]), dt=int(p[0]["dt"]), data=p[0]["data"].copy())


def _sdw_ens(S, a, r):
    w = np.array(_unw(a.waveform), dtype=np.float64)
    n, L = a.n_samples, len(w)
    factor = -(-L // n) if L else 1          # the smallest integer factor for which the waveform fits into n samples
    r = _unw(r)
    if factor <= 1:
        want_len, want_dt, want = L, a.dt, w
    else:
        want_len, want_dt = L // factor, a.dt * factor
        want = w[: want_len * factor].reshape(-1, factor).sum(axis=1)
    return [("the waveform is down-sampled by the smallest factor that makes it fit (none if it fits), dt is scaled by it",
             r["length"] == want_len and r["dt"] == want_dt),
            ("every stored sample is the sum of its block of original samples; only a fractional last block is dropped",
             r["length"] == want_len and np.allclose(r["data"][: want_len], want) and not np.any(r["data"][want_len:]))]


def _unw(v):
    if hasattr(v, "arr") and hasattr(v, "n"):
        return v.arr
    if isinstance(v, dict):
        return {k: _unw(x) for k, x in v.items()}
    if isinstance(v, (list, tuple)):
        return type(v)(_unw(x) for x in v)
    return v


def _sdw_gen(rng, tier):
    for n in (2, 3, 4):
        for L in range(1, 4 * n + 2):
            for dt in (1, 10):
                yield dict(n_samples=n, dt=dt, waveform=[float((3 * k) % 5 + 1) for k in range(L)])
    for _ in range(200 if tier == "quick" else 5000):
        n = rng.randint(2, 6)
        yield dict(n_samples=n, dt=rng.choice((1, 2, 10)), waveform=[float(rng.randint(0, 9)) for _k in range(rng.randint(1, 5 * n))])


store_downsampled_waveform = Contract(
    FB, "store_downsampled_waveform", params=dict(n_samples="int", dt="int", waveform="V"), ensures=_sdw_ens, raises={},
    harness=Harness(native=_sdw_native, gen=_sdw_gen,
                    scope="peak buffers of 2..4 samples x every waveform length 1..4n+1 (so every exact multiple and its neighbours) x dt "
                          "in {1,10} + random buffers of 2..6 samples, lengths up to 5n",
                    nontrivial=lambda i: len(i["waveform"]) > i["n_samples"]))


# ---- index_of_fraction: the defining formula of the area-fraction index -------------------------------------------------------
def _iof_native(i):
    strax = _strax()
    p = np.zeros(1, dtype=strax.peak_dtype(n_channels=2, n_sum_wv_samples=8))
    w = i["waveform"]
    p["length"], p["dt"], p["area"] = len(w), 1, sum(w)
    p["data"][0, : len(w)] = w
    return strax.index_of_fraction(p, np.array(i["fractions"], dtype=np.float64))[0]


def _iof_spec(w, f):
    """Fractional index at which the cumulative area first REACHES the fraction f of the total: the first sample i with
    cum(i+1) >= f * total, entered as far as needed ((f*total - cum(i)) / w[i]; at its start if the sample is empty)."""
    tot = float(sum(w))
    cum = 0.0
    for i, x in enumerate(w):
        if cum + x >= f * tot - 1e-9:
            return i + ((f * tot - cum) / x if x != 0 else 0.0)
        cum += x
    return float(len(w))


def _iof_ens(S, a, r):
    w, fr = list(_unw(a.waveform)), list(_unw(a.fractions))
    r = np.asarray(_unw(r), dtype=np.float64)
    want = [float(len(w)) if f == 1 and k == len(fr) - 1 else _iof_spec(w, f) for k, f in enumerate(fr)]
    return [(f"the index of each area fraction is where the cumulative area first reaches it, linearly inside the sample "
             f"[got {r.tolist()}, defined {want}]", bool(np.allclose(r, want, atol=1e-4)))]


def _iof_gen(rng, tier):
    fr = [0.0, 0.25, 0.5, 0.75, 1.0]
    for n in range(1, 5):
        for w in itertools.product((0, 1, 2), repeat=n):
            if sum(w) > 0:
                yield dict(waveform=list(w), fractions=fr)
                yield dict(waveform=list(w), fractions=[0.5])
    for _ in range(200 if tier == "quick" else 5000):
        # random part: the total is made a power of two and the fractions are binary-exact, so that every partial sum is exact in
        # floating point and "reaches the fraction exactly at a sample boundary" is decided the same way by the code and the formula
        w = [rng.choice((0, 0, 1, 2, 4)) for _k in range(rng.randint(1, 7))]
        tot = sum(w)
        target = 1
        while target < max(tot, 1):
            target *= 2
        w.insert(rng.randint(0, len(w)), target - tot) if target > tot else None
        if sum(w) > 0 and len(w) <= 8:
            yield dict(waveform=w, fractions=sorted(rng.choice((0.0, 0.125, 0.25, 0.5, 0.75, 0.875, 1.0)) for _k in range(rng.randint(1, 4))))


index_of_fraction = Contract(
    FPP, "index_of_fraction", params=dict(waveform="V", fractions="V"), ensures=_iof_ens, raises={},
    harness=Harness(native=_iof_native, gen=_iof_gen,
                    scope="all waveforms over {0,1,2} of 1..4 samples with positive area x fractions {0,.25,.5,.75,1} and {.5} + random "
                          "waveforms of <=8 samples whose total is a power of two with up to 4 sorted binary-exact fractions (all partial sums exact)",
                    nontrivial=lambda i: len(i["waveform"]) >= 2))


# ---- highest_density_region: the smallest set of highest samples (whole height levels) holding at least the fraction ------------
FST = "strax/processing/statistics.py"


def _hdr_reference(data, f):
    data = np.asarray(data, dtype=float)
    tot = data.sum()
    sel = data >= data.max()
    for level in sorted(set(data.tolist()))[::-1]:
        sel = data >= level
        if data[sel].sum() / tot >= f:
            break
    idx = np.flatnonzero(sel)
    if len(idx) == len(data):
        return [[0, len(data)]]
    out, start = [], idx[0]
    for a_, b_ in zip(idx[:-1], idx[1:]):
        if b_ != a_ + 1:
            out.append([int(start), int(a_) + 1])
            start = b_
    out.append([int(start), int(idx[-1]) + 1])
    return out


def _hdr_native(i):
    res, _amp = _strax().highest_density_region(np.array(i["data"], dtype=np.float64), np.array([i["fraction"]]))
    out = []
    for k in range(res.shape[2]):
        a_, b_ = res[0, 0, k], res[0, 1, k]
        if a_ == 0 and b_ == 0:
            break
        out.append([int(a_), int(b_)])
    return out


def _hdr_ens(S, a, r):
    want = _hdr_reference(_unw(a.data), a.fraction)
    got = [list(x) for x in _unw(r)]
    return [(f"the region is the smallest set of highest samples (whole height levels) that holds at least the fraction of the area - a "
             f"level holding EXACTLY the fraction is that level [got {got}, defined {want}]", got == want)]


def _hdr_gen(rng, tier):
    for n in (2, 3, 4, 5):
        for data in itertools.product([0, 1, 2, 4], repeat=n):
            # (a plateau at the maximum is treated sample by sample by strax - kept out of this scope; totals and fractions are such
            #  that every partial sum is exact in floating point)
            if sum(data) == 0 or list(data).count(max(data)) != 1 or (n == 5 and rng.random() < 0.8):
                continue
            for f in (0.25, 0.5, 0.75):
                yield dict(data=list(data), fraction=f)


highest_density_region = Contract(
    FST, "highest_density_region", params=dict(data="V", fraction="real"), ensures=_hdr_ens, raises={},
    harness=Harness(native=_hdr_native, gen=_hdr_gen,
                    scope="all waveforms over {0,1,2,4} of 2..4 samples (a fifth of those of 5 samples) with a unique maximum x fractions "
                          "{0.25, 0.5, 0.75}; one fraction per call",
                    nontrivial=lambda i: len(i["data"]) >= 3))


# ---- replay harness of the PROVED contract of _replace_merged: the compiled kernel and its py_func on real peak arrays ----------
def _rmk_gen(rng, tier):
    strax = _strax()
    for inp in _rm_gen(rng, tier):
        orig, merge = inp["orig"], inp["merge"]
        sw = strax.touching_windows(orig, merge)
        skip_n = int(np.diff(sw, axis=1).sum())
        yield dict(result=np.zeros(len(orig) - skip_n + len(merge), dtype=orig.dtype), orig=orig, merge=merge, skip_windows=sw)


def _rmk_native(py):
    def run(i):
        import strax.processing.peak_merging as pm
        f = pm._replace_merged
        pyf = getattr(f, "py_func", f)
        if not py:
            # memory safety of the harness: the compiled kernel (no bounds checks) only runs where the Python semantics do not raise
            pyf(i["result"].copy(), i["orig"], i["merge"], i["skip_windows"])
        (pyf if py else f)(i["result"], i["orig"], i["merge"], i["skip_windows"])
        return None
    return run


PK._replace_merged.harness = Harness(
    native=_rmk_native(False), variants=[("py_func", _rmk_native(True))], gen=_rmk_gen,
    scope="random disjoint peak lists of 1..7 peaks with merged runs of 2..3 consecutive peaks, skip windows from the real touching_windows",
    nontrivial=lambda i: len(i["orig"]) >= 2)
