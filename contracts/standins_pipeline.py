"""Bounded stand-in for C01 on the real code: for a graph with row-wise, filtering, same-kind merging, multi-output,
overlap-window and exhaust plugins, get_iter gives the rows of the whole-run computation for every enumerated source
chunking, processor, worker count, lazy / eager mode, mailbox capacity, rechunk-on-save setting and stored subset, and the
chunks tile the run.  Concrete-only; labelled bounded."""

import atexit
import contextlib
import io
import itertools
import logging
import shutil
import tempfile
import warnings

import numpy as np

from pyvc.contract import Contract
from pyvc.harness import Harness

F = "strax/context.py"
_TMP_ROOT = tempfile.mkdtemp(prefix="verif_c01_")
atexit.register(lambda: shutil.rmtree(_TMP_ROOT, ignore_errors=True))
LAYOUT = {}
TARGETS = ("ta", "tb", "tm", "mo1", "mo2", "ow", "ex", "fx", "mm", "two", "dc", "dd")
_CLS = {}


def _classes(rechunk):
    import strax
    if rechunk in _CLS:
        return _CLS[rechunk]
    base = strax.time_fields
    small = dict(rechunk_on_save=rechunk, chunk_target_size_mb=(1e-4 if rechunk else 200))

    class Src(strax.Plugin):
        provides = "src"
        depends_on = ()
        data_kind = "ks"
        dtype = base + [(("value", "v"), np.int64)]
        rechunk_on_save = False
        __version__ = "0"

        def source_finished(self):
            return True

        def is_ready(self, chunk_i):
            return chunk_i < len(LAYOUT["cuts"]) - 1

        def compute(self, chunk_i):
            a, b = LAYOUT["cuts"][chunk_i], LAYOUT["cuts"][chunk_i + 1]
            rows = [r for r in LAYOUT["rows"] if a <= r[0] and r[1] <= b and a != b
                    and not any(c0 <= r[0] and r[1] <= c1 and c0 != c1 for c0, c1 in zip(LAYOUT["cuts"][:chunk_i], LAYOUT["cuts"][1:chunk_i + 1]))]
            d = np.zeros(len(rows), self.dtype)
            for j, (t, e) in enumerate(rows):
                d[j]["time"], d[j]["endtime"], d[j]["v"] = t, e, 3 * t + 1
            return self.chunk(start=a, end=b, data=d)

    def mk(name, deps, kind, compute, extra_fields, **kw):
        attrs = dict(provides=name, depends_on=deps, data_kind=kind, dtype=base + extra_fields, compute=compute, __version__="0", **small)
        attrs.update(kw)
        return type("P_" + (name if isinstance(name, str) else "_".join(name)), (kw.pop("base", strax.Plugin),), attrs)

    def a_compute(self, ks):
        r = np.zeros(len(ks), self.dtype)
        r["time"], r["endtime"], r["x"] = ks["time"], ks["endtime"], ks["v"] * 2
        return r

    def a2_compute(self, ks):
        r = np.zeros(len(ks), self.dtype)
        r["time"], r["endtime"], r["y"] = ks["time"], ks["endtime"], ks["v"] + 5
        return r

    def b_compute(self, ks):
        sel = ks[ks["v"] % 2 == 0]
        r = np.zeros(len(sel), self.dtype)
        r["time"], r["endtime"], r["z"] = sel["time"], sel["endtime"], sel["v"]
        return r

    def m_compute(self, ka):
        r = np.zeros(len(ka), self.dtype)
        r["time"], r["endtime"], r["s"] = ka["time"], ka["endtime"], ka["x"] + ka["y"]
        return r

    def mo_compute(self, ka):
        r1 = np.zeros(len(ka), self.dtype["mo1"])
        r1["time"], r1["endtime"], r1["p"] = ka["time"], ka["endtime"], ka["x"] + 1
        keep = ka[ka["x"] % 4 == 0]
        r2 = np.zeros(len(keep), self.dtype["mo2"])
        r2["time"], r2["endtime"], r2["q"] = keep["time"], keep["endtime"], keep["x"]
        return dict(mo1=r1, mo2=r2)

    def ow_compute(self, ka):
        r = np.zeros(len(ka), self.dtype)
        r["time"], r["endtime"] = ka["time"], ka["endtime"]
        for j in range(len(ka)):
            r[j]["n"] = np.sum((ka["endtime"] > ka["time"][j] - 2) & (ka["time"] < ka["endtime"][j] + 2))
        return r

    def ex_compute(self, ka):
        r = np.zeros(1 if len(ka) else 0, self.dtype)
        if len(ka):
            r["time"], r["endtime"], r["tot"] = ka["time"][0], ka["endtime"][-1], ka["x"].sum()
        return r

    i64 = np.int64
    A = mk("ta", ("src",), "ka", a_compute, [(("field x", "x"), i64)])
    A2 = mk("ta2", ("src",), "ka", a2_compute, [(("field y", "y"), i64)])
    B = mk("tb", ("src",), "kb", b_compute, [(("field z", "z"), i64)])
    M = mk("tm", ("ta", "ta2"), "km", m_compute, [(("field s", "s"), i64)])
    MO = type("P_mo", (strax.Plugin,), dict(provides=("mo1", "mo2"), depends_on=("ta",), data_kind=dict(mo1="kmo1", mo2="kmo2"),
                                            dtype=dict(mo1=base + [(("field p", "p"), i64)], mo2=base + [(("field q", "q"), i64)]),
                                            compute=mo_compute, __version__="0", **small))
    OW = type("P_ow", (strax.OverlapWindowPlugin,), dict(provides="ow", depends_on=("ta",), data_kind="kow", dtype=base + [(("field n", "n"), i64)],
                                                         compute=ow_compute, get_window_size=lambda self: 2, __version__="0", **small))
    EX = type("P_ex", (strax.ExhaustPlugin,), dict(provides="ex", depends_on=("ta",), data_kind="kex", dtype=base + [(("field tot", "tot"), i64)],
                                                   compute=ex_compute, __version__="0", **small))
    class Src2(strax.Plugin):
        """an independent source with its own rows and its own chunking"""
        provides = "src2"
        depends_on = ()
        data_kind = "kz"
        dtype = base + [(("value z", "w"), np.int64)]
        rechunk_on_save = False
        __version__ = "0"

        def source_finished(self):
            return True

        def is_ready(self, chunk_i):
            return chunk_i < len(LAYOUT["cuts2"]) - 1

        def compute(self, chunk_i):
            a, b = LAYOUT["cuts2"][chunk_i], LAYOUT["cuts2"][chunk_i + 1]
            rows = [r for r in LAYOUT["rows2"] if a <= r[0] and r[1] <= b and a != b]
            d = np.zeros(len(rows), self.dtype)
            for j, (t, e) in enumerate(rows):
                d[j]["time"], d[j]["endtime"], d[j]["w"] = t, e, 7 * t + e
            return self.chunk(start=a, end=b, data=d)

    def fx_compute(self, kex, ka):
        r = np.zeros(len(ka), self.dtype)
        r["time"], r["endtime"], r["fxv"] = ka["time"], ka["endtime"], ka["x"] + kex["tot"].sum()
        return r

    def mm_compute(self, kmo1, kmo2):
        r = np.zeros(len(kmo1), self.dtype)
        r["time"], r["endtime"] = kmo1["time"], kmo1["endtime"]
        for j in range(len(kmo1)):
            r[j]["mmv"] = kmo1["p"][j] + np.sum(kmo2["q"][(kmo2["time"] == kmo1["time"][j])])
        return r

    def two_compute(self, ka, kz):
        r = np.zeros(len(ka), self.dtype)
        r["time"], r["endtime"] = ka["time"], ka["endtime"]
        for j in range(len(ka)):
            r[j]["tw"] = ka["x"][j] + np.sum(kz["w"][(kz["endtime"] > ka["time"][j]) & (kz["time"] < ka["endtime"][j])])
        return r

    FX = mk("fx", ("ex", "ta"), "kfx", fx_compute, [(("field fxv", "fxv"), i64)])
    MM = mk("mm", ("mo1", "mo2"), "kmm", mm_compute, [(("field mmv", "mmv"), i64)])
    TWO = mk("two", ("ta", "src2"), "ktwo", two_compute, [(("field tw", "tw"), i64)])
    def dc_compute(self, ka, start, end):
        """down-chunking: the chunk is handed on in two pieces, cut at the first clean break between rows (the second piece has
        no rows when there is none)"""
        r = np.zeros(len(ka), self.dtype)
        r["time"], r["endtime"], r["dcv"] = ka["time"], ka["endtime"], ka["x"] + 3
        k_cut = len(r)
        for k in range(1, len(r)):
            if r["endtime"][:k].max() <= r["time"][k]:
                k_cut = k
                break
        cut = int(r["endtime"][:k_cut].max()) if len(r) else int(start)
        yield self.chunk(start=start, end=cut, data=r[:k_cut], data_type="dc")
        yield self.chunk(start=cut, end=end, data=r[k_cut:], data_type="dc")

    def dd_compute(self, kdc):
        r = np.zeros(len(kdc), self.dtype)
        r["time"], r["endtime"], r["ddv"] = kdc["time"], kdc["endtime"], kdc["dcv"] * 2
        return r

    DC = type("P_dc", (strax.DownChunkingPlugin,), dict(provides="dc", depends_on=("ta",), data_kind="kdc", dtype=base + [(("field dcv", "dcv"), i64)],
                                                        compute=dc_compute, __version__="0", rechunk_on_save=False))
    DD = mk("dd", ("dc",), "kdd", dd_compute, [(("field ddv", "ddv"), i64)])
    _CLS[rechunk] = [Src, Src2, A, A2, B, M, MO, OW, EX, FX, MM, TWO, DC, DD]
    return _CLS[rechunk]


def _whole(rows, target):
    """each plugin's computation applied to the whole, unchunked run"""
    v = {r: 3 * r[0] + 1 for r in rows}
    x = {r: 2 * v[r] for r in rows}
    if target == "ta":
        return [(t, e, x[(t, e)]) for (t, e) in rows]
    if target == "tb":
        return [(t, e, v[(t, e)]) for (t, e) in rows if v[(t, e)] % 2 == 0]
    if target == "tm":
        return [(t, e, x[(t, e)] + v[(t, e)] + 5) for (t, e) in rows]
    if target == "mo1":
        return [(t, e, x[(t, e)] + 1) for (t, e) in rows]
    if target == "mo2":
        return [(t, e, x[(t, e)]) for (t, e) in rows if x[(t, e)] % 4 == 0]
    if target == "ow":
        return [(t, e, sum(1 for (t2, e2) in rows if e2 > t - 2 and t2 < e + 2)) for (t, e) in rows]
    if target == "ex":
        return [(rows[0][0], rows[-1][1], sum(x.values()))] if rows else []
    if target == "fx":
        return [(t, e, x[(t, e)] + sum(x.values())) for (t, e) in rows]
    if target == "mm":
        return [(t, e, x[(t, e)] + 1 + (x[(t, e)] if x[(t, e)] % 4 == 0 else 0)) for (t, e) in rows]
    if target == "dc":
        return [(t, e, x[(t, e)] + 3) for (t, e) in rows]
    if target == "dd":
        return [(t, e, 2 * (x[(t, e)] + 3)) for (t, e) in rows]
    if target == "two":
        rows2 = [tuple(r) for r in LAYOUT["rows2"]]
        return [(t, e, x[(t, e)] + sum(7 * t2 + e2 for (t2, e2) in rows2 if e2 > t and t2 < e)) for (t, e) in rows]


FIELD = dict(ta="x", tb="z", tm="s", mo1="p", mo2="q", ow="n", ex="tot", fx="fxv", mm="mmv", two="tw", dc="dcv", dd="ddv")


def _native(i):
    with contextlib.redirect_stdout(io.StringIO()), contextlib.redirect_stderr(io.StringIO()):
        try:
            return _native_(i)
        except Exception as ex:  # noqa
            return dict(error=f"{type(ex).__name__}: {str(ex)[:200]}")


def _native_(i):
    import strax
    warnings.simplefilter("ignore")
    LAYOUT["rows"] = [tuple(r) for r in i["rows"]]
    LAYOUT["cuts"] = list(i["cuts"])
    LAYOUT["rows2"] = [tuple(r) for r in i.get("rows2", [])]
    LAYOUT["cuts2"] = list(i.get("cuts2", [i["cuts"][0], i["cuts"][-1]]))
    tmp = tempfile.mkdtemp(dir=_TMP_ROOT)
    try:
        st = strax.Context(storage=[strax.DataDirectory(tmp)], register=_classes(i["rechunk"]),
                           allow_lazy=i["lazy"], max_messages=i["max_messages"], timeout=15)
        st.set_context_config({"use_per_run_defaults": False})
        st.log.setLevel(logging.CRITICAL)
        kw = dict(progress_bar=False, processor=i["processor"], max_workers=i["workers"])
        for s in i["stored"]:
            st.make("0", s, **kw)
        chunks = list(st.get_iter("0", i["target"], **kw))
        f = FIELD[i["target"]]
        return dict(error=None,
                    rows=[(int(r["time"]), int(r["endtime"]), int(r[f])) for c in chunks for r in c.data],
                    spans=[(int(c.start), int(c.end)) for c in chunks],
                    inside=all(c.start <= r["time"] and r["endtime"] <= c.end for c in chunks for r in c.data))
    finally:
        shutil.rmtree(tmp, ignore_errors=True)


def _ens(S, a, r):
    if r["error"] is not None:
        return [("a law-abiding run is processed without error: " + r["error"], False)]
    rows = [tuple(x) for x in a.rows]
    LAYOUT["rows2"] = [tuple(x) for x in getattr(a, "rows2", [])] if a._has("rows2") else []
    want = _whole(rows, a.target)
    sp = r["spans"]
    return [("the rows are exactly those of the whole-run computation", [tuple(x) for x in r["rows"]] == want),
            ("the chunks tile the run contiguously", bool(sp) and sp[0][0] == a.cuts[0] and sp[-1][1] == a.cuts[-1]
             and all(x[1] == y[0] for x, y in zip(sp, sp[1:]))),
            ("every row lies wholly inside the chunk that carries it", r["inside"])]


# rows / cuts of the independent second source: long rows that straddle the first source's chunk boundaries
SECOND = [([(0, 5), (5, 9)], [0, 12]), ([(1, 4), (6, 11)], [0, 5, 12]), ([], [0, 12]), ([(0, 12)], [0, 12]), ([(2, 3), (3, 10)], [0, 2, 11, 12])]


def _gen(rng, tier):
    thorough = tier == "thorough"
    T = 12
    rowsets = [[(0, 1), (2, 3), (5, 6), (9, 11)], [(1, 2), (2, 4), (4, 5), (7, 8), (8, 9), (10, 12)], [], [(3, 6)]]
    settings = [("single_thread", 1, True, 4), ("threaded_mailbox", 1, True, 4), ("threaded_mailbox", 2, False, 4),
                ("threaded_mailbox", 1, True, 2), ("threaded_mailbox", 1, False, 3)]
    stored_sets = [(), ("ta",), ("src", "ta2"), ("ta", "ta2", "tb"), ("ex",), ("mo1", "mo2")]
    for rows in rowsets[: (4 if thorough else 2)]:
        inner = [t for t in range(1, T) if not any(x < t < y for x, y in rows)]
        cutsets = [[0, T]]
        for k in (1, 2, 4):
            for _ in range(6 if thorough else 1):
                if len(inner) >= k:
                    cutsets.append([0] + sorted(rng.sample(inner, k)) + [T])
        z = list(cutsets[-1])
        j = rng.randrange(1, len(z))
        cutsets.append(z[:j + 1] + z[j:])           # with a zero-duration chunk
        for cuts in cutsets:
            for target in (TARGETS if thorough else rng.sample(TARGETS[:-2], 4) + [rng.choice(TARGETS[-2:])]):
                for (proc, workers, lazy, mm) in (settings if thorough else rng.sample(settings, 2)):
                    for stored in (stored_sets if thorough else rng.sample(stored_sets, 2)):
                        for rechunk in ((False, True) if thorough else (rng.random() < 0.5,)):
                            rows2, cuts2 = rng.choice(SECOND)
                            if target == "fx" and proc == "threaded_mailbox":
                                # the property's premise "capacity above the largest plugin lag": fx waits for the exhaust plugin,
                                # which lags by the whole run, so the mailbox of ta must be able to hold every chunk
                                mm = max(mm, len(cuts) + 2)
                            yield dict(rows=[list(x) for x in rows], cuts=cuts, target=target, processor=proc, workers=workers, lazy=lazy,
                                       max_messages=mm, stored=list(stored), rechunk=rechunk, rows2=[list(x) for x in rows2], cuts2=cuts2)


pipeline = Contract(
    F, "Context.get_iter (whole pipeline)", params=dict(rows="V", cuts="V", target="V", processor="V", workers="int", lazy="bool",
                                                         max_messages="int", stored="V", rechunk="bool"),
    ensures=_ens, raises={},
    harness=Harness(native=_native, gen=_gen,
                    scope="graph src -> {ta, ta2 (same kind, merged by tm), tb (filter), mo1/mo2 (multi-output), ow (overlap window 2), ex (exhaust), fx (reads ex "
                          "and ta: two readers of ta, one running ahead), mm (needs both outputs of the multi-output plugin)} and two (ta + an "
                          "independent second source with long rows and its own chunking) "
                          "on the grid 0..12; 2 (thorough: 4) row sets x source chunkings with 0/1/2/4 inner cuts and a zero-duration chunk x "
                          "targets x {single_thread, threaded_mailbox with 1..2 workers, lazy / eager, max_messages 2..4} x stored subsets "
                          "{none, ta, src+ta2, ta+ta2+tb} x rechunk_on_save with a tiny target size; real Context with a DataDirectory; dc (a "
                          "down-chunking plugin handing every chunk on in two pieces, one possibly without rows) and dd (paced by dc). Loop "
                          "plugins are not in the graph.",
                    nontrivial=lambda i: len(i["cuts"]) > 2))


# ---- multiprocess mode: plugins inlined into the process-pool source must be parallel-safe ------------------------------------
def _mp_native(i):
    with contextlib.redirect_stdout(io.StringIO()), contextlib.redirect_stderr(io.StringIO()):
        import strax
        import contracts.mp_plugins as MP
        warnings.simplefilter("ignore")
        tmp = tempfile.mkdtemp(dir=_TMP_ROOT)
        try:
            st = strax.Context(storage=[strax.DataDirectory(tmp)], register=[MP.MPSource, MP.MPRowwise, MP.MPNumbering],
                               allow_multiprocess=i["multiprocess"], allow_lazy=False, timeout=60)
            st.set_context_config({"use_per_run_defaults": False})
            st.log.setLevel(logging.CRITICAL)
            try:
                a = st.get_array("0", i["target"], progress_bar=False, max_workers=i["workers"], processor="threaded_mailbox")
                return dict(error=None, values=[int(x) for x in a["n" if i["target"] == "mp_numbered" else "w"]])
            except Exception as ex:  # noqa
                return dict(error=f"{type(ex).__name__}: {str(ex)[:160]}", values=None)
        finally:
            shutil.rmtree(tmp, ignore_errors=True)


def _mp_ens(S, a, r):
    import contracts.mp_plugins as MP
    n = MP.N_CHUNKS * MP.ROWS_PER_CHUNK
    if a.target == "mp_numbered":
        want = list(range(n))
    else:
        want = [3 * (7 * c + k) for c in range(MP.N_CHUNKS) for k in range(MP.ROWS_PER_CHUNK)]
    return [(f"with and without a process pool the rows are those of the whole-run computation (a stateful, non-parallel plugin keeps "
             f"running sequentially in one place) [error {r['error']}, got {r['values']}]", r["error"] is None and r["values"] == want)]


def _mp_gen(rng, tier):
    for target in ("mp_numbered", "mp_row"):
        for mp, workers in ((False, 1), (True, 2), (True, 3), (False, 2)):
            yield dict(target=target, multiprocess=mp, workers=workers)


multiprocess = Contract(
    F, "Context.get_array (process pool)", params=dict(target="V", multiprocess="bool", workers="int"), ensures=_mp_ens, raises={},
    harness=Harness(native=_mp_native, gen=_mp_gen,
                    scope="a process-pool source -> a stateless plugin -> a STATEFUL row-numbering plugin (parallel = False), 10 chunks; "
                          "allow_multiprocess on / off, 1..3 workers, both targets (8 runs)",
                    nontrivial=lambda i: i["multiprocess"]))
