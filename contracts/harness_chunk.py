"""Concrete harnesses (real strax) for the chunk.py contracts."""

import itertools

import numpy as np

from pyvc.harness import Harness, intervals, all_sorted_intervals, random_sorted_intervals, INTERVAL_DT
import contracts.chunk as CH

EXTRA_DT = np.dtype([("time", np.int64), ("endtime", np.int64), ("foo", np.int32)])
TITLED_DT = np.dtype([(("Start time", "time"), np.int64), (("End time", "endtime"), np.int64)])


def _chunk_native(i):
    import strax
    return strax.Chunk(**i)


def _init_gen(rng, tier):
    base = dict(data_type="things", data_kind="things", run_id="0", subruns=None, superrun=None, target_size_mb=200)
    rows = [[], [(0, 1)], [(1, 3), (2, 5)], [(2, 4), (4, 6), (5, 9)]]
    for r in rows:
        for dt_decl, dt_data in ((INTERVAL_DT, INTERVAL_DT), (INTERVAL_DT, EXTRA_DT), (TITLED_DT, INTERVAL_DT),
                                 (EXTRA_DT, INTERVAL_DT)):
            data = np.zeros(len(r), dtype=dt_data)
            for k, (s, e) in enumerate(r):
                data[k]["time"], data[k]["endtime"] = s, e
            for start, end in itertools.product((-1, 0, 1, 2, 3), (0, 3, 5, 9, 10)):
                yield dict(base, dtype=dt_decl, data=data, start=start, end=end)
            yield dict(base, dtype=dt_decl, data=data, start=0.0, end=10)
            yield dict(base, dtype=dt_decl, data=data, start=np.int64(0), end=np.int32(10))
    for _ in range(300 if tier == "quick" else 20000):
        r = random_sorted_intervals(rng, rng.randint(0, 6), 30, 6)
        data = intervals(r)
        yield dict(base, dtype=INTERVAL_DT, data=data, start=rng.randint(0, 5), end=rng.randint(20, 60))


CH.chunk_init_rows.harness = Harness(
    native=_chunk_native, gen=_init_gen,
    scope="4 small row sets x declared/actual dtype pairs (equal, extra field, titled) x start in -1..3 x end in {0,3,5,9,10}, "
          "float / numpy-integer bounds, + random",
    nontrivial=lambda i: len(i["data"]) > 0)


def _init_none_gen(rng, tier):
    base = dict(data_type="things", data_kind="things", run_id="0", subruns=None, superrun=None, target_size_mb=200,
                dtype=INTERVAL_DT, data=None)
    for start, end in itertools.product((-1, 0, 1, 5, 2.5), (0, 3, 5, 7.0)):
        yield dict(base, start=start, end=end)


CH.chunk_init_none.harness = Harness(native=_chunk_native, gen=_init_none_gen, scope="start/end grid incl. floats",
                                     nontrivial=lambda i: True)


def _init_other_gen(rng, tier):
    base = dict(data_type="things", data_kind="things", run_id="0", subruns=None, superrun=None, target_size_mb=200,
                dtype=INTERVAL_DT, start=0, end=10)
    for d in ([1, 2, 3], "abc", 5, {"time": 1}, (1, 2)):
        yield dict(base, data=d)


CH.chunk_init_other.harness = Harness(native=_chunk_native, gen=_init_other_gen,
                                      scope="list / str / int / dict / tuple as data", nontrivial=lambda i: True)
