"""Import every contract module (registers them in pyvc.contract.REG)."""
from contracts import sort_enforcement, chunk, general  # noqa
from contracts import plugin  # noqa
from contracts import pulse  # noqa
from contracts import peaks  # noqa
from contracts import selection  # noqa
from contracts import context  # noqa
from contracts import mailbox  # noqa
from contracts import storage  # noqa
from . import processor  # noqa
from . import superrun  # noqa
from . import lineage  # noqa
from . import compute  # noqa
from . import overlap  # noqa
from . import multirun  # noqa
from . import postoffice  # noqa
from . import copying  # noqa
from . import getiter  # noqa
