"""Bounded stand-ins for storage (C03 save->load round trip through the real compressors, C04 fault enumeration
with a failing file-system shim).  Concrete-only; labelled bounded."""

import atexit
import builtins
import concurrent.futures
import glob
import json
import os
import shutil
import tempfile

import numpy as np

from pyvc.contract import Contract
from pyvc.harness import Harness, INTERVAL_DT, TLD_DT

FC = "strax/storage/common.py"
_ROOT = tempfile.mkdtemp(prefix="verif_storage_")
atexit.register(lambda: shutil.rmtree(_ROOT, ignore_errors=True))

ARR_DT = np.dtype([(("Start", "time"), np.int64), (("End", "endtime"), np.int64), ("w", np.float32, (3,)), ("c", np.int16)])
DTYPES = {"intervals": INTERVAL_DT, "tld": TLD_DT, "titled+array": ARR_DT}


def _strax():
    import strax
    return strax


def build_chunks(layout, dtname, run_id="r0"):
    """layout: list of (start, end, rows[(s, e)]) contiguous"""
    strax = _strax()
    dt = DTYPES[dtname]
    out = []
    for start, end, rows in layout:
        data = np.zeros(len(rows), dtype=dt)
        for k, (s, e) in enumerate(rows):
            data[k]["time"] = s
            if "endtime" in data.dtype.names:
                data[k]["endtime"] = e
            else:
                data[k]["length"], data[k]["dt"] = e - s, 1
            if "w" in data.dtype.names:
                data[k]["w"] = [s, e, s + e + 0.5]
                data[k]["c"] = k
        out.append(strax.Chunk(data_type="things", data_kind="things", dtype=dt, run_id=run_id, start=start, end=end,
                               data=data, target_size_mb=1e-4))
    return out


def metadata(dtname, compressor, run_id="r0"):
    return dict(run_id=run_id, data_type="things", data_kind="things", dtype=DTYPES[dtname], lineage_hash="abc",
                compressor=compressor, lineage={"things": ("P", "0", {})}, chunk_target_size_mb=1e-4)


def random_layout(rng, max_chunks=4):
    layout, t = [], rng.choice((0, 7))
    for _ in range(rng.randint(1, max_chunks)):
        rows, start = [], t
        for _k in range(rng.choice((0, 0, 1, 2, 3))):
            s = t + rng.choice((0, 0, 1, 1500))
            e = s + rng.randint(1, 5)
            rows.append((s, e))
            t = s if rng.random() < 0.3 else e       # overlapping rows allowed within a chunk
        end = max([e for _, e in rows], default=start) + rng.choice((0, 0, 2))
        end = max(end, start + rng.choice((0, 1)))
        # rows must not start before the end of earlier chunks: keep t at the chunk end
        t = end
        layout.append((start, end, sorted(rows)))
    return layout


# ---- C03: round trip ------------------------------------------------------------------------------------
def _rt_native(i):
    strax = _strax()
    be = strax.FileSytemBackend()
    d = tempfile.mkdtemp(dir=_ROOT)
    dirname = os.path.join(d, "r0-things-abc")
    chunks = build_chunks(i["layout"], i["dtype"])
    ex = concurrent.futures.ThreadPoolExecutor(2) if i["threads"] else None
    try:
        saver = be.saver(dirname, metadata(i["dtype"], i["compressor"]))
        saver.save_from(iter(chunks), rechunk=i["rechunk"], executor=ex)
        md = be.get_metadata(dirname)
        loaded = list(be.loader(dirname, executor=None))
        files = sorted(os.path.basename(f) for f in glob.glob(dirname + "/*") if not f.endswith(".json"))
        sizes = {os.path.basename(f): os.path.getsize(f) for f in glob.glob(dirname + "/*") if not f.endswith(".json")}
        return dict(chunks=chunks, loaded=loaded, md=md, files=files, dirname=dirname, sizes=sizes)
    finally:
        if ex is not None:
            ex.shutdown(wait=True)
        shutil.rmtree(d, ignore_errors=True)


def _rt_ens(S, a, r):
    strax = _strax()
    chunks = [c._obj for c in r["chunks"]]
    loaded = [c._obj for c in r["loaded"]]
    md = r["md"]
    rows_in = np.concatenate([c.data for c in chunks])
    rows_out = np.concatenate([c.data for c in loaded]) if loaded else rows_in[:0]
    out = [("bit-identical rows in the same order", rows_in.dtype == rows_out.dtype and rows_in.tobytes() == rows_out.tobytes()),
           ("same overall range, contiguous chunk boundaries",
            bool(loaded) and loaded[0].start == chunks[0].start and loaded[-1].end == chunks[-1].end
            and all(loaded[k].end == loaded[k + 1].start for k in range(len(loaded) - 1)))]
    b_in = {c.start for c in chunks} | {chunks[-1].end}
    b_out = {c.start for c in loaded} | {loaded[-1].end} if loaded else set()
    if not a.rechunk:
        out.append(("without rechunking the chunk boundaries are the written ones", b_out == b_in))
    else:
        ok = True
        for t in b_out - b_in:
            ok &= not any(int(x["time"]) < t < int(e) for x, e in zip(rows_in, strax.endtime(rows_in)))
        out.append(("with rechunking new boundaries fall where no row is straddled", ok))
    # metadata consistency
    ok_md = md.get("writing_ended") is not None and "exception" not in md and md["start"] == chunks[0].start \
        and md["end"] == chunks[-1].end and md["run_id"] == "r0"
    per = True
    for info, c in zip(md["chunks"], loaded):
        per &= info["n"] == len(c) and info["start"] == c.start and info["end"] == c.end and info["run_id"] == c.run_id \
            and info["nbytes"] == c.data.nbytes
        if len(c):
            e = strax.endtime(c.data)
            per &= info["first_time"] == int(c.data[0]["time"]) and info["last_time"] == int(c.data[-1]["time"]) \
                and info["first_endtime"] == int(e[0]) and info["last_endtime"] == int(e[-1])
            per &= info.get("filename") in r["files"]
            # the recorded size of the chunk file, where recorded, is its size on disk
            # (strax records it only when saving serially; a thread pool saver records nbytes alone)
            per &= "filesize" not in info or info["filesize"] == r["sizes"].get(info.get("filename"))
            per &= a.threads or "filesize" in info
    out.append(("metadata: completion marker, no exception, overall start / end, run id", bool(ok_md)))
    out.append(("metadata: per-chunk row count, byte sizes (in memory and of the file on disk), start / end, first / last row times, one file per non-empty chunk",
                bool(per) and len(md["chunks"]) == len(loaded)
                and len(r["files"]) == sum(1 for c in loaded if len(c))))
    return out


def _rt_gen(rng, tier):
    comps = ("blosc", "zstd", "lz4", "bz2")
    fixed = [[(0, 0, [])], [(0, 5, [(0, 2), (1, 5)])], [(0, 3, [(0, 3)]), (3, 3, []), (3, 9, [(3, 4), (3, 9)])],
             [(0, 4, []), (4, 3000, [(4, 6), (2000, 2001)]), (3000, 3010, [(3005, 3010)])]]
    for lay in fixed:
        for dt in DTYPES:
            for comp in comps:
                for rech in (False, True):
                    yield dict(layout=lay, dtype=dt, compressor=comp, rechunk=rech, threads=False)
    for _ in range(60 if tier == "quick" else 6000):
        yield dict(layout=random_layout(rng), dtype=rng.choice(list(DTYPES)), compressor=rng.choice(comps),
                   rechunk=rng.random() < 0.5, threads=rng.random() < 0.4)


round_trip = Contract(
    FC, "Saver.save_from+StorageBackend.loader", params=dict(layout="V", dtype="V", compressor="V", rechunk="bool", threads="bool"),
    ensures=_rt_ens, raises={},
    harness=Harness(native=_rt_native, gen=_rt_gen,
                    scope="4 fixed layouts (empty, overlapping rows, zero-duration chunk, large gaps) x 3 dtypes (endtime, dt*length, titled + "
                          "array-valued) x 4 compressors x rechunk on/off, + random layouts of 1..4 chunks, serial / thread-pool saving, on the "
                          "real FileSytemBackend",
                    nontrivial=lambda i: sum(len(r) for _, _, r in i["layout"]) > 0))


# ---- C04: fault enumeration -------------------------------------------------------------------------------
class _Fault(OSError):
    pass


class FaultyFS:
    """Counts file-system operations issued by strax (open-for-write / rename / makedirs / rmtree) and fails the
    n-th one, before or after performing it."""

    def __init__(self, fail_at, when):
        self.fail_at, self.when, self.count = fail_at, when, 0
        self.failed_op = None
        self.real = dict(open=builtins.open, rename=os.rename, makedirs=os.makedirs, rmtree=shutil.rmtree)

    def _op(self, name, *a, **k):
        self.count += 1
        me = self.count
        if me == self.fail_at:
            self.failed_op = name + ("-parent" if name == "makedirs" and k.get("exist_ok") else "")
        if me == self.fail_at and self.when == "before":
            raise _Fault(f"injected fault before {name} #{me}")
        res = self.real[name](*a, **k)
        if me == self.fail_at and self.when == "after":
            raise _Fault(f"injected fault after {name} #{me}")
        return res

    def __enter__(self):
        real_open = self.real["open"]

        def fopen(file, mode="r", *a, **k):
            if any(m in mode for m in "wax") and str(file).startswith(_ROOT):
                return self._op("open", file, mode, *a, **k)
            return real_open(file, mode, *a, **k)
        builtins.open = fopen
        os.rename = lambda *a, **k: self._op("rename", *a, **k)
        os.makedirs = lambda *a, **k: self._op("makedirs", *a, **k)
        shutil.rmtree = lambda *a, **k: self._op("rmtree", *a, **k) if str(a[0]).startswith(_ROOT + os.sep) and "storage" in str(a[0]) else self.real["rmtree"](*a, **k)
        return self

    def __exit__(self, *exc):
        builtins.open = self.real["open"]
        os.rename, os.makedirs, shutil.rmtree = self.real["rename"], self.real["makedirs"], self.real["rmtree"]


def _plugins():
    strax = _strax()

    class Src(strax.Plugin):
        provides = "things"
        depends_on = ()
        dtype = strax.time_fields + [(("value", "v"), np.int64)]
        data_kind = "things"
        rechunk_on_save = False

        def source_finished(self):
            return True

        def is_ready(self, chunk_i):
            return chunk_i < 3

        def compute(self, chunk_i):
            r = np.zeros(2, self.dtype)
            r["time"] = [chunk_i * 10, chunk_i * 10 + 1]
            r["endtime"] = r["time"] + 1
            r["v"] = chunk_i
            return self.chunk(start=chunk_i * 10, end=(chunk_i + 1) * 10, data=r)

    class Der(strax.Plugin):
        provides = "derived"
        depends_on = ("things",)
        dtype = strax.time_fields + [(("value", "v"), np.int64)]
        data_kind = "things"
        rechunk_on_save = False

        def compute(self, things):
            r = np.zeros(len(things), self.dtype)
            r["time"], r["endtime"], r["v"] = things["time"], things["endtime"], things["v"] * 2
            return r
    return [Src, Der]


def _fault_native(i):
    strax = _strax()
    import logging
    base = tempfile.mkdtemp(dir=_ROOT)
    store = os.path.join(base, "storage")
    os.makedirs(store)

    def ctx():
        st = strax.Context(storage=[strax.DataDirectory(store)], register=_plugins(),
                           allow_multiprocess=False, max_workers=2 if i["threads"] else 1,
                           allow_lazy=False, timeout=20)
        st.log.setLevel(logging.CRITICAL)
        return st
    st = ctx()
    err = None
    try:
        with FaultyFS(i["fail_at"], i["when"]) as fs:
            try:
                st.make("0", "derived", progress_bar=False, processor=i["processor"])
            except BaseException as ex:  # noqa
                err = type(ex).__name__
            n_ops = fs.count
            failed_op = fs.failed_op
        # what is visible afterwards, from a fresh context
        st2 = ctx()
        visible = {}
        for d in ("things", "derived"):
            if st2.is_stored("0", d):
                try:
                    visible[d] = st2.get_array("0", d, progress_bar=False)["v"].tolist()
                except BaseException as ex:  # noqa
                    visible[d] = f"LOAD FAILED {type(ex).__name__}"
        # retry without faults
        retry_err = None
        try:
            st3 = ctx()
            st3.make("0", "derived", progress_bar=False, processor=i["processor"])
            after = st3.get_array("0", "derived", progress_bar=False)["v"].tolist()
        except BaseException as ex:  # noqa
            retry_err, after = type(ex).__name__, None
        return dict(error=err, n_ops=n_ops, failed_op=failed_op, fault_hit=n_ops >= i["fail_at"], visible=visible, retry_error=retry_err, after_retry=after)
    finally:
        shutil.rmtree(base, ignore_errors=True)


WANT = {"things": [0, 0, 1, 1, 2, 2], "derived": [0, 0, 2, 2, 4, 4]}


def _fault_ens(S, a, r):
    out = [("everything reported as stored loads completely and is correct",
            all(r["visible"][d] == WANT[d] for d in r["visible"]))]
    if r["fault_hit"]:
        # (a frontend that cannot even create its directory declares itself unable to save an intermediate type and strax
        #  carries on without saving it - by design; what the caller asked to be made must exist if no error is reported)
        out.append(("a request that hit an I/O fault either raises or has really made and stored its target", r["error"] is not None
                    or r["visible"].get("derived") == WANT["derived"]))
    out.append(("a later identical request recomputes and stores the correct data without manual cleanup",
                r["retry_error"] is None and r["after_retry"] == WANT["derived"]))
    return out


def _fault_gen(rng, tier):
    combos = [("single_thread", False), ("threaded_mailbox", False), ("threaded_mailbox", True)]
    if tier == "quick":
        combos = combos[:1] + combos[2:]
    for proc, threads in combos:
        for fail_at in range(1, 26):
            for when in ("before", "after"):
                yield dict(processor=proc, threads=threads, fail_at=fail_at, when=when)


fault_enumeration = Contract(
    FC, "FileSaver / Saver.save_from under I/O faults", params=dict(processor="V", threads="bool", fail_at="int", when="V"),
    ensures=_fault_ens, raises={},
    harness=Harness(native=_fault_native, gen=_fault_gen,
                    scope="a two-plugin graph (3 chunks), every one of the first 25 file-system operations (open-for-write, rename, makedirs, "
                          "rmtree) failing before or after it is performed, single-thread and threaded processor, serial and thread-pool saving; "
                          "then a fresh context checks what is visible and a retry runs without faults",
                    nontrivial=lambda i: True))


def _f20_region(inputs, outcome):
    """Known finding F20: an OSError from creating the storage parent directory is turned into DataNotAvailable
    ('this frontend cannot save') and the saver is skipped silently; if it was the target's saver, make() returns
    normally although nothing was stored."""
    if not outcome.failed or any("either raises or has really made" not in f for f in outcome.failed):
        return False
    res = outcome.result
    return isinstance(res, dict) and res.get("failed_op") == "makedirs-parent" and res.get("error") is None


fault_enumeration.known_regions["F20"] = _f20_region


# ---- C03 / C16: chunks larger than any internal codec buffer ---------------------------------------------------------
def _big_native(i):
    strax = _strax()
    be = strax.FileSytemBackend()
    d = tempfile.mkdtemp(dir=_ROOT)
    dirname = os.path.join(d, "r0-things-abc")
    n = i["rows"]
    data = np.zeros(n, dtype=INTERVAL_DT)
    data["time"] = np.arange(n) * 10
    data["endtime"] = data["time"] + 3
    for name in data.dtype.names:
        if name not in ("time", "endtime"):
            data[name] = (np.arange(n) * 7919) % 100003            # hard to compress: the compressed chunk is large too
    chunk = strax.Chunk(start=0, end=int(n * 10), data=data, data_type="things", data_kind="things", dtype=data.dtype, run_id="r0",
                        target_size_mb=500)
    try:
        md = metadata("intervals", i["compressor"])
        md["chunk_target_size_mb"] = 500
        saver = be.saver(dirname, md)
        saver.save_from(iter([chunk]), rechunk=False)
        loaded = list(be.loader(dirname, executor=None))
        out = np.concatenate([c.data for c in loaded])
        return dict(same=(out.dtype == data.dtype and out.tobytes() == data.tobytes()), n_out=int(len(out)), nbytes=int(data.nbytes))
    except Exception as ex:  # noqa
        return dict(same=False, n_out=-1, nbytes=int(data.nbytes), error=f"{type(ex).__name__}: {str(ex)[:120]}")
    finally:
        shutil.rmtree(d, ignore_errors=True)


big_round_trip = Contract(
    FC, "Saver.save_from+StorageBackend.loader (large chunk)", params=dict(rows="int", compressor="V"),
    ensures=lambda S, a, r: [("a multi-megabyte chunk loads bit-identically (" + str(r.get("error", "")) + ")", r["same"] and r["n_out"] == a.rows)],
    raises={},
    harness=Harness(native=_big_native,
                    gen=lambda rng, tier: (dict(rows=n, compressor=c) for c in ("blosc", "zstd", "lz4", "bz2")
                                           for n in ((150_000,) if tier == "quick" else (150_000, 3_000_000))),
                    scope="one chunk of 150 000 rows (about 3.6 MB; thorough: also 3 000 000 rows, about 72 MB, beyond the 64 MB decompression "
                          "buffer) x 4 compressors through the real FileSytemBackend",
                    nontrivial=lambda i: True))
