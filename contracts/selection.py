"""Contracts for time-range selection (C10): StorageBackend.apply_time_range, utils.apply_selection, and the lemmas
that make selection commute with chunking."""

import z3

from pyvc.contract import Contract, REG
from pyvc.engine import TupleT, PNONE
from pyvc.runner import Lemma
from contracts.chunk import CHUNK, INTERVALS, chunk_wf, sorted_by_time, positive_duration

FC = "strax/storage/common.py"
FU = "strax/utils.py"


def fully_contained(S, x, i, lo, hi):
    return S.And(lo <= x.f("time", i), x.f("endtime", i) <= hi)


def touching(S, x, i, lo, hi):
    return S.And(x.f("endtime", i) > lo, x.f("time", i) < hi)


def never_selected(S, x, i, lo, hi):
    """row i is selected by neither time-selection mode"""
    return S.And(S.Not(fully_contained(S, x, i, lo, hi)), S.Not(touching(S, x, i, lo, hi)))


# --------------------------------------------------------------------------------------
# apply_time_range
# --------------------------------------------------------------------------------------
def _atr_ens(S, a, r):
    c, d = a.chunk, a.chunk.data
    lo, hi = a.time_range
    return [
        ("the rows kept are a contiguous run of the chunk's rows, unchanged",
         S.exists(0, d.n + 1, lambda i0: S.And(
             i0 + r.data.n <= d.n,
             S.forall(0, r.data.n, lambda j: S.And(r.data.f("time", j) == d.f("time", i0 + j),
                                                   r.data.f("endtime", j) == d.f("endtime", i0 + j))),
             S.forall(0, i0, lambda j: never_selected(S, d, j, lo, hi)),
             S.forall(i0 + r.data.n, d.n, lambda j: never_selected(S, d, j, lo, hi))))),
        ("the returned chunk lies inside the original one", S.And(c.start <= r.start, r.end <= c.end)),
    ]


apply_time_range = REG.add(Contract(
    FC, "StorageBackend.apply_time_range",
    params=dict(chunk=CHUNK, time_range=TupleT("int", "int")),
    requires=lambda S, a: chunk_wf(S, a.chunk) + [("range is ordered", a.time_range[0] <= a.time_range[1])],
    ensures=_atr_ens,
    raises={"ValueError:runs": lambda S, a: S.true},
    static=True,
))


# --------------------------------------------------------------------------------------
# apply_selection (time clauses)
# --------------------------------------------------------------------------------------
def _as_requires(S, a):
    return [("no row selection and no column projection in this contract (bounded stand-in covers them)",
             S.And(S.Not(S.truthy(a.selection)), S.Not(S.truthy(a.keep_columns)), S.Not(S.truthy(a.drop_columns))))]


def _as_ens_range(S, a, r):
    lo, hi = a.time_range
    mode = a.time_selection
    if S.same_array(r, a.x):
        return [("the input is returned untouched only in 'skip' mode", S.And(S.eq_str(mode, "skip"), S.is_slice(r, a.x, 0, a.x.n)))]
    return [("fully_contained keeps exactly the rows with lo <= time and endtime <= hi; touching exactly those with endtime > lo and time < hi",
             S.If(S.eq_str(mode, "fully_contained"),
                  S.is_filter(r, a.x, lambda i: fully_contained(S, a.x, i, lo, hi)),
                  S.And(S.eq_str(mode, "touching"), S.is_filter(r, a.x, lambda i: touching(S, a.x, i, lo, hi)))))]


_AS_PARAMS = dict(x=INTERVALS, selection="V", keep_columns="V", drop_columns="V", time_selection="V")

apply_selection_range = REG.add(Contract(
    FU, "apply_selection", variant="time_range=(lo,hi)",
    params=dict(_AS_PARAMS, time_range=TupleT("int", "int")),
    requires=_as_requires, ensures=_as_ens_range,
    expected_dead=[("raise ValueError", "You cannot specify both keep_columns and drop_columns")],
    raises={"ValueError": lambda S, a: S.Not(S.Or(S.eq_str(a.time_selection, "skip"), S.eq_str(a.time_selection, "fully_contained"),
                                                  S.eq_str(a.time_selection, "touching")))},
))

apply_selection_none = REG.add(Contract(
    FU, "apply_selection", variant="time_range=None",
    params=dict(_AS_PARAMS, time_range=lambda eng, name, st: (PNONE, st)),
    requires=_as_requires,
    ensures=lambda S, a, r: [("without a time range every row is kept", S.is_slice(r, a.x, 0, a.x.n))],
    raises={},
))


# --------------------------------------------------------------------------------------
# commuting lemmas (over the data-model predicates and the contracts above)
# --------------------------------------------------------------------------------------
class _Rows:
    """A symbolic interval array for lemma statements."""

    def __init__(self, name):
        self.n = z3.Int(name + "_n")
        self._t = z3.Array(name + "_time", z3.IntSort(), z3.IntSort())
        self._e = z3.Array(name + "_end", z3.IntSort(), z3.IntSort())

    def f(self, field, i):
        return z3.Select(self._t if field == "time" else self._e, i)


def _pruned_lemma(S):
    """A chunk the loader skips (end <= lo or hi <= start) holds no row that either mode would select."""
    x = _Rows("lx")
    start, end, lo, hi = z3.Ints("l_start l_end l_lo l_hi")
    inside = S.forall(0, x.n, lambda i: S.And(start <= x.f("time", i), x.f("endtime", i) <= end))
    hyps = [x.n >= 0, inside, positive_duration(S, x), S.Or(end <= lo, hi <= start)]
    return [("no row of a skipped chunk is selected", hyps, S.forall(0, x.n, lambda i: never_selected(S, x, i, lo, hi)))]


PRUNED = Lemma("loader pruning drops no selected row", _pruned_lemma,
               doc="with apply_time_range's postcondition: select(range, rows kept) = select(range, all rows)")


# --------------------------------------------------------------------------------------
# StorageBackend.loader: which stored chunks are read for a time range
# --------------------------------------------------------------------------------------
from pyvc.engine import Opq, St, V  # noqa: E402
from pyvc.library import Abstract  # noqa: E402
from pyvc.contract import Loop  # noqa: E402


def _ci(S, info, key):
    return S.to_int(S.getitem(info, key))


def _overlaps(S, info, lo, hi):
    """the stored chunk [start, end) overlaps the requested range [lo, hi)"""
    return S.And(_ci(S, info, "end") > lo, _ci(S, info, "start") < hi)


def _read_hook(eng, args, kw, st, fr, k, node):
    """self._read_format_split_chunk(...): record (ghost) that chunk number i is read."""
    i = eng.to_int(st.env["i"])
    g = dict(st.ghost)
    g["was_read"] = z3.Store(g["was_read"], i, True)
    return k(Opq(eng.fresh("chunks_of", "V")), St(st.env, st.heap, st.pc, g))


CHUNK_META = z3.Const("stored_chunk_meta", V)


def _iter_chunk_meta(eng, args, kw, st, fr, k, node):
    """strax.iter_chunk_meta(metadata): the stored chunk descriptions, in order (a named opaque sequence)"""
    return k(Opq(CHUNK_META), st)


def _selected(S, a, j):
    lo, hi = a.time_range
    return _overlaps(S, S.iter_elem(CHUNK_META, j), lo, hi)


def _ld_inv(S, a):
    k = a.k_
    return [("a stored chunk has been read exactly if it overlaps the requested range",
             S.forall(0, k, lambda j: S.Iff(z3.Select(a.ghost.was_read, j), _selected(S, a, j)))),
            ("chunks not yet visited have not been read",
             S.forall(k, S.iter_len(CHUNK_META), lambda j: S.Not(z3.Select(a.ghost.was_read, j))))]


def _ld_setup(eng, st):
    g = dict(st.ghost)
    g["was_read"] = z3.K(z3.IntSort(), False)
    return St(st.env, st.heap, st.pc, g)


loader_range = REG.add(Contract(
    FC, "StorageBackend.loader", variant="time_range=(lo,hi), all chunk numbers",
    params=dict(self="V", backend_key="V", time_range=TupleT("int", "int"), chunk_number=lambda eng, name, st: (PNONE, st),
                rechunk="V", source_size_mb="V", executor="V"),
    ensures=lambda S, a, r: [
        ("exactly the stored chunks overlapping the requested range are read (end > lo and start < hi), each once",
         S.forall(0, S.iter_len(CHUNK_META), lambda j: S.Iff(z3.Select(a.ghost.was_read, j), _selected(S, a, j))))],
    raises={"DataNotAvailable": lambda S, a: S.true, "ValueError": lambda S, a: S.true},
    setup=_ld_setup, generator=True,
    loops={1: Loop(_ld_inv)},
    calls={"self.get_metadata": Abstract(pure=True), "version.parse": Abstract(pure=True), "literal_eval": Abstract(pure=True),
           "strax.iter_chunk_meta": _iter_chunk_meta, "self._read_format_split_chunk": _read_hook},
))
