"""Contracts for the run bookkeeping of superrun chunks (C14): strax/chunk.py
_pop_out_empty_run_id, _split_runs_in_chunk, _sorted_subruns_check."""

import z3

from pyvc.contract import Contract, Loop, REG
from pyvc.engine import ListT, Opq, PNONE, V, St, Ref
from pyvc.dicts import DictT, DictV
from pyvc.library import Abstract, METHODS

F = "strax/chunk.py"
RUNS = DictT({"start": "int", "end": "int"})


# --------------------------------------------------------------------------------------
# _pop_out_empty_run_id(subruns): removes exactly the runs of zero duration
# --------------------------------------------------------------------------------------
def _append_removed(eng, args, kw, st, fr, k, node):
    """keys_to_remove.append(key): the real append, plus the ghost inverse map W (key -> its index in the list)"""
    ref = st.env["keys_to_remove"]
    n = st.heap[ref.base]["n"]
    key = eng.to_v(args[0])
    g = dict(st.ghost)
    g["W"] = z3.Store(g["W"], key, n)
    st = St(st.env, st.heap, st.pc, g)
    return METHODS[("list", "append")](eng, ref, args, kw, st, fr, k, node)


def _empty(S, d, r):
    return S.field(d, r, "start") == S.field(d, r, "end")


def _pop_l1(S, a):
    sub, ktr, W = a.subruns, a.keys_to_remove, a.ghost.W
    return [
        ("the list length is sane", ktr.n >= 0),
        ("every listed key is a visited run of zero duration, and W is its index",
         S.forall(0, ktr.n, lambda j: S.And(S.has(sub, ktr.at(j)), S.pos(sub, ktr.at(j)) < a.k_, _empty(S, sub, ktr.at(j)),
                                            z3.Select(W, ktr.at(j)) == j))),
        ("the listed keys are in visiting order (hence pairwise distinct)",
         S.forall2(0, ktr.n, 0, ktr.n, lambda i, j: S.Implies(i < j, S.pos(sub, ktr.at(i)) < S.pos(sub, ktr.at(j))))),
        ("every visited run of zero duration is listed",
         S.forall_key(lambda r: S.Implies(S.And(S.has(sub, r), S.pos(sub, r) < a.k_, _empty(S, sub, r)),
                                          S.And(0 <= z3.Select(W, r), z3.Select(W, r) < ktr.n, ktr.at(z3.Select(W, r)) == r)), sub)),
    ]


def _pop_l2(S, a):
    sub, sub0, ktr, W = a.subruns, a.old.subruns, a.keys_to_remove, a.ghost.W
    return [
        ("exactly the first k_ listed keys have been removed",
         S.forall_key(lambda r: S.Iff(S.has(sub, r), S.And(S.has(sub0, r), S.Not(S.And(_empty(S, sub0, r), z3.Select(W, r) < a.k_)))),
                      sub, sub0)),
        ("the records are untouched",
         S.forall_key(lambda r: S.And(S.field(sub, r, "start") == S.field(sub0, r, "start"),
                                      S.field(sub, r, "end") == S.field(sub0, r, "end")), sub, sub0)),
    ]


def _pop_ens(S, a, r):
    sub, sub0 = a.subruns, a.old.subruns
    return [("exactly the runs of zero duration are removed",
             S.forall_key(lambda x: S.Iff(S.has(sub, x), S.And(S.has(sub0, x), S.Not(_empty(S, sub0, x)))), sub, sub0)),
            ("the remaining runs keep their start and end",
             S.forall_key(lambda x: S.Implies(S.has(sub, x), S.And(S.field(sub, x, "start") == S.field(sub0, x, "start"),
                                                                 S.field(sub, x, "end") == S.field(sub0, x, "end"))), sub, sub0))]


pop_out_empty = REG.add(Contract(
    F, "_pop_out_empty_run_id",
    params=dict(subruns=RUNS),
    ensures=_pop_ens, raises={}, modifies=["subruns"],
    loops={1: Loop(_pop_l1), 2: Loop(_pop_l2)},
    local_sorts={"keys_to_remove": ListT("V")},
    ghost={"W": z3.K(V, z3.IntVal(-1))},
    loop_ghost={1: ["W"], 2: []},
    calls={"keys_to_remove.append": _append_removed},
    call_names=("_pop_out_empty_run_id",),
))


# --------------------------------------------------------------------------------------
# _split_runs_in_chunk(subruns, t): every run is cut at t
# --------------------------------------------------------------------------------------
def _in_first(S, sub, r, t):
    """run r contributes to the first half: it starts before t"""
    return S.And(S.has(sub, r), S.field(sub, r, "start") < t)


def _in_second(S, sub, r, t):
    """run r contributes to the second half: it starts at/after t, or t lies strictly inside it"""
    return S.And(S.has(sub, r), S.Or(t <= S.field(sub, r, "start"), t < S.field(sub, r, "end")))


def _first_end(S, sub, r, t):
    return S.If(t < S.field(sub, r, "end"), t, S.field(sub, r, "end"))


def _second_start(S, sub, r, t):
    return S.If(t <= S.field(sub, r, "start"), S.field(sub, r, "start"), t)


def _split_l1(S, a):
    sub, f, s, t = a.subruns, a.runs_first_chunk, a.runs_second_chunk, a.t
    seen = lambda r: S.pos(sub, r) < a.k_
    return [
        ("first half: exactly the visited runs that start before t",
         S.forall_key(lambda r: S.Iff(S.has(f, r), S.And(_in_first(S, sub, r, t), seen(r))), sub, f)),
        ("first half: from the run's start to min(end, t)",
         S.forall_key(lambda r: S.Implies(S.has(f, r), S.And(S.field(f, r, "start") == S.field(sub, r, "start"),
                                                             S.field(f, r, "end") == _first_end(S, sub, r, t))), sub, f)),
        ("second half: exactly the visited runs that do not end by t",
         S.forall_key(lambda r: S.Iff(S.has(s, r), S.And(_in_second(S, sub, r, t), seen(r))), sub, s)),
        ("second half: from max(start, t) to the run's end",
         S.forall_key(lambda r: S.Implies(S.has(s, r), S.And(S.field(s, r, "start") == _second_start(S, sub, r, t),
                                                             S.field(s, r, "end") == S.field(sub, r, "end"))), sub, s)),
    ]


def _half(S, d, r):
    """membership in a result half that is either None or a dict"""
    return S.false if (d is PNONE or d is None) else S.has(d, r)


def _split_ens(S, a, r):
    sub, t = a.old.subruns, a.t
    first, second = r
    nonempty1 = lambda x: S.field(sub, x, "start") != _first_end(S, sub, x, t)
    nonempty2 = lambda x: _second_start(S, sub, x, t) != S.field(sub, x, "end")
    out = [
        ("the first half lists exactly the runs that start before t, except pieces of zero duration",
         S.forall_key(lambda x: S.Iff(_half(S, first, x), S.And(_in_first(S, sub, x, t), nonempty1(x))), sub, first)),
        ("the second half lists exactly the runs that reach beyond t (or start at/after it), except pieces of zero duration",
         S.forall_key(lambda x: S.Iff(_half(S, second, x), S.And(_in_second(S, sub, x, t), nonempty2(x))), sub, second)),
    ]
    if not (first is PNONE or first is None):
        out.append(("first-half pieces run from the run's start to min(end, t)",
                    S.forall_key(lambda x: S.Implies(S.has(first, x), S.And(
                        S.field(first, x, "start") == S.field(sub, x, "start"),
                        S.field(first, x, "end") == _first_end(S, sub, x, t))), sub, first)))
        out.append(("a half without runs is None, not an empty dict", S.Not(S.forall_key(lambda x: S.Not(S.has(first, x)), first))))
    if not (second is PNONE or second is None):
        out.append(("second-half pieces run from max(start, t) to the run's end",
                    S.forall_key(lambda x: S.Implies(S.has(second, x), S.And(
                        S.field(second, x, "start") == _second_start(S, sub, x, t),
                        S.field(second, x, "end") == S.field(sub, x, "end"))), sub, second)))
        out.append(("a half without runs is None, not an empty dict", S.Not(S.forall_key(lambda x: S.Not(S.has(second, x)), second))))
    return out


split_runs = REG.add(Contract(
    F, "_split_runs_in_chunk",
    params=dict(subruns=RUNS, t="int"),
    ensures=_split_ens, raises={},
    loops={1: Loop(_split_l1)},
    local_sorts={"runs_first_chunk": RUNS, "runs_second_chunk": RUNS},
))

split_runs_none = REG.add(Contract(
    F, "_split_runs_in_chunk", variant="no run information",
    params=dict(subruns="V", t="int"),
    requires=lambda S, a: [("no run information", S.is_none(a.subruns))],
    ensures=lambda S, a, r: [("both halves carry no run information", S.And(r[0] is PNONE, r[1] is PNONE))],
    raises={},
))


# --------------------------------------------------------------------------------------
# _sorted_subruns_check(subruns): consecutive runs (in the dict's order) do not overlap
# --------------------------------------------------------------------------------------
def _overlap_at(S, d, i):
    return S.field(d, d.key(i), "end") > S.field(d, d.key(i + 1), "start")


sorted_check = REG.add(Contract(
    F, "_sorted_subruns_check",
    params=dict(subruns=RUNS),
    ensures=lambda S, a, r: [("accepted run lists are non-overlapping in their listed order",
                              S.forall(0, a.subruns.n - 1, lambda i: S.Not(_overlap_at(S, a.subruns, i))))],
    raises={"ValueError": lambda S, a: S.exists(0, a.subruns.n - 1, lambda i: _overlap_at(S, a.subruns, i))},
    loops={1: Loop(lambda S, a: [("no overlap among the pairs checked so far",
                                  S.forall(0, a.k_, lambda i: S.Not(_overlap_at(S, a.subruns, i))))])},
))


# --------------------------------------------------------------------------------------
# _merge_subruns_in_chunk / _merge_superrun_in_chunk: every chunk's annotation enters the merge
# --------------------------------------------------------------------------------------
def _merge_runs_hook(which):
    def h(eng, args, kw, st, fr, k, node):
        """_merge_runs_in_chunk(c.<which>, acc): records which annotation was merged into which accumulator"""
        g = dict(st.ghost)
        g["merged_arg"] = eng.to_v(args[0])
        g["n_merged"] = g["n_merged"] + 1
        env = dict(st.env)
        env[which] = Opq(eng.fresh(which + "_acc", "V"))      # the accumulator dict is updated in place by the callee
        return k(PNONE, St(env, st.heap, st.pc, g))
    return h


def _merge_contract(qualname, which):
    return REG.add(Contract(
        F, qualname,
        params=dict(chunks="V", merge="bool"),
        ensures=lambda S, a, r: [("every chunk of the list contributed its annotation", a.ghost.n_merged == S.iter_len(a.chunks))],
        raises={"ValueError": lambda S, a: S.true},
        ghost={"merged_arg": z3.Const("nothing_merged_yet", V), "n_merged": z3.IntVal(0)},
        calls={"_merge_runs_in_chunk": _merge_runs_hook(which), "_mergable_check": Abstract(sort=None, may_raise=["ValueError"])},
        loops={1: Loop(lambda S, a: [("one merge per chunk seen so far", a.ghost.n_merged == a.k_)],
                       body_ensures=lambda S, a: [
                           ("the annotation of EVERY chunk (also one without rows) is merged",
                            S.eq(a.ghost.merged_arg, S.attr(a.c, which)))])},
        local_sorts={which: "V"},
    ))


merge_subruns = _merge_contract("_merge_subruns_in_chunk", "subruns")
merge_superrun = _merge_contract("_merge_superrun_in_chunk", "superrun")


# --------------------------------------------------------------------------------------
# Plugin.superrun_transformation: which annotation the result of a compute call gets
# --------------------------------------------------------------------------------------
def _upd(which):
    def h(eng, args, kw, st, fr, k, node):
        g = dict(st.ghost)
        g[which + "_of"] = eng.to_v(args[-2])
        g[which + "_to"] = eng.to_v(args[-1])
        g[which + "_set"] = z3.BoolVal(True)
        return k(PNONE, St(st.env, st.heap, st.pc, g))
    return h


def _srt_ens(S, a, r):
    g = a.ghost
    combining_level = S.And(S.truthy(S.attr(a.self, "is_superrun")), S.Not(S.contains(a.superrun, S.attr(a.self, "_run_id"))))
    return [
        ("a superrun plugin fed with chunks of ordinary subruns records those subruns (the inputs' run spans) as the result's subruns",
         S.Implies(combining_level, S.And(g.subruns_set, S.eq(g.subruns_to, a.superrun), S.eq(g.subruns_of, a.result), S.Not(g.superrun_set)))),
        ("otherwise the inputs' subruns and superrun annotations are inherited unchanged",
         S.Implies(S.Not(combining_level), S.And(g.subruns_set, S.eq(g.subruns_to, a.subruns), g.superrun_set, S.eq(g.superrun_to, a.superrun),
                                                S.eq(g.subruns_of, a.result), S.eq(g.superrun_of, a.result)))),
        ("the result itself is handed back", S.eq(r, a.result))]


_NOTHING = z3.Const("nothing_set", V)
superrun_transformation = REG.add(Contract(
    "strax/plugins/plugin.py", "Plugin.superrun_transformation",
    params=dict(self="V", result="V", superrun="V", subruns="V"),
    ensures=_srt_ens, raises={"ValueError": lambda S, a: S.true},
    ghost={"subruns_of": _NOTHING, "subruns_to": _NOTHING, "subruns_set": z3.BoolVal(False),
           "superrun_of": _NOTHING, "superrun_to": _NOTHING, "superrun_set": z3.BoolVal(False)},
    calls={"self._update_subruns": _upd("subruns"), "self._update_superrun": _upd("superrun")},
))


# --------------------------------------------------------------------------------------
# define_run: the subruns are ordered by their start times
# --------------------------------------------------------------------------------------
def _argsort_hook(eng, args, kw, st, fr, k, node):
    eng.oblige("order", "the subruns of a superrun are ordered by their START times (stable_argsort of the collected starts)", st,
               eng.equal(args[0], st.env["starts"]) if "starts" in st.env else z3.BoolVal(False), node)
    g = dict(st.ghost)
    g["sorted_by_start"] = z3.BoolVal(True)
    return k(Opq(eng.fresh("sort_index", "V")), St(st.env, st.heap, st.pc, g))


def _sf_define_run(eng, args, kw, st, fr, k, node):
    """sf.define_run(name, sub_run_spec=data, **run_md): what is written is the re-ordered spec"""
    eng.oblige("order", "the run definition that is stored was put in start order first", st, st.ghost["sorted_by_start"], node)
    g = dict(st.ghost)
    g["defined"] = z3.BoolVal(True)
    return k(PNONE, St(st.env, st.heap, st.pc, g))


def _run_md_store(eng, st, key, value, node):
    """run_md[key] = value inside define_run: the running start / end of the superrun"""
    from pyvc.engine import strv
    gi = z3.Function("getitem", V, V, V)
    if isinstance(key, str) and key in ("start", "end") and "run_doc_" + key in st.env:
        f = z3.Function("fn:min" if key == "start" else "fn:max", V, V, V)
        want = f(gi(eng.to_v(st.env["run_md"]), strv(key)), eng.to_v(st.env["run_doc_" + key]))
        eng.oblige("span", "the superrun starts at the earliest start and ends at the latest end of its subruns (running "
                           f"{'minimum' if key == 'start' else 'maximum'} of the {key} so far and this subrun's {key})", st,
                   eng.to_v(value) == want, node)
    return st


define_run = REG.add(Contract(
    "strax/run_selection.py", "define_run",
    params=dict(self="V", name="V", data="V", from_run="V"),
    requires=lambda S, a: [("a dict {run id: 'all' | time ranges} (lists of run ids are turned into one by the recursive call)",
                            S.And(S.Not(S.is_instance(a.data, "pd.DataFrame+np.ndarray")), S.Not(S.is_instance(a.data, "list+tuple")),
                                  S.is_instance(a.data, "dict")))],
    ensures=lambda S, a, r: [("the superrun was stored with its subruns in start order", S.And(a.ghost.defined, a.ghost.sorted_by_start))],
    raises={"RuntimeError": lambda S, a: S.true},
    ghost={"sorted_by_start": z3.BoolVal(False), "defined": z3.BoolVal(False)},
    calls={"stable_argsort": _argsort_hook, "sf.define_run": _sf_define_run, "self.define_run": Abstract(),
           "self.run_metadata": Abstract(), "warnings.warn": Abstract(sort=None), "strax.to_str_tuple": Abstract(pure=True),
           "datetime.datetime.max.replace": Abstract(), "datetime.datetime.min.replace": Abstract(),
           ".setdefault": Abstract(sort=None), ".replace": Abstract(), ".total_seconds": Abstract(sort="int"),
           "min": Abstract(pure=True), "max": Abstract(pure=True)},
    store_hooks={"run_md": _run_md_store},
    expected_dead=[("return", 'return self.define_run(name, {run_id: "all" for run_id in data})')],
    loops={1: Loop(lambda S, a: []), 2: Loop(lambda S, a: [])},
    loop_ghost={1: [], 2: ["defined"]},
    local_sorts={"keys": "V", "starts": "V", "run_md": "V", "tags": "V", "modes": "V", "sources": "V", "comments": "V"},
))
