"""Contracts for the run bookkeeping of superrun chunks (C14): strax/chunk.py
_pop_out_empty_run_id, _split_runs_in_chunk, _sorted_subruns_check."""

import z3

from pyvc.contract import Contract, Loop, REG
from pyvc.engine import ListT, Opq, PNONE, V, St, Ref
from pyvc.dicts import DictT, DictV
from pyvc.library import Abstract, METHODS

F = "strax/chunk.py"
RUNS = DictT({"start": "int", "end": "int"})


# --------------------------------------------------------------------------------------
# _pop_out_empty_run_id(subruns): removes exactly the runs of zero duration
# --------------------------------------------------------------------------------------
def _append_removed(eng, args, kw, st, fr, k, node):
    """keys_to_remove.append(key): the real append, plus the ghost inverse map W (key -> its index in the list)"""
    ref = st.env["keys_to_remove"]
    n = st.heap[ref.base]["n"]
    key = eng.to_v(args[0])
    g = dict(st.ghost)
    g["W"] = z3.Store(g["W"], key, n)
    st = St(st.env, st.heap, st.pc, g)
    return METHODS[("list", "append")](eng, ref, args, kw, st, fr, k, node)


def _empty(S, d, r):
    return S.field(d, r, "start") == S.field(d, r, "end")


def _pop_l1(S, a):
    sub, ktr, W = a.subruns, a.keys_to_remove, a.ghost.W
    return [
        ("the list length is sane", ktr.n >= 0),
        ("every listed key is a visited run of zero duration, and W is its index",
         S.forall(0, ktr.n, lambda j: S.And(S.has(sub, ktr.at(j)), S.pos(sub, ktr.at(j)) < a.k_, _empty(S, sub, ktr.at(j)),
                                            z3.Select(W, ktr.at(j)) == j))),
        ("the listed keys are in visiting order (hence pairwise distinct)",
         S.forall2(0, ktr.n, 0, ktr.n, lambda i, j: S.Implies(i < j, S.pos(sub, ktr.at(i)) < S.pos(sub, ktr.at(j))))),
        ("every visited run of zero duration is listed",
         S.forall_key(lambda r: S.Implies(S.And(S.has(sub, r), S.pos(sub, r) < a.k_, _empty(S, sub, r)),
                                          S.And(0 <= z3.Select(W, r), z3.Select(W, r) < ktr.n, ktr.at(z3.Select(W, r)) == r)), sub)),
    ]


def _pop_l2(S, a):
    sub, sub0, ktr, W = a.subruns, a.old.subruns, a.keys_to_remove, a.ghost.W
    return [
        ("exactly the first k_ listed keys have been removed",
         S.forall_key(lambda r: S.Iff(S.has(sub, r), S.And(S.has(sub0, r), S.Not(S.And(_empty(S, sub0, r), z3.Select(W, r) < a.k_)))),
                      sub, sub0)),
        ("the records are untouched",
         S.forall_key(lambda r: S.And(S.field(sub, r, "start") == S.field(sub0, r, "start"),
                                      S.field(sub, r, "end") == S.field(sub0, r, "end")), sub, sub0)),
    ]


def _pop_ens(S, a, r):
    sub, sub0 = a.subruns, a.old.subruns
    return [("exactly the runs of zero duration are removed",
             S.forall_key(lambda x: S.Iff(S.has(sub, x), S.And(S.has(sub0, x), S.Not(_empty(S, sub0, x)))), sub, sub0)),
            ("the remaining runs keep their start and end",
             S.forall_key(lambda x: S.Implies(S.has(sub, x), S.And(S.field(sub, x, "start") == S.field(sub0, x, "start"),
                                                                 S.field(sub, x, "end") == S.field(sub0, x, "end"))), sub, sub0))]


pop_out_empty = REG.add(Contract(
    F, "_pop_out_empty_run_id",
    params=dict(subruns=RUNS),
    ensures=_pop_ens, raises={}, modifies=["subruns"],
    loops={1: Loop(_pop_l1), 2: Loop(_pop_l2)},
    local_sorts={"keys_to_remove": ListT("V")},
    ghost={"W": z3.K(V, z3.IntVal(-1))},
    loop_ghost={1: ["W"], 2: []},
    calls={"keys_to_remove.append": _append_removed},
    call_names=("_pop_out_empty_run_id",),
))


# --------------------------------------------------------------------------------------
# _split_runs_in_chunk(subruns, t): every run is cut at t
# --------------------------------------------------------------------------------------
def _in_first(S, sub, r, t):
    """run r contributes to the first half: it starts before t"""
    return S.And(S.has(sub, r), S.field(sub, r, "start") < t)


def _in_second(S, sub, r, t):
    """run r contributes to the second half: it starts at/after t, or t lies strictly inside it"""
    return S.And(S.has(sub, r), S.Or(t <= S.field(sub, r, "start"), t < S.field(sub, r, "end")))


def _first_end(S, sub, r, t):
    return S.If(t < S.field(sub, r, "end"), t, S.field(sub, r, "end"))


def _second_start(S, sub, r, t):
    return S.If(t <= S.field(sub, r, "start"), S.field(sub, r, "start"), t)


def _split_l1(S, a):
    sub, f, s, t = a.subruns, a.runs_first_chunk, a.runs_second_chunk, a.t
    seen = lambda r: S.pos(sub, r) < a.k_
    return [
        ("first half: exactly the visited runs that start before t",
         S.forall_key(lambda r: S.Iff(S.has(f, r), S.And(_in_first(S, sub, r, t), seen(r))), sub, f)),
        ("first half: from the run's start to min(end, t)",
         S.forall_key(lambda r: S.Implies(S.has(f, r), S.And(S.field(f, r, "start") == S.field(sub, r, "start"),
                                                             S.field(f, r, "end") == _first_end(S, sub, r, t))), sub, f)),
        ("second half: exactly the visited runs that do not end by t",
         S.forall_key(lambda r: S.Iff(S.has(s, r), S.And(_in_second(S, sub, r, t), seen(r))), sub, s)),
        ("second half: from max(start, t) to the run's end",
         S.forall_key(lambda r: S.Implies(S.has(s, r), S.And(S.field(s, r, "start") == _second_start(S, sub, r, t),
                                                             S.field(s, r, "end") == S.field(sub, r, "end"))), sub, s)),
    ]


def _half(S, d, r):
    """membership in a result half that is either None or a dict"""
    return S.false if (d is PNONE or d is None) else S.has(d, r)


def _split_ens(S, a, r):
    sub, t = a.old.subruns, a.t
    first, second = r
    nonempty1 = lambda x: S.field(sub, x, "start") != _first_end(S, sub, x, t)
    nonempty2 = lambda x: _second_start(S, sub, x, t) != S.field(sub, x, "end")
    out = [
        ("the first half lists exactly the runs that start before t, except pieces of zero duration",
         S.forall_key(lambda x: S.Iff(_half(S, first, x), S.And(_in_first(S, sub, x, t), nonempty1(x))), sub, first)),
        ("the second half lists exactly the runs that reach beyond t (or start at/after it), except pieces of zero duration",
         S.forall_key(lambda x: S.Iff(_half(S, second, x), S.And(_in_second(S, sub, x, t), nonempty2(x))), sub, second)),
    ]
    if not (first is PNONE or first is None):
        out.append(("first-half pieces run from the run's start to min(end, t)",
                    S.forall_key(lambda x: S.Implies(S.has(first, x), S.And(
                        S.field(first, x, "start") == S.field(sub, x, "start"),
                        S.field(first, x, "end") == _first_end(S, sub, x, t))), sub, first)))
        out.append(("a half without runs is None, not an empty dict", S.Not(S.forall_key(lambda x: S.Not(S.has(first, x)), first))))
    if not (second is PNONE or second is None):
        out.append(("second-half pieces run from max(start, t) to the run's end",
                    S.forall_key(lambda x: S.Implies(S.has(second, x), S.And(
                        S.field(second, x, "start") == _second_start(S, sub, x, t),
                        S.field(second, x, "end") == S.field(sub, x, "end"))), sub, second)))
        out.append(("a half without runs is None, not an empty dict", S.Not(S.forall_key(lambda x: S.Not(S.has(second, x)), second))))
    return out


split_runs = REG.add(Contract(
    F, "_split_runs_in_chunk",
    params=dict(subruns=RUNS, t="int"),
    ensures=_split_ens, raises={},
    loops={1: Loop(_split_l1)},
    local_sorts={"runs_first_chunk": RUNS, "runs_second_chunk": RUNS},
))

split_runs_none = REG.add(Contract(
    F, "_split_runs_in_chunk", variant="no run information",
    params=dict(subruns="V", t="int"),
    requires=lambda S, a: [("no run information", S.is_none(a.subruns))],
    ensures=lambda S, a, r: [("both halves carry no run information", S.And(r[0] is PNONE, r[1] is PNONE))],
    raises={},
))


# --------------------------------------------------------------------------------------
# _sorted_subruns_check(subruns): consecutive runs (in the dict's order) do not overlap
# --------------------------------------------------------------------------------------
def _overlap_at(S, d, i):
    return S.field(d, d.key(i), "end") > S.field(d, d.key(i + 1), "start")


sorted_check = REG.add(Contract(
    F, "_sorted_subruns_check",
    params=dict(subruns=RUNS),
    ensures=lambda S, a, r: [("accepted run lists are non-overlapping in their listed order",
                              S.forall(0, a.subruns.n - 1, lambda i: S.Not(_overlap_at(S, a.subruns, i))))],
    raises={"ValueError": lambda S, a: S.exists(0, a.subruns.n - 1, lambda i: _overlap_at(S, a.subruns, i))},
    loops={1: Loop(lambda S, a: [("no overlap among the pairs checked so far",
                                  S.forall(0, a.k_, lambda i: S.Not(_overlap_at(S, a.subruns, i))))])},
))
