"""A multi-output plugin provides 'main' (needed by the target) and 'side'
(only saved).  The saver of the side output is slow, so the thread that divides
the outputs is blocked in Mailbox.send (side mailbox full) when that saver fails
at a late chunk.  The caller must receive the saver's exception, and all
pipeline threads must be gone when the call returns.

exit 0: caller got SaverBoom and no pipeline thread is alive
exit 1: anything else
"""
import sys
import tempfile
import threading
import time

import numpy as np
import strax
from immutabledict import immutabledict

N_CHUNKS = 6
SAVE_SLEEP = 0.2
FAIL_AT = 3
TIMEOUT = 5

DTYPE = strax.time_fields + [(("payload", "x"), np.int64)]


class SaverBoom(Exception):
    pass


def copy_to(arr, dtype):
    r = np.zeros(len(arr), dtype)
    for k in ("time", "endtime", "x"):
        r[k] = arr[k]
    return r


class Src(strax.Plugin):
    provides = "src"
    data_kind = "src"
    depends_on = tuple()
    dtype = DTYPE
    rechunk_on_save = False
    save_when = strax.SaveWhen.NEVER

    def source_finished(self):
        return True

    def is_ready(self, chunk_i):
        return chunk_i < N_CHUNKS

    def compute(self, chunk_i):
        r = np.zeros(5, self.dtype)
        r["time"] = chunk_i * 100 + np.arange(5) * 10
        r["endtime"] = r["time"] + 5
        r["x"] = chunk_i
        return self.chunk(start=chunk_i * 100, end=(chunk_i + 1) * 100, data=r)


class Multi(strax.Plugin):
    provides = ("side", "main")
    data_kind = immutabledict(main="main", side="side")
    depends_on = ("src",)
    dtype = dict(main=np.dtype(DTYPE), side=np.dtype(DTYPE))
    rechunk_on_save = False
    save_when = immutabledict(main=strax.SaveWhen.NEVER, side=strax.SaveWhen.ALWAYS)

    def compute(self, src):
        return dict(main=copy_to(src, self.dtype["main"]), side=copy_to(src, self.dtype["side"]))


class Top(strax.Plugin):
    provides = "top"
    data_kind = "top"
    depends_on = ("main",)
    dtype = DTYPE
    save_when = strax.SaveWhen.NEVER

    def compute(self, main):
        return copy_to(main, self.dtype)


# Fault injection: the saver of 'side' is slow and fails at chunk FAIL_AT
_orig_save_chunk = strax.FileSaver._save_chunk


def _slow_failing_save_chunk(self, data, chunk_info, executor=None):
    if self.md["data_type"] == "side":
        time.sleep(SAVE_SLEEP)
        if chunk_info["chunk_i"] == FAIL_AT:
            raise SaverBoom(f"saver of side fails at chunk {FAIL_AT}")
    return _orig_save_chunk(self, data, chunk_info, executor=executor)


strax.FileSaver._save_chunk = _slow_failing_save_chunk

PIPE_PREFIXES = ("build", "load", "save", "divide", "read", "discard", "source")


def pipeline_threads():
    return [
        t.name
        for t in threading.enumerate()
        if t is not threading.main_thread()
        and t.is_alive()
        and t.name.split(":")[0].split("_")[0] in PIPE_PREFIXES
    ]


def main():
    with tempfile.TemporaryDirectory() as tmp:
        st = strax.Context(
            storage=[strax.DataDirectory(tmp)],
            register=[Src, Multi, Top],
            processors=["threaded_mailbox"],
            timeout=TIMEOUT,
            max_messages=2,
            allow_lazy=False,
            allow_multiprocess=False,
        )
        t0 = time.time()
        try:
            st.get_array("0", "top", progress_bar=False)
        except SaverBoom:
            alive = pipeline_threads()
            if alive:
                print(f"FAIL: got SaverBoom but threads still alive: {alive}")
                return 1
            print("OK")
            return 0
        except BaseException as e:
            print(
                f"FAIL: caller got {type(e).__name__}: {e} instead of SaverBoom after "
                f"{time.time() - t0:.1f}s; live pipeline threads: {pipeline_threads()}"
            )
            # do not leave the demo hanging on threads that will only time out
            sys.stdout.flush()
            import os

            os._exit(1)
        print("FAIL: no exception at all")
        return 1


if __name__ == "__main__":
    sys.exit(main())
