import sys, random, json
sys.path[:0]=['/verif','/verif/.deps']
import contracts.standins_superrun as B
from pyvc.harness import check_concrete
rng = random.Random(0)
n=0; bad=0
from collections import Counter
cnt = Counter()
for i in B.superrun_concat.harness.gen(rng, sys.argv[1] if len(sys.argv)>1 else "quick"):
    o = check_concrete(B.superrun_concat, B.superrun_concat.harness, i)
    n+=1
    if o.failed:
        bad+=1
        for f in o.failed: cnt[f[:110]]+=1
        if bad<=3: print(json.dumps(i), o.failed, json.dumps(o.result)[:1500])
print(n, bad)
for k,v in cnt.most_common(): print(v, k)
