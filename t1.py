import sys, time
sys.path.insert(0, '/verif/.deps'); sys.path.insert(0, '/verif')
sys.setrecursionlimit(100000)
from pyvc.contract import generate, REG
from pyvc.solve import solve_all
import contracts.all
names = sys.argv[1:] or list(REG.contracts)
for key in names:
    c = REG.contracts[key]
    t0=time.time(); run = generate(c); t1=time.time()
    print(key, 'error:', run.error, 'vcs:', len(run.vcs), 'paths', run.n_paths, 'gen %.2fs'%(t1-t0))
    res = solve_all(run.vcs)
    for vc, r in zip(run.vcs, res):
        bad = (vc.kind=='canary' and r['verdict']=='proved') or (vc.kind!='canary' and r['verdict']!='proved')
        if bad or '-v' in sys.argv:
            print('  ', 'BAD' if bad else 'ok ', vc.kind, vc.label, 'line', vc.line, r['verdict'], r['backend'], '%.2f'%r['time'], r['reason'])
    print('  solved in %.2fs'%(time.time()-t1), 'proved', sum(r['verdict']=='proved' for vc,r in zip(run.vcs,res) if vc.kind!='canary'), '/', sum(vc.kind!='canary' for vc in run.vcs))
