import sys, random, json
sys.path[:0]=['/verif','/verif/.deps']
import importlib
mod, name = sys.argv[1], sys.argv[2]
B = importlib.import_module(mod)
c = getattr(B, name)
from pyvc.harness import check_concrete
rng = random.Random(0)
n=0; bad=0
from collections import Counter
cnt = Counter()
for i in c.harness.gen(rng, sys.argv[3] if len(sys.argv)>3 else "quick"):
    o = check_concrete(c, c.harness, i)
    n+=1
    if o.failed or o.raised:
        bad+=1
        for f in (o.failed or [str(o.raised)]): cnt[f[:160]]+=1
        if bad<=4: print(json.dumps(i, default=repr)[:600], o.failed, o.raised, json.dumps(o.result, default=str)[:900])
print(n, bad)
for k,v in cnt.most_common(): print(v, k)
