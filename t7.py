import sys
sys.path.insert(0, '/verif/.deps'); sys.path.insert(0, '/verif')
from pyvc.engine import find_function
from pyvc import loops as L
fn, _ = find_function(sys.argv[1], sys.argv[2])
import ast
for n in ast.walk(fn):
    if id(n) in L.loop_ordinals(fn): print(L.loop_ordinals(fn)[id(n)], n.lineno, type(n).__name__)
