import sys
sys.path.insert(0, '/verif/.deps'); sys.path.insert(0, '/verif')
from pyvc.engine import find_function
from pyvc import loops as L
fn, _ = find_function(sys.argv[1], sys.argv[2])
for node, o in sorted(L.loop_ordinals(fn).items(), key=lambda x: x[1]): print(o, node.lineno, type(node).__name__)
