import sys
sys.path.insert(0, '/verif/.deps'); sys.path.insert(0, '/verif')
sys.setrecursionlimit(100000)
from pyvc.contract import generate, REG
import contracts.all
c = REG.contracts[sys.argv[1]]
run = generate(c)
from collections import Counter
cn = Counter((vc.kind, vc.label, vc.line) for vc in run.vcs if vc.kind != 'canary')
for k, v in sorted(cn.items(), key=lambda x: x[0][2]): print(v, k)
