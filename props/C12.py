from pyvc.runner import Property, StandIn
import contracts.all  # noqa
import contracts.harness_chunk  # noqa
import contracts.chunk as CH
import contracts.plugin as P

PROVED = [CH.chunk_init_rows, CH.chunk_init_none, CH.chunk_init_other, CH.continuity_check, CH.promised_continuity,
          P.check_dtype_arr, P.check_dtype_other, P.plugin_chunk, P.fix_output_chunk, P.fix_output_other,
          P.down_chunk_fix_output]

PROPERTY = Property(
    "C12", "proof",
    contracts=PROVED,
    standins=[StandIn("replay-scope:" + c.qualname + (c.variant or ""), c, c.harness,
                      budget={"quick": 2000, "thorough": 100000})
              for c in PROVED if c.harness is not None],
    trusted=["pyvc VC generator and value model", "z3 5.1.0 / cvc5 1.4.0"],
    assumptions=["dtype objects, data-type names and plugin attributes are opaque values; strax.remove_titles_from_dtype, "
                 "np.dtype and Plugin.dtype_for are pure uninterpreted functions",
                 "the text of f-strings is dropped: formatting an error message is assumed not to raise "
                 "(when it does, some other exception replaces the intended one - processing still stops)",
                 "composition with the processors (the exception reaches the user, nothing is stored) is not part of this proof"],
    explanation="contract-violating outputs are rejected: constructor range/dtype/type checks, _check_dtype, _fix_output "
                "(bare array, wrong label, multi-output non-dict), Plugin.chunk, continuity_check (gaps/overlaps, nothing yielded "
                "after the offender)",
)
