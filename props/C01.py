from pyvc.runner import Property, StandIn
import contracts.all  # noqa
import contracts.harness_chunk  # noqa
import contracts.chunk as CH
import contracts.plugin as P
import contracts.compute as CP
import contracts.processor as PR
import contracts.standins_pipeline as B
import contracts.postoffice as PO
import contracts.standins_iter as B8
import contracts.getiter as GI

PROVED = [CP.do_compute_1, CP.do_compute_2, CP.fetch_chunk, P.fix_output_chunk, P.fix_output_other, CH.chunk_split, CH.split_array,
          CH.continuity_check, PR.tmp_init, PO.spy_save_chunk, PO.spy_receive, PO.spy_close, PO.ack_msg_produced, PO.message_may_come, PO.post_office_read, GI.get_iter]

PROPERTY = Property(
    "C01", "other",
    contracts=PROVED,
    standins=[StandIn("whole pipeline == whole-run computation over chunkings / processors / settings / stored subsets (real Context)",
                      B.pipeline, B.pipeline.harness, budget={"quick": 200, "thorough": 3000}),
              StandIn("process pool: a stateful non-parallel plugin is not inlined into the multiprocessing source (real Context)",
                      B.multiprocess, B.multiprocess.harness, budget={"quick": 8, "thorough": 8}),
              StandIn("Plugin.iter alignment / exactly-once over independent chunkings (real code, shared with C08)", B8.plugin_iter,
                      B8.plugin_iter.harness, budget={"quick": 100, "thorough": 700})],
    trusted=["pyvc VC generator and value model", "z3 5.1.0 / cvc5 1.4.0"],
    assumptions=["this check re-proves the per-function building blocks the end-to-end statement rests on; the composition - Plugin.iter's "
                 "buffering, Chunk.concatenate / merge, the PostOffice bus and SaverSpy, the mailbox transport (proved separately as C05), "
                 "loop / down-chunking / exhaust plugin classes - is NOT proved: bounded stand-in on the real Context",
                 "all thread schedules: only the OS scheduler's in the stand-in (the mailbox layer's schedule-independence is C05)"],
    explanation="building blocks, each for all inputs: split_array / Chunk.split keep every row, in order, wholly on one side; do_compute "
                "hands the computation exactly the rows of time-aligned inputs and declares the result for exactly that interval; "
                "_fix_output wraps a result into a chunk of the declared type, range and dtype or refuses it; continuity_check lets only "
                "gap-free, overlap-free chunk sequences through to the user; ThreadedMailboxProcessor wires lazy mode, drivers and "
                "capacities as specified; in the single-thread processor PostOffice._ack_msg_produced gives a produced message the next "
                "number of its topic, caches it under that number and hands it to EVERY spy of the topic, each reader (_read) is handed messages 0, 1, 2, ... in order, each acknowledged first and "
                "each taken from the cache under its own number or freshly fetched, and SaverSpy saves every chunk "
                "the rechunker hands out exactly once under consecutive numbers and flushes before it closes the saver.  End to end (bounded): for a graph with row-wise, filtering, same-kind merging, multi-output, "
                "overlap-window and exhaust plugins the rows of get_iter equal the whole-run computation and the chunks tile the run, over "
                "the enumerated source chunkings (empty and zero-duration chunks included), both processors, 1..2 workers, lazy / eager, "
                "capacities 2..4, rechunk on save and stored subsets.",
)
