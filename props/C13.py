from pyvc.runner import Property
import contracts.all  # noqa
import contracts.mailbox as M
import contracts.processor as PR

PROVED = [M.can_fetch, M.SEND_E, M.CLOSE_E, M.READ_E, M.READ_L, M.SEND_FROM_L, M.SEND_FROM_E, M.SUBSCRIBE_E, M.KILL_E, PR.tmp_init]

PROPERTY = Property(
    "C13", "proof",
    contracts=PROVED,
    structural=[M.LOCK_DISCIPLINE, M.DIVIDE_OUTPUTS],
    trusted=["pyvc VC generator, value model and monitor rule", "z3 5.1.0 / cvc5 1.4.0",
             "heapq abstraction (finite map with size and least key)", "RLock / Condition.wait_for semantics"],
    assumptions=["protocol assumptions of C05 (single implicit sender, subscribers register first, lazy => implicit numbering)",
                 "NOT decided: that the pipeline comes to rest after a number of further source chunks bounded independently of "
                 "the run length (a quantitative, whole-pipeline, schedule-dependent statement - outside this family)",
                 "processor wiring: components, plugins, loaders, savers and the MailboxDict are opaque values; add_sender / "
                 "partial / executors are abstracted; set algebra on opaque sets is uninterpreted; distinct data types have distinct mailboxes",
                 "divide_outputs is covered structurally only (its mailboxes form a dict of unknown size)"],
    explanation="eager mode: 'len(buffer) <= max_messages' is part of the monitor invariant re-established by every locked section of "
                "send / close / _read / kill / subscribe, for every interleaving; lazy mode: _can_fetch equals its specification "
                "(killed, or nobody waits for a buffered message and a driving reader waits), the sender thread advances the source "
                "only after the gate answered True, readers publish their demand before sleeping and every change that can enable "
                "the gate notifies the fetch condition; wiring by ThreadedMailboxProcessor.__init__: the mailboxes are lazy exactly "
                "when there is no worker pool and lazy mode is allowed, divide_outputs gets the same flag, a saver of computed data "
                "drives only in eager mode, and every mailbox's capacity is the plugin's own max_messages if declared, else the "
                "processor-wide value",
)
