from pyvc.runner import Property, StandIn
import contracts.all  # noqa
import contracts.compute as CP
import contracts.chunk as CH
import contracts.standins_iter as B

PROVED = [CP.do_compute_1, CP.do_compute_2, CP.do_compute_3, CH.chunk_split, CH.concatenate2, CH.merge2, CP.fetch_chunk]

PROPERTY = Property(
    "C08", "exploration",
    contracts=PROVED,
    standins=[StandIn("Plugin.iter alignment / exactly-once over independent chunkings (real code)", B.plugin_iter, B.plugin_iter.harness,
                      budget={"quick": 100, "thorough": 700})],
    trusted=["pyvc VC generator and value model", "z3 5.1.0 / cvc5 1.4.0"],
    assumptions=["do_compute is verified per arity (1, 2, 3 keyword inputs) for single-output plugins (save_when one SaveWhen value); "
                 "compute, _fix_output and _check_subruns_uniqueness are abstract calls whose arguments are recorded",
                 "Plugin._fetch_chunk: the iterator, the buffers and the chunks are opaque values; Chunk.concatenate is represented by an uninterpreted function of (first, second, allow_superrun) whose own contract is proved for two chunks of one run; next() either hands over a value or raises StopIteration (other exceptions of the source pass through unchanged and are not modelled)",
                 "Plugin.iter itself (pacemaker, fetch loops, re-trim passes, end-of-run checks: a generator over a dict of input "
                 "buffers) is NOT proved: bounded stand-in on the real code"],
    explanation="Plugin.do_compute, for every pair / triple of input chunks: a plugin that saves by default reaches its computation only "
                "with inputs that all cover one identical time interval (otherwise ValueError before compute), the computation gets "
                "exactly the rows of every input (and chunk_i / start / end exactly when it takes them), the result is declared to "
                "cover exactly that interval and inherits the inputs' common run annotations; Chunk.split (used for every trim) obeys the "
                "laws of chunking; Plugin._fetch_chunk appends the next chunk of exactly the data type asked for behind what is buffered (nothing "
                "dropped, order kept), answers False only for an exhausted source whose buffer reaches the time needed, raises otherwise, and leaves "
                "the buffer alone when the source is exhausted.  End to end (bounded): through the real Plugin.iter every call is time-aligned, calls are adjacent, "
                "same-kind inputs arrive merged row by row, every input row is delivered exactly once in order, and a saving plugin raises "
                "when rows cannot be delivered (trailing zero-duration chunks are accepted: F11, fixed).",
)
