from pyvc.runner import Property
import contracts.all  # noqa
import contracts.mailbox as M
import contracts.storage as ST

PROVED = [M.KFE_E, M.KFE_L, M.KILL_E, M.KILL_L, M.SEND_FROM_E, M.SEND_FROM_L, M.SEND_E, M.READ_E, ST.save_from]

PROPERTY = Property(
    "C06", "other",
    contracts=PROVED,
    structural=[M.DIVIDE_OUTPUTS],
    trusted=["pyvc VC generator, value model and monitor rule", "z3 5.1.0 / cvc5 1.4.0"],
    assumptions=["ONLY the exception-relay contracts are decided: that every pipeline thread terminates, that nothing hangs and that "
                 "processing terminates when the capacity exceeds the largest lag are liveness statements outside this family",
                 "processor-level relay (ThreadedMailboxProcessor.iter, SingleThreadProcessor.iter, Context.get_iter, "
                 "Saver.save_from) is not yet under contract"],
    explanation="failure relay inside the mailbox layer: kill_from_exception kills with the ORIGINAL reason of a MailboxKilled and "
                "re-raises anything else; kill sets the flags and notifies all three conditions (signal obligations); every exception "
                "from the source or from send in the sender thread kills the mailbox (a failed send is thrown back into the source "
                "first); send / _read re-check killed after every wait and raise MailboxKilled; a consumer exception at yield kills "
                "the mailbox",
)
