from pyvc.runner import Property
import contracts.all  # noqa
import contracts.mailbox as M
import contracts.storage as ST
import contracts.processor as PR
import contracts.getiter as GI

PROVED = [M.can_fetch, M.KFE_E, M.KFE_L, M.KILL_E, M.KILL_L, M.SEND_FROM_E, M.SEND_FROM_L, M.SEND_E, M.READ_E, ST.save_from, PR.tmp_iter, PR.stp_iter, GI.get_iter]

PROPERTY = Property(
    "C06", "other",
    contracts=PROVED,
    structural=[M.DIVIDE_OUTPUTS],
    trusted=["pyvc VC generator, value model and monitor rule", "z3 5.1.0 / cvc5 1.4.0"],
    assumptions=["ONLY the exception-relay contracts are decided: that every pipeline thread terminates, that nothing hangs and that "
                 "processing terminates when the capacity exceeds the largest lag are liveness statements outside this family",
                 "ThreadedMailboxProcessor.iter: on a GeneratorExit arriving directly (only when the processor is driven without "
                 "Context.get_iter) the code assigns into a tuple and raises TypeError before killing the mailboxes - observation F9; the "
                 "contract allows that TypeError and proves the relay for every other failure"],
    explanation="failure relay inside the mailbox layer: kill_from_exception kills with the ORIGINAL reason of a MailboxKilled and "
                "re-raises anything else; kill sets the flags and notifies all three conditions (signal obligations); every exception "
                "from the source or from send in the sender thread kills the mailbox (a failed send is thrown back into the source "
                "first); send / _read re-check killed after every wait and raise MailboxKilled; a consumer exception at yield kills "
                "the mailbox; processor level: when the target's generator fails, ThreadedMailboxProcessor.iter kills EVERY mailbox "
                "upstream with the failure's reason, cleans EVERY mailbox up (joins its threads), shuts the executors down and only then "
                "re-raises; SingleThreadProcessor.iter closes every saver while the exception is being handled (so it is recorded) "
                "before re-raising it; Context.get_iter throws a failure that occurs while chunks are consumed into the processor's "
                "generator before the caller gets its error, throws an OutsideException into it when the consumer closes the iterator, and "
                "ends normally only after the generator was exhausted or told so",
)
