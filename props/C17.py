from pyvc.runner import Property
import contracts.general as G

PROPERTY = Property(
    "C17", "proof",
    contracts=[G.overlap_indices, G.fc_in],
    trusted=["pyvc VC generator", "z3 5.1.0 / cvc5 1.4.0"],
    assumptions=["A1 integers are mathematical (no int64/int32 wrap-around)",
                 "A2 numba-compiled code behaves like the Python source on the verified subset"],
    explanation="interval primitives against their set-theoretic definitions",
)
