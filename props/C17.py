from pyvc.runner import Property, StandIn
import contracts.all  # noqa
import contracts.harness_general  # noqa
import contracts.general as G
import contracts.sort_enforcement as SE
import contracts.standins_general as B
from contracts import lemmas as L

PROVED = [G.overlap_indices, G.fc_in, G.fully_contained_core, G.fc_sanity, G.fully_contained_in,
          G.touching_windows_core, G.touching_windows, G.find_break_i, G.from_break, G.diff,
          G.check_sorted, G.check_nonneg, G.check_no_overlap, SE.stable_argsort, G.get_empty_container_ids]

PROPERTY = Property(
    "C17", "proof",
    contracts=PROVED,
    lemmas=[L.SORTED, L.DISJOINT],
    standins=[StandIn("split_by_containment", B.split_by_containment, B.split_by_containment.harness),
              StandIn("abs_time_to_prev_next_interval", B.abs_time_to_prev_next, B.abs_time_to_prev_next.harness),
              StandIn("sort_by_time", B.sort_by_time, B.sort_by_time.harness)]
    + [StandIn("replay-scope:" + c.qualname, c, c.harness, budget={"quick": 1500, "thorough": 100000})
       for c in PROVED if c.harness is not None],
    trusted=["pyvc VC generator and value model", "z3 5.1.0 / cvc5 1.4.0",
             "library model: np.argsort(kind='mergesort') is a stable sorting permutation",
             "library models of len/range/enumerate/zip/min/max/np.zeros/np.ones/np.all/np.arange/slicing/slice store of a vector",
             "induction principle behind the two lemmas (base and step are discharged)"],
    assumptions=["A1 integers are mathematical (no int64/int32 wrap-around; result arrays are int32/int64 in the code)",
                 "A2 numba-compiled code behaves like the Python source on the verified subset (each stand-in input is "
                 "run through both the compiled dispatcher and .py_func)",
                 "strax.endtime(x) is modelled as a per-row value 'endtime' (field, or time+length*dt)",
                 "split_by_containment, abs_time_to_prev_next_interval and sort_by_time are NOT proved: bounded stand-ins only; of split_by_containment the helper _get_empty_container_ids (which containers get an empty entry) is proved, the composition (boolean mask, np.where / np.diff / np.unique, numba typed list inserts) is not"],
    explanation="interval primitives against their set-theoretic definitions: containment, touching windows, overlap "
                "indices, gaps, break finding, the sortedness checks and the empty-container ids of split_by_containment are proved for all array lengths; three "
                "functions outside the subset are covered by labelled bounded stand-ins",
)
