from pyvc.runner import Property
import contracts.all  # noqa
import contracts.copying as CP
PROPERTY = Property("T1", "proof", contracts=[CP.copy_to_frontend], trusted=[], assumptions=[], explanation="scratch")
