from pyvc.runner import Property, StandIn
import contracts.all  # noqa
import contracts.harness_pulse  # noqa
import contracts.harness_general  # noqa
import contracts.pulse as P
import contracts.general as G
import contracts.standins_pulse as B

PROVED = [P.record_links, P.zero_out_of_bounds, P.cut_baseline, G.overlap_indices, P.cut_outside_hits_core]

PROPERTY = Property(
    "C18", "proof",
    contracts=PROVED,
    standins=[StandIn("find_hits (all fields)", B.find_hits, B.find_hits.harness),
              StandIn("cut_outside_hits", B.cut_outside_hits, B.cut_outside_hits.harness),
              StandIn("baseline", B.baseline, B.baseline.harness),
              StandIn("integrate", B.integrate, B.integrate.harness)]
    + [StandIn("replay-scope:" + c.qualname, c, c.harness, budget={"quick": 1500, "thorough": 100000})
       for c in PROVED if c.harness is not None],
    trusted=["pyvc VC generator and value model", "z3 5.1.0 / cvc5 1.4.0",
             "library models of np.ones/np.zeros/ndarray.max/slice stores"],
    assumptions=["A1 integers are mathematical (int16 samples, int32 indices)", "A2 numba compiles the Python source faithfully",
                 "find_hits, baseline and integrate are NOT proved: bounded stand-ins only (buffer-yield "
                 "mechanics of growing_result, float arithmetic); of cut_outside_hits the kernel _cut_outside_hits is proved (modularly over the proved "
                 "contracts of record_links and overlap_indices), the wrapper (blank copy with the metadata, HITS_ONLY mark) is covered by the bounded stand-in",
                 "_cut_outside_hits: 'covered by one of the first k hits' is a ghost predicate defined by its unfolding axioms; the links are ghost "
                 "functions constrained by record_links' proved postcondition (which determines them uniquely); premise: every hit lies inside the valid "
                 "samples of the record it names (what find_hits produces), extensions are non-negative"],
    explanation="record linking (exactly the time-adjacent fragments of one pulse in one channel; next is the inverse of previous), "
                "zero_out_of_bounds and cut_baseline (exactly the stated samples zeroed, metadata frame), overlap_indices and the reduction kernel "
                "_cut_outside_hits (a sample survives exactly if it lies within the extensions of a hit, in the hit's record or continuing into the linked "
                "previous / next fragment; everything else is zero; metadata untouched) are proved "
                "for all inputs; hit finding, the reduction wrapper, baselining and integration are bounded stand-ins",
)
