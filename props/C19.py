from pyvc.runner import Property, StandIn
import contracts.all  # noqa
import contracts.peaks as PK
import contracts.standins_peaks as B
from contracts import lemmas as LM

PROVED = [PK.symmetric_moving_average, PK._replace_merged]

PROPERTY = Property(
    "C19", "exploration",
    contracts=PROVED,
    lemmas=[PK.RM_LEMMA, LM.DISJOINT],
    standins=[StandIn("find_peaks = gap-threshold clusters", B.find_peaks, B.find_peaks.harness, budget={"quick": 3000, "thorough": 40000}),
              StandIn("hits -> peaks -> sum_waveform: area conservation", B.peak_chain, B.peak_chain.harness, budget={"quick": 3000, "thorough": 40000}),
              StandIn("replace_merged", B.replace_merged, B.replace_merged.harness, budget={"quick": 3000, "thorough": 40000}),
              StandIn("find_peak_groups = gap-threshold clusters of intervals", B.find_peak_groups, B.find_peak_groups.harness),
              StandIn("merge_peaks", B.merge_peaks, B.merge_peaks.harness, budget={"quick": 3000, "thorough": 40000}),
              StandIn("sum_waveform on the children of a split", B.sum_waveform_children, B.sum_waveform_children.harness, budget={"quick": 3000, "thorough": 40000}),
              StandIn("split_peaks tiling (both split finders)", B.split_peaks, B.split_peaks.harness, budget={"quick": 3000, "thorough": 40000}),
              StandIn("store_downsampled_waveform", B.store_downsampled_waveform, B.store_downsampled_waveform.harness),
              StandIn("index_of_fraction = defining formula", B.index_of_fraction, B.index_of_fraction.harness),
              StandIn("highest_density_region = defining formula", B.highest_density_region, B.highest_density_region.harness),
              StandIn("replay-scope:symmetric_moving_average", PK.symmetric_moving_average, PK.symmetric_moving_average.harness),
              StandIn("replay-scope:_replace_merged", PK._replace_merged, PK._replace_merged.harness)],
    trusted=["pyvc VC generator and value model", "z3 5.1.0 / cvc5 1.4.0", "ghost prefix sums (definitional axioms)"],
    assumptions=["A3 floating point is modelled over the reals (symmetric_moving_average proof); stand-ins compare with a stated tolerance",
                 "find_peaks, sum_waveform and the peak splitters are NOT proved: bounded stand-ins only; of replace_merged the kernel _replace_merged is proved (for non-empty, ordered, disjoint skip windows - what merging runs of original peaks gives), the wrapper (touching_windows call, result size) is covered by the bounded stand-in only",
                 "_replace_merged: a row is modelled by 7 representative fields (int, real and one 2-D field); the row copy copies every declared field; the induction principle behind the window lemma is trusted (base and step are discharged)",
                 "widths (compute_widths) are not covered; thorough-tier budgets are capped so that the tier ends within about half an hour"],
    explanation="_replace_merged puts every merged row and every original row outside the skip windows into the result, whole, in order, and nothing else (index-structure proof with a ghost count of skipped rows); symmetric_moving_average equals its defining window mean for every waveform and wing width (prefix-sum proof over the "
                "reals); clustering, area conservation of the summed waveform, down-sampling, merging, replace_merged, split tiling, the area-fraction "
                "index and the highest-density region are bounded stand-ins against direct definitions",
)
