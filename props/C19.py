from pyvc.runner import Property, StandIn
import contracts.all  # noqa
import contracts.peaks as PK
import contracts.standins_peaks as B

PROVED = [PK.symmetric_moving_average]

PROPERTY = Property(
    "C19", "exploration",
    contracts=PROVED,
    standins=[StandIn("find_peaks = gap-threshold clusters", B.find_peaks, B.find_peaks.harness),
              StandIn("hits -> peaks -> sum_waveform: area conservation", B.peak_chain, B.peak_chain.harness),
              StandIn("replace_merged", B.replace_merged, B.replace_merged.harness),
              StandIn("merge_peaks", B.merge_peaks, B.merge_peaks.harness),
              StandIn("sum_waveform on the children of a split", B.sum_waveform_children, B.sum_waveform_children.harness),
              StandIn("split_peaks tiling (both split finders)", B.split_peaks, B.split_peaks.harness),
              StandIn("store_downsampled_waveform", B.store_downsampled_waveform, B.store_downsampled_waveform.harness),
              StandIn("index_of_fraction = defining formula", B.index_of_fraction, B.index_of_fraction.harness),
              StandIn("highest_density_region = defining formula", B.highest_density_region, B.highest_density_region.harness),
              StandIn("replay-scope:symmetric_moving_average", PK.symmetric_moving_average, PK.symmetric_moving_average.harness)],
    trusted=["pyvc VC generator and value model", "z3 5.1.0 / cvc5 1.4.0", "ghost prefix sums (definitional axioms)"],
    assumptions=["A3 floating point is modelled over the reals (symmetric_moving_average proof); stand-ins compare with a stated tolerance",
                 "find_peaks, sum_waveform, replace_merged and the peak splitters are NOT proved: bounded stand-ins only",
                 "area-fraction times, widths and highest-density regions are not covered by this check"],
    explanation="symmetric_moving_average equals its defining window mean for every waveform and wing width (prefix-sum proof over the "
                "reals); clustering, area conservation of the summed waveform, replace_merged and split tiling are bounded stand-ins",
)
