from pyvc.runner import Property, StandIn
import contracts.all  # noqa
import contracts.peaks as PK
import contracts.standins_peaks as B

PROVED = [PK.symmetric_moving_average]

PROPERTY = Property(
    "C19", "exploration",
    contracts=PROVED,
    standins=[StandIn("find_peaks = gap-threshold clusters", B.find_peaks, B.find_peaks.harness, budget={"quick": 3000, "thorough": 40000}),
              StandIn("hits -> peaks -> sum_waveform: area conservation", B.peak_chain, B.peak_chain.harness, budget={"quick": 3000, "thorough": 40000}),
              StandIn("replace_merged", B.replace_merged, B.replace_merged.harness, budget={"quick": 3000, "thorough": 40000}),
              StandIn("merge_peaks", B.merge_peaks, B.merge_peaks.harness, budget={"quick": 3000, "thorough": 40000}),
              StandIn("sum_waveform on the children of a split", B.sum_waveform_children, B.sum_waveform_children.harness, budget={"quick": 3000, "thorough": 40000}),
              StandIn("split_peaks tiling (both split finders)", B.split_peaks, B.split_peaks.harness, budget={"quick": 3000, "thorough": 40000}),
              StandIn("store_downsampled_waveform", B.store_downsampled_waveform, B.store_downsampled_waveform.harness),
              StandIn("index_of_fraction = defining formula", B.index_of_fraction, B.index_of_fraction.harness),
              StandIn("highest_density_region = defining formula", B.highest_density_region, B.highest_density_region.harness),
              StandIn("replay-scope:symmetric_moving_average", PK.symmetric_moving_average, PK.symmetric_moving_average.harness)],
    trusted=["pyvc VC generator and value model", "z3 5.1.0 / cvc5 1.4.0", "ghost prefix sums (definitional axioms)"],
    assumptions=["A3 floating point is modelled over the reals (symmetric_moving_average proof); stand-ins compare with a stated tolerance",
                 "find_peaks, sum_waveform, replace_merged and the peak splitters are NOT proved: bounded stand-ins only",
                 "widths (compute_widths) are not covered; thorough-tier budgets are capped so that the tier ends within about half an hour"],
    explanation="symmetric_moving_average equals its defining window mean for every waveform and wing width (prefix-sum proof over the "
                "reals); clustering, area conservation of the summed waveform, down-sampling, merging, replace_merged, split tiling, the area-fraction "
                "index and the highest-density region are bounded stand-ins against direct definitions",
)
