from pyvc.runner import Property, StandIn
import contracts.all  # noqa
import contracts.harness_selection  # noqa
import contracts.harness_chunk  # noqa
import contracts.selection as SEL
import contracts.chunk as CH
import contracts.getiter as GI
import contracts.standins_context as BX
import contracts.standins_selection as BS
import contracts.storage as ST
import contracts.context as CX

PROVED = [SEL.apply_time_range, SEL.apply_selection_range, SEL.apply_selection_none, SEL.loader_range, CH.chunk_split, GI.get_iter,
          GI.estimate_run_start_and_end, GI.tatr_time_within, ST.read_and_format, CX.check_cache]

PROPERTY = Property(
    "C10", "proof",
    contracts=PROVED,
    lemmas=[SEL.PRUNED],
    standins=[StandIn("seconds_range -> absolute ns", BX.to_absolute_time_range, BX.to_absolute_time_range.harness),
              StandIn("apply_selection: row selections and kept / dropped columns", BS.apply_selection_full, BS.apply_selection_full.harness,
                      budget={"quick": 700, "thorough": 6000}),
              StandIn("get_array on stored data == the full result filtered and projected", BS.get_array_selection,
                      BS.get_array_selection.harness, budget={"quick": 400, "thorough": 6000})]
    + [StandIn("replay-scope:" + c.qualname, c, c.harness, budget={"quick": 2500, "thorough": 150000})
              for c in PROVED if c.harness is not None],
    trusted=["pyvc VC generator and value model", "z3 5.1.0 / cvc5 1.4.0",
             "library model of numpy boolean-mask indexing (exactly the rows with a true mask, in order)"],
    assumptions=["row selections (strings / callables, numexpr), column projections, the seconds / time_within conversion and the "
                 "composition through both processors are not part of the proof: they are covered by the bounded stand-ins only "
                 "(apply_selection with selections and columns; Context.get_array on stored data)",
                 "'nothing is saved by a partial request' is carried by check_cache's dominance obligations (the contract is shared with C11)"],
    explanation="time-range selection commutes with chunking: apply_time_range keeps a contiguous run of rows and drops only rows "
                "that neither selection mode would select; the loader's chunk pruning likewise; apply_selection keeps exactly the "
                "fully-contained / touching rows; together: select(range, rows loaded) = select(range, all rows) for every chunking",
)
