from pyvc.runner import Property, StandIn
import contracts.all  # noqa
import contracts.storage as ST
import contracts.chunk as CH
import contracts.standins_copy as B
import contracts.standins_storage as BS
import contracts.copying as CY

PROVED = [ST.read_and_format, ST.read_format_split, ST.get_splits, ST.save_from, ST.saver_save, CH.chunk_split,
          CY.copy_to_frontend, CY.merge_per_chunk, CY.dry_load_files, ST.filesaver_init, ST.filesaver_save_chunk, ST.filesaver_close]

PROPERTY = Property(
    "C16", "proof",
    contracts=PROVED,
    standins=[StandIn("copy / rechunker / rechunk on load / per-chunk merge preserve the rows (real code)", B.copy_preserves, B.copy_preserves.harness,
                      budget={"quick": 130, "thorough": 1200}),
              StandIn("multi-megabyte chunk through every codec", BS.big_round_trip, BS.big_round_trip.harness,
                      budget={"quick": 4, "thorough": 8})],
    trusted=["pyvc VC generator and value model", "z3 5.1.0 / cvc5 1.4.0"],
    assumptions=["copy_to_frontend / merge_per_chunk_storage / dry_load_files are under contract for their DECISIONS only (one fresh "
                 "loader per target, the key the merged data is filed under, which chunks are read); the data path itself, the "
                 "stand-alone rechunker (mailboxes, thread / process pools), "
                 "the codecs are NOT proved: bounded stand-in on the real code",
                 "library models used by the proof of Rechunker.get_splits: np.argwhere(mask).flatten() = ascending indices of the true "
                 "entries, Vec.argmin, np.array(list); target sizes are non-negative",
                 "the backend's _read_chunk is abstract (any rows, may fail)"],
    explanation="copy_to_frontend gives every target frontend a loader of its own, asks the target for a WRITE location under the "
                "source's key and rechunks exactly when asked; merge_per_chunk_storage files the merged data under the key of the "
                "complete data type only if the groups reach from the first to the last chunk of the dependency; dry_load_files reads "
                "every chunk for None, exactly the named chunks for a list / tuple and exactly that chunk for a single number.  The two "
                "ends every copy goes through: StorageBackend._read_and_format_chunk builds a chunk only from rows whose count "
                "equals the recorded count (DataCorrupted otherwise) and gives it exactly the recorded start / end / run id / subruns; "
                "Saver.save_from / Saver.save write every chunk they receive exactly once under consecutive numbers with the chunk's own "
                "row count, range and run annotations and finalise only after every write was checked (C03 / C04 contracts); Chunk.split "
                "(rechunk on load, Rechunker) keeps all rows in order.  End to end (bounded): copying to another frontend, rewriting with "
                "the stand-alone rechunker (compressors, target sizes, serial / thread / process, in place or to a new location, progress "
                "bar on / off), rechunking on load with 1..2 workers and per-chunk building + merging load to exactly the original rows, with "
                "consistent metadata and an intact source.",
)
