from pyvc.runner import Property
import contracts.all  # noqa
import contracts.mailbox as M

PROVED = [M.has_msg_list, M.get_msg_list, M.can_fetch, M.KILL_E, M.KILL_L, M.SUBSCRIBE_E, M.SUBSCRIBE_L,
          M.SEND_E, M.SEND_L, M.CLOSE_E, M.CLOSE_L, M.READ_E, M.READ_L, M.SEND_FROM_E, M.SEND_FROM_L]

PROPERTY = Property(
    "C05", "proof",
    contracts=PROVED,
    trusted=["pyvc VC generator, value model and monitor rule (pyvc/monitor.py)", "z3 5.1.0 / cvc5 1.4.0",
             "abstraction of the heapq list of (number, message) pairs as a finite map with its size and least key "
             "(heappush / heappop / h[0] library model); _has_msg and _get_msg are proved on the concrete list and used "
             "through that abstraction",
             "threading.RLock / Condition semantics: wait_for releases the lock completely and re-acquires it"],
    assumptions=["protocol (caller obligations taken from the property): subscribers register before the first send; a mailbox "
                 "has one sending thread when numbers are implicit, explicit numbers are distinct; nobody closes the mailbox "
                 "under a pending send; lazy mode uses implicit numbering; users never send StopIteration themselves",
                 "one reader generator per subscriber index (only that thread writes the subscriber's read position / demand)",
                 "Future.result() is an uninterpreted function of the future; it may raise",
                 "NOT decided: termination of the iteration, deadlock freedom, timeouts, sufficiency of the capacity for a "
                 "given displacement of explicit numbers (liveness is outside this family)"],
    explanation="monitor proof of the mailbox for every interleaving: each locked section of subscribe / send / close / kill / "
                "_read re-establishes the invariant (no loss, no duplication, buffered <= max_messages, end marker highest), "
                "keeps its guarantee towards other threads and notifies every condition whose wait predicate it may enable; "
                "the reader generator hands out exactly res(Sent[0]), res(Sent[1]), ... in order and stops at the end marker",
)
