from pyvc.runner import Property, StandIn
import contracts.all  # noqa
import contracts.standins_multirun as B
import contracts.multirun as MR
import contracts.getiter as GI

PROVED = [MR.multi_run, MR.multi_run_bytes, GI.get_iter, GI.get_array_c, GI.make_c]

PROPERTY = Property(
    "C15", "proof",
    contracts=PROVED,
    standins=[StandIn("multi_run under controlled completion orders (real threads)", B.multi_run, B.multi_run.harness,
                      budget={"quick": 150, "thorough": 3000}),
              StandIn("Context.get_array over several runs with workers == one by one", B.context_multi, B.context_multi.harness,
                      budget={"quick": 16, "thorough": 100})],
    trusted=["pyvc VC generator and value model", "z3 5.1.0 / cvc5 1.4.0",
             "the harness' completion-order controller (releases one worker call at a time)"],
    assumptions=["multi_run is verified for one extra positional and one extra keyword argument; ThreadPoolExecutor / wait / islice / tqdm / "
                 "numpy are abstract calls; the futures dict is an opaque value whose entries are written only through the checked "
                 "stores (future -> the run id it was submitted for), which justifies reading pop(f) as that run id",
                 "NOT proved: that every run is submitted exactly once (the islice window arithmetic), that the final list "
                 "comprehension applies the computed order, and everything about the shared Context",
                 "thread-safety of the shared Context (plugin registry, caches) under arbitrary line-level interleavings is NOT decided: "
                 "the context-level stand-in runs under the OS scheduler only"],
    explanation="proved for every completion order (the loop over finished futures is verified for an arbitrary finished future): "
                "every submission passes the caller's function, the run id being scheduled, the caller's extra arguments and keywords "
                "without the bookkeeping keywords; a future is filed under the run id it was submitted for; for a finished future the "
                "run-id column is built from that future's run id, merged with that future's result, collected together with that run "
                "id (results and ids in lock step); a failing future raises unless ignore_errors, in which case nothing is collected "
                "for it; the returned list is re-ordered by the recorded run ids.  Bounded: the real strax.multi_run, with worker calls released in every enumerated completion order, returns one result per "
                "successful run in run-id order with the run id attached, executes every run exactly once, raises a failing run's "
                "exception or omits it under ignore_errors; the real Context gives the same rows for a list of runs with 1..8 workers as "
                "sequential single-run calls",
)
