from pyvc.runner import Property, StandIn
import contracts.all  # noqa
import contracts.standins_multirun as B

PROVED = []

PROPERTY = Property(
    "C15", "exploration",
    contracts=PROVED,
    standins=[StandIn("multi_run under controlled completion orders (real threads)", B.multi_run, B.multi_run.harness,
                      budget={"quick": 150, "thorough": 3000}),
              StandIn("Context.get_array over several runs with workers == one by one", B.context_multi, B.context_multi.harness,
                      budget={"quick": 16, "thorough": 100})],
    trusted=["the harness' completion-order controller (releases one worker call at a time)"],
    assumptions=["thread-safety of the shared Context (plugin registry, caches) under arbitrary line-level interleavings is NOT decided: "
                 "the context-level stand-in runs under the OS scheduler only"],
    explanation="bounded: the real strax.multi_run, with worker calls released in every enumerated completion order, returns one result per "
                "successful run in run-id order with the run id attached, executes every run exactly once, raises a failing run's "
                "exception or omits it under ignore_errors; the real Context gives the same rows for a list of runs with 1..8 workers as "
                "sequential single-run calls",
)
