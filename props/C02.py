from pyvc.runner import Property, StandIn
import contracts.all  # noqa
import contracts.lineage as LN
import contracts.context as CX
import contracts.standins_lineage as B

PROVED = [LN.add_lineage, LN.add_lineage_child, LN.folder_matches, LN.matches, LN.plugins_are_cached, LN.register, CX.find_options, CX.check_cache, LN.datakey_run_id, LN.set_plugin_config]

PROPERTY = Property(
    "C02", "proof",
    contracts=PROVED,
    standins=[StandIn("no stale reads over operation sequences (real Context, shared DataDirectory)", B.no_stale_reads, B.no_stale_reads.harness,
                      budget={"quick": 24, "thorough": 500}),
              StandIn("key sensitivity: one change, which keys move", B.key_sensitivity, B.key_sensitivity.harness,
                      budget={"quick": 11, "thorough": 11}),
              StandIn("_matches accepts exactly the lineages that differ only in the fuzzy parts", B.matches_exact, B.matches_exact.harness,
                      budget={"quick": 420, "thorough": 2300}),
              StandIn("deterministic_hash: insertion order, immutabledict, hash seed", B.hash_stable, B.hash_stable.harness,
                      budget={"quick": 1, "thorough": 1})],
    trusted=["pyvc VC generator and value model", "z3 5.1.0 / cvc5 1.4.0",
             "library model of a filtering dict comprehension over X.items()"],
    assumptions=["plugins, option objects, registries and lineages are opaque values with uninterpreted contains / getitem / attributes",
                 "child plugins: only the 'tracked options only' clause of their lineage entry is proved (which parent options are dropped is not)",
                 "deterministic_hash / hashablize (recursive, isinstance- and try/except-driven), _filter_lineage (nested comprehensions), "
                 "key_for / get_data_key, the directory lookup of DataDirectory and the end-to-end 'equals a brand-new context' clause "
                 "are NOT proved: bounded stand-ins on the real code",
                 "register(): recursive self.register(x) calls for a sequence are covered by the same contract (induction)"],
    explanation="what enters a storage key and when cached state may be reused: __add_lineage_to_plugin files under the last provided type "
                "(class name, version, exactly the TRACKED options with their configured values) and merges the lineage of every "
                "dependency - so tracked option / version / class changes reach the key of the type and of all descendants and an "
                "untracked option never does; StorageFrontend._matches is exact without fuzzy settings and compares the lineages with the "
                "fuzzy parts removed otherwise; _plugins_are_cached allows reuse only under the current context hash; Context.register "
                "drops the plugin cache whenever it changes the class registry (this obligation failed on the pinned tree: F5, fixed); "
                "DataDirectory._folder_matches accepts a folder only for its own data type and run, and without fuzzy settings only "
                "under the identical lineage hash; nothing is saved while fuzzy matching is on (check_cache dominance obligation, _find_options contract).",
)
