from pyvc.runner import Property, StandIn
import contracts.all  # noqa
import contracts.context as CX
import contracts.standins_context as B
import contracts.storage as ST

from pyvc.contract import REG
PROVED = [CX.target_should_be_saved, CX.check_cache, CX.find_options, ST.we_take, ST.support_superruns, ST.frontend_find,
          CX.add_saver, CX.is_stored_single, REG.contracts["strax/context.py:Context.is_stored[2 data types]"],
          REG.contracts["strax/context.py:Context.is_stored[3 data types]"]]

PROPERTY = Property(
    "C11", "proof",
    contracts=PROVED,
    standins=[StandIn("planning recursion on small DAGs (real Context)", B.planning, B.planning.harness,
                      budget={"quick": 400, "thorough": 40000})],
    trusted=["pyvc VC generator and value model", "z3 5.1.0 / cvc5 1.4.0"],
    assumptions=["Context attributes, plugins, registries and option dicts are opaque values; key_for / _get_partial_loader_for / "
                 "run_metadata are pure uninterpreted functions, make() may raise anything",
                 "recursive check_cache(dep) calls are covered by the same contract (induction over the acyclic plugin graph)",
                 "the planning recursion as a whole (exactly the needed plugins run, each type delivered once) is NOT proved: "
                 "bounded stand-in on the real Context"],
    explanation="decision logic of compute/save planning: _target_should_be_saved is exactly the save policy; in check_cache a saver is "
                "created only under all of (no time range / selection / projection / fuzzy / incomplete / temp / loaded / superrun-off) and "
                "the policy; a plugin is scheduled only if its data could not be loaded and may be created; a found loader excludes "
                "computation; the function's own DataNotAvailable is raised exactly in the forbidden cases; 'fuzzy' means a non-empty "
                "fuzzy_for / fuzzy_for_options find option (contract of _find_options); a storage frontend's find() returns only data "
                "types it takes (not excluded, named by a non-empty take_only), superruns only if it provides them, and never a "
                "write location when readonly; _add_saver asks every writable frontend in storage order and a refusing one does not stop the "
                "others; is_stored of several data types is the conjunction, of one data type the disjunction over the frontends",
)
