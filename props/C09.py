from pyvc.runner import Property, StandIn
import contracts.all  # noqa
import contracts.overlap as OV
import contracts.chunk as CH
import contracts.standins_overlap as B

PROVED = [OV.get_window_size, OV.ow_do_compute_first, OV.ow_do_compute_later, CH.chunk_split]

PROPERTY = Property(
    "C09", "exploration",
    contracts=PROVED,
    standins=[StandIn("OverlapWindowPlugin == whole-run computation over all chunkings (real code)", B.overlap_window, B.overlap_window.harness,
                      budget={"quick": 260, "thorough": 2500})],
    trusted=["pyvc VC generator and value model", "z3 5.1.0 / cvc5 1.4.0"],
    assumptions=["OverlapWindowPlugin.do_compute is verified for one input kind and one output (first call and later calls); the "
                 "multi-output branch and cache_beyond (retry loop aligning the cached starts) are NOT proved: bounded stand-in",
                 "assumed at the call sites: Chunk.concatenate of two adjacent chunks spans both (bounded C07 stand-in), "
                 "super().do_compute returns a well-formed chunk covering exactly the inputs' interval (C08 / C12 contracts), window "
                 "sizes are non-negative integers",
                 "window-locality of the user's computation is a premise of the property, not checked"],
    explanation="OverlapWindowPlugin.do_compute, modularly over the Chunk.split contract, for every input chunk, cache and computation "
                "result: what is sent starts where the previous call stopped sending, ends at the new sent_until where the withheld "
                "results start (these reach to the end of the input), nothing beyond end - 2*look-ahead - 1 is sent, sent rows end by "
                "sent_until and withheld rows start at or after it, sending only moves forward, and the input is cached from "
                "sent_until - 2*look-back - 1 on.  _get_window_size returns (w, w) for a number and the pair itself, with both parts non-negative, for a pair, anything else "
                "is refused; Chunk.split (used to drop what was sent, to withhold what is not final and to cache inputs) obeys the laws of "
                "chunking, in particular an early split never moves later than requested.  End to end (bounded): for window-local "
                "computations the concatenated output over every enumerated chunking equals the whole-run computation, output chunks "
                "are contiguous and multi-output chunks aligned.",
)
