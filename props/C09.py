from pyvc.runner import Property, StandIn
import contracts.all  # noqa
import contracts.overlap as OV
import contracts.chunk as CH
import contracts.standins_overlap as B

PROVED = [OV.get_window_size, CH.chunk_split]

PROPERTY = Property(
    "C09", "proof",
    contracts=PROVED,
    standins=[StandIn("OverlapWindowPlugin == whole-run computation over all chunkings (real code)", B.overlap_window, B.overlap_window.harness,
                      budget={"quick": 260, "thorough": 2500})],
    trusted=["pyvc VC generator and value model", "z3 5.1.0 / cvc5 1.4.0"],
    assumptions=["OverlapWindowPlugin.do_compute / cache_beyond (dict of cached chunks, retry loop) are NOT proved: bounded stand-in",
                 "window-locality of the user's computation is a premise of the property, not checked"],
    explanation="_get_window_size returns (w, w) for a number and the pair itself, with both parts non-negative, for a pair, anything else "
                "is refused; Chunk.split (used to drop what was sent, to withhold what is not final and to cache inputs) obeys the laws of "
                "chunking, in particular an early split never moves later than requested.  End to end (bounded): for window-local "
                "computations the concatenated output over every enumerated chunking equals the whole-run computation, output chunks "
                "are contiguous and multi-output chunks aligned.",
)
