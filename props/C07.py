from pyvc.runner import Property, StandIn
import contracts.all  # noqa
import contracts.harness_general  # noqa
import contracts.harness_chunk  # noqa
import contracts.chunk as CH
import contracts.storage as STO
import contracts.general as G
import contracts.standins_chunk as B

PROVED = [CH.split_array, CH.chunk_split, CH.chunk_init_rows, CH.chunk_init_none, CH.chunk_init_other, G.diff, CH.concatenate2, CH.merge2,
          STO.rechunker_receive_empty, STO.rechunker_receive_cached, STO.rechunker_flush_cached, STO.rechunker_flush_empty, STO.get_splits]

PROPERTY = Property(
    "C07", "proof",
    contracts=PROVED,
    standins=[StandIn("split / concatenate round trip incl. run bookkeeping", B.split_concat_roundtrip, B.split_concat_roundtrip.harness),
              StandIn("concatenate", B.concatenate, B.concatenate.harness),
              StandIn("merge", B.merge, B.merge.harness),
              StandIn("rechunker stream", B.rechunker_stream, B.rechunker_stream.harness),
              StandIn("get_splits", B.get_splits, B.get_splits.harness)]
    + [StandIn("replay-scope:" + c.qualname + (c.variant or ""), c, c.harness,
                      budget={"quick": 2000, "thorough": 150000})
              for c in PROVED if c.harness is not None],
    trusted=["pyvc VC generator and value model", "z3 5.1.0 / cvc5 1.4.0",
             "library models of len/min/max/slicing/enumerate/np.empty/ndarray.max/.copy()"],
    assumptions=["A1 integers are mathematical", "A2 numba compiles the verified Python source faithfully",
                 "strax.endtime(x) is a per-row value 'endtime'",
                 "sub/superrun bookkeeping of Chunk.split is abstracted in the proof (ValueError from it is allowed); "
                 "Chunk.concatenate, Chunk.merge, Rechunker and the run bookkeeping are NOT proved: bounded stand-ins only",
                 "the text of f-strings is dropped: formatting an error message is assumed not to raise"],
    explanation="laws of chunking: split_array and Chunk.split (split refuses or moves to the latest admissible time exactly "
                "when a row straddles; rows concatenate to the original; every row on one side), the constructor's range "
                "and dtype checks, diff",
)
