from pyvc.runner import Property, StandIn
import contracts.all  # noqa
import contracts.superrun as SR
import contracts.chunk as CH
import contracts.standins_superrun as B
import contracts.storage as ST

import contracts.context as CX
import contracts.lineage as LN
PROVED = [SR.pop_out_empty, SR.split_runs, SR.split_runs_none, SR.sorted_check, SR.merge_subruns, SR.merge_superrun, SR.superrun_transformation, SR.define_run, CH.chunk_split, ST.write_run_metadata,
          CX.check_cache, LN.datakey_run_id]

PROPERTY = Property(
    "C14", "proof",
    contracts=PROVED,
    standins=[StandIn("superrun = ordered concatenation of its subruns (real Context)", B.superrun_concat, B.superrun_concat.harness,
                      budget={"quick": 40, "thorough": 1500})],
    trusted=["pyvc VC generator and value model", "z3 5.1.0 / cvc5 1.4.0",
             "dict model: a finite map with a key sequence in iteration order (keys pairwise distinct, every key occurs once); "
             "stores and pops forget the order"],
    assumptions=["run ids are opaque values, start / end of a run record are mathematical integers (int(t) == t for the split time)",
                 "Chunk.split: the run annotations the constructor stores are uninterpreted normalisations of its arguments; "
                 "_split_runs_in_chunk is used through its pure-function view there and proved against its own contract here",
                 "the merge direction (_merge_runs_in_chunk, _mergable_check: dict of lists sorted in place), the subruns / superrun "
                 "setters' sorting, define_run, the superrun branch of check_cache and the storage key of a superrun are NOT proved: "
                 "covered by the bounded stand-in on the real Context only"],
    explanation="run bookkeeping of superrun chunks, for every dict of runs and every split time: _split_runs_in_chunk puts into the first "
                "half exactly the runs starting before t (cut at t), into the second exactly those reaching beyond t (cut at t), drops "
                "pieces of zero duration and returns None for an empty half; _pop_out_empty_run_id removes exactly the zero-duration "
                "runs; _sorted_subruns_check accepts exactly the run lists without overlap between neighbours; Chunk.split hands "
                "each half the split of the subruns at the time the rows were split at (this obligation failed on the pinned tree: "
                "F21, fixed); DataDirectory.write_run_metadata serialises the run document without re-ordering it, so the "
                "start-ordered sub_run_spec survives (failed on the pinned tree: F6, fixed).  End to end (bounded): a superrun's rows are the subruns' rows in order of run start, every chunk records "
                "exactly the subruns it holds rows of with spans tiling each subrun, stored superruns re-read identically, and a "
                "redefined superrun is recomputed, not served stale.",
)
