from pyvc.runner import Property, StandIn
import contracts.all  # noqa
import contracts.storage as ST
import contracts.standins_storage as B
import contracts.standins_chunk as BC
import contracts.postoffice as PO

PROVED = [ST.saver_save, ST.saver_close, ST.save_from, ST.read_and_format, ST.read_format_split, ST.get_splits, PO.spy_save_chunk, PO.spy_receive, PO.spy_close,
          ST.rechunker_receive_empty, ST.rechunker_receive_cached, ST.rechunker_flush_cached, ST.rechunker_flush_empty,
          ST.save_file_str, ST._save_file_c, ST.filesaver_save_chunk]

PROPERTY = Property(
    "C03", "proof",
    contracts=PROVED,
    standins=[StandIn("save -> load round trip on the real file backend", B.round_trip, B.round_trip.harness,
                      budget={"quick": 200, "thorough": 8000}),
              StandIn("rechunker stream", BC.rechunker_stream, BC.rechunker_stream.harness),
              StandIn("multi-megabyte chunk through every codec", B.big_round_trip, B.big_round_trip.harness,
                      budget={"quick": 4, "thorough": 8})],
    trusted=["pyvc VC generator and value model", "z3 5.1.0 / cvc5 1.4.0",
             "library contract of concurrent.futures.wait (partition of the given futures)",
             "library model of filtering list comprehensions"],
    assumptions=["the backend hooks _save_chunk / _save_chunk_metadata / _close are abstract in the proofs (they may fail); "
                 "FileSaver's file layout, the codecs and StorageBackend.loader's reconstruction are covered by the bounded round trip only",
                 "Future.done() is monotone (a finished write stays finished)"],
    explanation="bookkeeping of saving: Saver.save records exactly the chunk's number, row count, range, run id, subruns, byte size and "
                "first/last row times, writes a file exactly for non-empty chunks and returns the backend's future; Saver.close sets the "
                "completion marker, records an exception iff one is being handled, takes start/end from the first/last chunk, finalises once and "
                "checks every future it waited for; save_from saves every chunk from the rechunker once under consecutive numbers, tracks all "
                "write futures and closes exactly once.  Bit-identity through the real compressors is a bounded stand-in.",
)
