from pyvc.runner import Property, StandIn
import contracts.all  # noqa
import contracts.storage as ST
import contracts.standins_storage as B

import contracts.context as CX
# check_cache: "nothing is saved while incomplete data may be loaded / under a partial request" (dominance obligations);
# save_file: the chunk file is written under a temporary name and renamed afterwards
PROVED = [ST.save_from, ST.saver_close, ST.saver_save, ST.frontend_find, ST.can_overwrite, ST.filesaver_init, CX.check_cache,
          ST.save_file_str, ST._save_file_c, ST.filesaver_save_chunk, ST.filesaver_close]

PROPERTY = Property(
    "C04", "proof",
    contracts=PROVED,
    standins=[StandIn("fault enumeration on the real FileSaver", B.fault_enumeration, B.fault_enumeration.harness,
                      budget={"quick": 60, "thorough": 400})],
    trusted=["pyvc VC generator and value model", "z3 5.1.0 / cvc5 1.4.0",
             "library contract of concurrent.futures.wait", "library model of filtering list comprehensions"],
    assumptions=["file-system effects of FileSaver (write into <dir>_temp, rename on close) and strax.io.save_file are covered by the "
                 "bounded fault enumeration, not by a proof; abrupt process death inside an OS call, forked (inlined) savers and savers "
                 "closed by other threads are not covered",
                 "Future.done() is monotone"],
    explanation="exceptional contracts of saving: on every failure path of save_from closing is still attempted (so the exception is "
                "recorded and the data never becomes valid), the failure is remembered and thrown back into the source before it is "
                "re-raised, a MailboxKilled ends the saver without re-raising; on the normal path the data is finalised only after every "
                "chunk write has finished AND has been checked for an exception (a failed write is never reported as success); "
                "close finalises the backend only after the closed flag is set and never after unfinished writes.  On the reading side "
                "StorageFrontend.find (broken-data check on) returns only data whose metadata carries no exception and has writing_ended "
                "(unless incomplete data was asked for), and overwrite='if_broken' permits overwriting exactly such invalid data; "
                "FileSaver.__init__ removes whatever an earlier attempt left in the temporary directory (and an existing final directory) "
                "before it creates the temporary directory anew.",
)
