"""Discharging verification conditions: z3 first, cvc5 on unknown, in a pool of processes."""

import os
import time
import multiprocessing as mp

import z3

from . import engine as E

Z3_TIMEOUT_MS = int(os.environ.get("VERIF_Z3_TIMEOUT_MS", "20000"))
CVC5_TIMEOUT_MS = int(os.environ.get("VERIF_CVC5_TIMEOUT_MS", "30000"))
CANARY_TIMEOUT_MS = int(os.environ.get("VERIF_CANARY_TIMEOUT_MS", "1500"))


def to_smt2(vc, extra_hyps=()):
    s = z3.Solver()
    for h in vc.hyps:
        s.add(h)
    for h in extra_hyps:
        s.add(h)
    for a in E.str_axioms():
        s.add(a)
    s.add(z3.Not(vc.goal))
    return s.to_smt2()


def _solve_z3(smt2, timeout_ms):
    s = z3.Solver()
    s.set("timeout", timeout_ms)
    s.from_string(smt2)
    t0 = time.time()
    r = s.check()
    dt = time.time() - t0
    model = None
    if r == z3.sat:
        try:
            m = s.model()
            model = {str(d): str(m[d]) for d in m.decls()}
        except Exception:
            model = None
    reason = s.reason_unknown() if r == z3.unknown else ""
    return str(r), dt, model, reason


def _solve_cvc5(smt2, timeout_ms):
    import cvc5
    t0 = time.time()
    try:
        slv = cvc5.Solver()
        slv.setOption("tlimit-per", str(timeout_ms))
        slv.setOption("produce-models", "false")
        slv.setLogic("ALL")
        parser = cvc5.InputParser(slv)
        text = "\n".join(l for l in smt2.splitlines() if not l.startswith("(set-info") and not l.startswith("(set-logic"))
        parser.setStringInput(cvc5.InputLanguage.SMT_LIB_2_6, text, "vc")
        sm = parser.getSymbolManager()
        res = None
        while True:
            cmd = parser.nextCommand()
            if cmd.isNull():
                break
            out = cmd.invoke(slv, sm)
            if "check-sat" in str(cmd):
                res = str(out).strip()
        r = res if res in ("sat", "unsat") else "unknown"
    except Exception as ex:  # parse problems etc.: cvc5 simply does not decide
        return "unknown", time.time() - t0, None, f"cvc5 error: {type(ex).__name__}: {str(ex)[:200]}"
    return r, time.time() - t0, None, ""


def solve_one(job):
    """job = (index, smt2, is_canary).  Returns dict with verdict / backend / time / model."""
    idx, smt2, is_canary = job
    out = {"idx": idx, "trail": []}
    r, dt, model, reason = _solve_z3(smt2, CANARY_TIMEOUT_MS if is_canary else Z3_TIMEOUT_MS)
    out["trail"].append(("z3", r, round(dt, 3)))
    backend = "z3"
    if r == "unknown" and not is_canary:
        r2, dt2, _, reason2 = _solve_cvc5(smt2, CVC5_TIMEOUT_MS)
        out["trail"].append(("cvc5", r2, round(dt2, 3)))
        if r2 != "unknown":
            r, backend, reason = r2, "cvc5", ""
        else:
            reason = f"z3: {reason}; cvc5: {reason2 or 'unknown'}"
        dt += dt2
    out.update(verdict={"unsat": "proved", "sat": "refuted"}.get(r, "unknown"), backend=backend, time=dt,
               model=model, reason=reason)
    return out


def solve_all(vcs, procs=None, extra_hyps=()):
    """Solve every VC; returns list of result dicts aligned with ``vcs``."""
    jobs = [(i, to_smt2(vc, extra_hyps), vc.kind == "canary") for i, vc in enumerate(vcs)]
    procs = procs or min(16, max(1, len(jobs)))
    if procs == 1 or len(jobs) <= 2:
        res = [solve_one(j) for j in jobs]
    else:
        ctx = mp.get_context("fork")
        with ctx.Pool(procs) as pool:
            res = pool.map(solve_one, jobs, chunksize=1)
    res.sort(key=lambda r: r["idx"])
    return res


def second_solver(vcs, procs=16):
    """Re-check with cvc5 everything (thorough tier)."""
    jobs = [(i, to_smt2(vc)) for i, vc in enumerate(vcs) if vc.kind != "canary"]
    ctx = mp.get_context("fork")
    with ctx.Pool(min(procs, max(1, len(jobs)))) as pool:
        res = pool.map(_cvc5_job, jobs, chunksize=1)
    return res


def _cvc5_job(job):
    i, smt2 = job
    r, dt, _, reason = _solve_cvc5(smt2, CVC5_TIMEOUT_MS)
    return {"idx": i, "verdict": {"unsat": "proved", "sat": "refuted"}.get(r, "unknown"), "time": dt, "reason": reason}
