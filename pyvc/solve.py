"""Discharging verification conditions: z3 first, cvc5 on unknown, in a pool of processes."""

import os
import time
import multiprocessing as mp

import z3

from . import engine as E

Z3_TIMEOUT_MS = int(os.environ.get("VERIF_Z3_TIMEOUT_MS", "20000"))
CVC5_TIMEOUT_MS = int(os.environ.get("VERIF_CVC5_TIMEOUT_MS", "30000"))
CANARY_TIMEOUT_MS = int(os.environ.get("VERIF_CANARY_TIMEOUT_MS", "1500"))


def to_smt2(vc, extra_hyps=()):
    s = z3.Solver()
    for h in vc.hyps:
        s.add(h)
    for h in extra_hyps:
        s.add(h)
    for a in E.str_axioms():
        s.add(a)
    s.add(z3.Not(vc.goal))
    return s.to_smt2()


def _solve_z3(smt2, timeout_ms):
    s = z3.Solver()
    s.set("timeout", timeout_ms)
    s.from_string(smt2)
    t0 = time.time()
    r = s.check()
    dt = time.time() - t0
    model = None
    if r == z3.sat:
        try:
            m = s.model()
            model = {str(d): str(m[d]) for d in m.decls()}
        except Exception:
            model = None
    reason = s.reason_unknown() if r == z3.unknown else ""
    return str(r), dt, model, reason


def _solve_cvc5(smt2, timeout_ms):
    import cvc5
    t0 = time.time()
    try:
        slv = cvc5.Solver()
        slv.setOption("tlimit-per", str(timeout_ms))
        slv.setOption("produce-models", "false")
        slv.setLogic("ALL")
        parser = cvc5.InputParser(slv)
        text = "\n".join(l for l in smt2.splitlines() if not l.startswith("(set-info") and not l.startswith("(set-logic"))
        parser.setStringInput(cvc5.InputLanguage.SMT_LIB_2_6, text, "vc")
        sm = parser.getSymbolManager()
        res = None
        while True:
            cmd = parser.nextCommand()
            if cmd.isNull():
                break
            out = cmd.invoke(slv, sm)
            if "check-sat" in str(cmd):
                res = str(out).strip()
        r = res if res in ("sat", "unsat") else "unknown"
    except Exception as ex:  # parse problems etc.: cvc5 simply does not decide
        return "unknown", time.time() - t0, None, f"cvc5 error: {type(ex).__name__}: {str(ex)[:200]}"
    return r, time.time() - t0, None, ""


def solve_one(job):
    """job = (index, smt2, is_canary).  Returns dict with verdict / backend / time / model."""
    idx, smt2, is_canary = job
    out = {"idx": idx, "trail": []}
    r, dt, model, reason = _solve_z3(smt2, CANARY_TIMEOUT_MS if is_canary else Z3_TIMEOUT_MS)
    out["trail"].append(("z3", r, round(dt, 3)))
    backend = "z3"
    if r == "unknown" and not is_canary:
        r2, dt2, _, reason2 = _solve_cvc5(smt2, CVC5_TIMEOUT_MS)
        out["trail"].append(("cvc5", r2, round(dt2, 3)))
        if r2 != "unknown":
            r, backend, reason = r2, "cvc5", ""
        else:
            reason = f"z3: {reason}; cvc5: {reason2 or 'unknown'}"
        dt += dt2
    out.update(verdict={"unsat": "proved", "sat": "refuted"}.get(r, "unknown"), backend=backend, time=dt,
               model=model, reason=reason)
    return out


def _worker(conn):
    """Long-lived solver worker: receives jobs, answers results, exits on None."""
    while True:
        try:
            job = conn.recv()
        except (EOFError, OSError):
            return
        if job is None:
            return
        try:
            res = solve_one(job)
        except BaseException as e:  # noqa
            res = _dead(job[0], f"solver process raised {type(e).__name__}: {e}")
        try:
            conn.send(res)
        except Exception:
            return


class _Slot:
    def __init__(self, ctx):
        self.ctx = ctx
        self.spawn()

    def spawn(self):
        self.conn, child = self.ctx.Pipe(duplex=True)
        self.proc = self.ctx.Process(target=_worker, args=(child,), daemon=True)
        self.proc.start()
        child.close()
        self.job = None
        self.t0 = 0.0

    def kill(self):
        try:
            self.proc.kill()
            self.proc.join(1)
            self.conn.close()
        except Exception:
            pass


def solve_all(vcs, procs=None, extra_hyps=()):
    """Solve every VC in a pool of worker processes, each job under a HARD wall-clock limit (z3 does not always
    honour its own timeout): a worker that overruns is killed and replaced.  A VC whose solver is killed or dies is
    ``unknown`` - never proved, never refuted."""
    jobs = [(i, to_smt2(vc, extra_hyps), vc.kind == "canary") for i, vc in enumerate(vcs)]
    if len(jobs) <= 1:
        return [solve_one(j) for j in jobs]
    procs = min(procs or 16, len(jobs))
    ctx = mp.get_context("fork")
    hard = {True: CANARY_TIMEOUT_MS / 1000.0 + 10, False: (Z3_TIMEOUT_MS + CVC5_TIMEOUT_MS) / 1000.0 + 20}
    slots = [_Slot(ctx) for _ in range(procs)]
    pending = list(reversed(jobs))
    done = {}
    try:
        while len(done) < len(jobs):
            progressed = False
            for sl in slots:
                if sl.job is None:
                    if pending:
                        sl.job = pending.pop()
                        sl.t0 = time.time()
                        try:
                            sl.conn.send(sl.job)
                        except Exception:
                            done[sl.job[0]] = _dead(sl.job[0], "could not reach the solver process")
                            sl.kill()
                            sl.spawn()
                        progressed = True
                    continue
                idx, is_canary = sl.job[0], sl.job[2]
                if sl.conn.poll(0):
                    try:
                        done[idx] = sl.conn.recv()
                        sl.job = None
                    except Exception:
                        done[idx] = _dead(idx, "solver process died before answering")
                        sl.kill()
                        sl.spawn()
                    progressed = True
                elif not sl.proc.is_alive():
                    done[idx] = _dead(idx, f"solver process died (exit code {sl.proc.exitcode})")
                    sl.kill()
                    sl.spawn()
                    progressed = True
                elif time.time() - sl.t0 > hard[is_canary]:
                    done[idx] = _dead(idx, f"solver exceeded the hard wall-clock limit of {hard[is_canary]:.0f} s and was killed")
                    sl.kill()
                    sl.spawn()
                    progressed = True
            if not progressed:
                time.sleep(0.002)
    finally:
        for sl in slots:
            try:
                if sl.job is None:
                    sl.conn.send(None)
            except Exception:
                pass
            sl.kill()
    return [done[i] for i in range(len(jobs))]


def _dead(i, reason):
    return {"idx": i, "trail": [("pool", "unknown", 0.0)], "verdict": "unknown", "backend": "none", "time": 0.0,
            "model": None, "reason": reason}


def second_solver(vcs, procs=16):
    """Re-check with cvc5 everything (thorough tier)."""
    jobs = [(i, to_smt2(vc)) for i, vc in enumerate(vcs) if vc.kind != "canary"]
    ctx = mp.get_context("fork")
    with ctx.Pool(min(procs, max(1, len(jobs)))) as pool:
        res = pool.map(_cvc5_job, jobs, chunksize=1)
    return res


def _cvc5_job(job):
    i, smt2 = job
    r, dt, _, reason = _solve_cvc5(smt2, CVC5_TIMEOUT_MS)
    return {"idx": i, "verdict": {"unsat": "proved", "sat": "refuted"}.get(r, "unknown"), "time": dt, "reason": reason}
