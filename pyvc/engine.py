"""pyvc: verification-condition generator for a subset of Python.

The executor re-reads the real source of a function from /repo on every run (``extract``),
executes its AST symbolically in continuation-passing style and emits verification
conditions (``VC``): for each obligation a list of hypotheses (the path condition) and a
goal.  Loops are cut at the invariants a sidecar contract supplies (addressed by the loop's
ordinal in source order).  Calls are handled modularly: the callee's contract, a library
model, an inlined closure, or an explicit abstraction declared by the contract.  Nothing
in here ever imports strax.

What extraction drops: decorators, docstrings, comments, annotations, and the text of
f-strings (an f-string is an opaque string).  A construct outside the subset raises
``Unsupported`` - the function is then reported as outside the subset (never as a
violation).
"""

import ast
import os
import hashlib

import z3

from .ops import SymOps, Namespace, BindingError

REPO = os.environ.get("VERIF_REPO", "/repo")


class Unsupported(Exception):
    pass


# ------------------------------------------------------------------------------------
# extraction
# ------------------------------------------------------------------------------------
_src_cache = {}


def load_module_ast(relpath):
    path = os.path.join(REPO, relpath)
    st = os.stat(path)
    key = (path, st.st_mtime_ns, st.st_size)
    if key not in _src_cache:
        with open(path) as f:
            text = f.read()
        _src_cache[key] = (ast.parse(text), text)
    return _src_cache[key]


def find_function(relpath, qualname):
    """Return the FunctionDef for ``qualname`` (``f``, ``Class.f`` or ``f.<locals>.g``)."""
    tree, text = load_module_ast(relpath)
    want_setter = qualname.endswith("@setter")
    if want_setter:
        qualname = qualname[:-len("@setter")]
    parts = [p for p in qualname.split(".") if p != "<locals>"]
    node = tree
    for pi, p in enumerate(parts):
        found = None
        for child in ast.walk(node) if isinstance(node, (ast.FunctionDef, ast.AsyncFunctionDef)) else node.body:
            if isinstance(child, (ast.FunctionDef, ast.ClassDef)) and child.name == p and child is not node:
                if pi == len(parts) - 1 and isinstance(child, ast.FunctionDef):
                    is_setter = any(isinstance(d, ast.Attribute) and d.attr == "setter" for d in child.decorator_list)
                    if is_setter != want_setter:
                        continue
                found = child
                break
        if found is None:
            raise KeyError(f"{relpath}:{qualname} not found")
        node = found
    if not isinstance(node, ast.FunctionDef):
        raise KeyError(f"{relpath}:{qualname} is not a function")
    return node, text


def ast_hash(node):
    return hashlib.sha1(ast.dump(node, annotate_fields=False).encode()).hexdigest()[:12]


# ------------------------------------------------------------------------------------
# sorts and values
# ------------------------------------------------------------------------------------
V = z3.DeclareSort("V")  # universal sort of opaque Python values
truthy = z3.Function("truthy", V, z3.BoolSort())
int2v = z3.Function("int2v", z3.IntSort(), V)
v2int = z3.Function("v2int", V, z3.IntSort())
bool2v = z3.Function("bool2v", z3.BoolSort(), V)
str_id = z3.Function("str_id", V, z3.IntSort())
NONE = z3.Const("None", V)
_str_consts = {}


def strv(s):
    """V-constant for a Python string literal (distinct literals are distinct values)."""
    if s not in _str_consts:
        _str_consts[s] = (z3.Const("str:" + s, V), len(_str_consts) + 1)
    return _str_consts[s][0]


def str_axioms(finite=None):
    from .ops import vt_axiom, VT
    _n = z3.Int("ax_n")
    if finite is not None:
        # quantifier-free instances for the finite refuter
        ax = [str_id(NONE) == 0]
        for i in range(-2, finite + 3):
            ax += [VT(z3.IntVal(i)), v2int(int2v(z3.IntVal(i))) == i, int2v(z3.IntVal(i)) != NONE]
    else:
        ax = [str_id(NONE) == 0, vt_axiom(),
              # int2v is injective (retraction) and never yields None
              z3.ForAll([_n], z3.And(v2int(int2v(_n)) == _n, int2v(_n) != NONE), patterns=[int2v(_n)])]
    for s, (c, i) in _str_consts.items():
        ax.append(str_id(c) == i)
    return ax


SORTS = {"int": z3.IntSort(), "bool": z3.BoolSort(), "real": z3.RealSort(), "V": V}


def zsort(s):
    return SORTS[s] if isinstance(s, str) else s


class DictLit:
    """``{k1: v1, ...}`` with computed keys: the evaluated (key, value) pairs in source order"""

    def __init__(self, items):
        self.items = items


class Opq:
    """Opaque Python value (dtype objects, strings, arbitrary objects)."""

    __slots__ = ("t",)

    def __init__(self, t):
        self.t = t

    def __repr__(self):
        return f"Opq({self.t})"


class PyNone:
    def __repr__(self):
        return "None"


class PyInf:
    """float('inf'): larger than every integer."""

    def __repr__(self):
        return "inf"


PINF = PyInf()


PNONE = PyNone()


class Arr:
    """numpy array view.  field None: structured rows; field str: a column (or plain '' array)."""

    __slots__ = ("base", "field", "lo", "n", "ncols")

    def __init__(self, base, field, lo, n, ncols=None):
        self.base, self.field, self.lo, self.n, self.ncols = base, field, lo, n, ncols

    def __repr__(self):
        return f"Arr({self.base},{self.field},{self.lo},{self.n})"


class Row:
    __slots__ = ("base", "idx")

    def __init__(self, base, idx):
        self.base, self.idx = base, idx


class RowVec:
    """The 1-D array stored in a 2-D field of one row, e.g. ``r['data']`` (optionally sliced)."""

    __slots__ = ("base", "field", "idx", "lo", "n")

    def __init__(self, base, field, idx, lo, n):
        self.base, self.field, self.idx, self.lo, self.n = base, field, idx, lo, n


class Vec:
    """Lazy element-wise vector: length + index->term function (result of vector arithmetic)."""

    __slots__ = ("n", "fn")

    def __init__(self, n, fn):
        self.n, self.fn = n, fn


class Ref:
    """Reference to a mutable heap object (instance, list, dict)."""

    __slots__ = ("base", "kind")

    def __init__(self, base, kind):
        self.base, self.kind = base, kind

    def __repr__(self):
        return f"Ref({self.kind}:{self.base})"


class Closure:
    __slots__ = ("node", "env", "name")

    def __init__(self, node, env, name=None):
        self.node, self.env, self.name = node, env, name


class Named:
    """A dotted global name that was not resolved to a value (module, function, class)."""

    __slots__ = ("name",)

    def __init__(self, name):
        self.name = name

    def __repr__(self):
        return f"Named({self.name})"


class PyRange:
    __slots__ = ("lo", "hi")

    def __init__(self, lo, hi):
        self.lo, self.hi = lo, hi


class PyEnum:
    __slots__ = ("seq", "start")

    def __init__(self, seq, start=0):
        self.seq, self.start = seq, start


class PyZip:
    __slots__ = ("seqs",)

    def __init__(self, seqs):
        self.seqs = seqs


class Exc:
    __slots__ = ("cls", "payload", "origin", "excluding")

    def __init__(self, cls, payload=None, origin="callee", excluding=()):
        self.cls, self.payload, self.origin, self.excluding = cls, payload, origin, tuple(excluding)

    def __repr__(self):
        return f"Exc({self.cls})"


EXC_PARENT = {
    "BaseException": None,
    "Exception": "BaseException",
    "GeneratorExit": "BaseException",
    "KeyboardInterrupt": "BaseException",
    "StopIteration": "Exception",
    "ArithmeticError": "Exception",
    "ZeroDivisionError": "ArithmeticError",
    "AssertionError": "Exception",
    "AttributeError": "Exception",
    "LookupError": "Exception",
    "IndexError": "LookupError",
    "KeyError": "LookupError",
    "NotImplementedError": "RuntimeError",
    "RuntimeError": "Exception",
    "TypeError": "Exception",
    "ValueError": "Exception",
    "OSError": "Exception",
    "FileNotFoundError": "OSError",
    "TimeoutError": "OSError",
    # strax
    "CannotSplit": "Exception",
    "NoBreakFound": "Exception",
    "MailboxException": "Exception",
    "MailboxReadTimeout": "MailboxException",
    "MailboxFullTimeout": "MailboxException",
    "InvalidMessageNumber": "MailboxException",
    "MailBoxAlreadyClosed": "MailboxException",
    "MailboxKilled": "MailboxException",
    "DataNotAvailable": "Exception",
    "DataExistsError": "Exception",
    "DataCorrupted": "Exception",
    "EmptyDataWarning": "UserWarning",
    "RunMetadataNotAvailable": "Exception",
    "PluginGaveWrongOutput": "Exception",
    "InvalidConfiguration": "Exception",
    "SortingError": "Exception",
    "OutsideException": "Exception",
    "InvalidFolderNameFormat": "Exception",
    "ValueError:runs": "ValueError",  # modelling class: ValueError raised by the sub/superrun bookkeeping
    "ValueError:target": "ValueError",  # modelling class: get_splits' "Target size is too small"
    "Any": "Exception",  # an unknown exception raised by abstracted code
}


def _exc_classes_from_source():
    """The strax part of the exception hierarchy is READ FROM THE REAL SOURCE on every run (class statements of strax/*.py
    whose first base is an exception class): the hand-written entries above are only the fallback for a class the scan
    does not find.  Returns the names whose parent differs from the table (reported as an assumption-free extraction)."""
    import glob
    found = {}
    for path in sorted(glob.glob(os.path.join(REPO, "strax", "**", "*.py"), recursive=True)):
        try:
            tree = ast.parse(open(path).read())
        except (OSError, SyntaxError):
            continue
        for n in ast.walk(tree):
            if isinstance(n, ast.ClassDef) and n.bases:
                b = n.bases[0]
                bname = b.attr if isinstance(b, ast.Attribute) else (b.id if isinstance(b, ast.Name) else None)
                if bname:
                    found.setdefault(n.name, bname)
    builtin = {k_ for k_ in EXC_PARENT if ":" not in k_} | {"Warning", "UserWarning"}
    known, changed = set(builtin), True
    while changed:
        changed = False
        for c, b in found.items():
            if c not in known and b in known:
                known.add(c)
                changed = True
    diff = []
    for c, b in found.items():
        if c in known and c not in ("Exception", "BaseException") and c not in __builtins_exc:
            if EXC_PARENT.get(c) != b:
                diff.append((c, EXC_PARENT.get(c), b))
            EXC_PARENT[c] = b
    return diff


__builtins_exc = {n_ for n_ in dir(__import__("builtins")) if isinstance(getattr(__import__("builtins"), n_), type)
                  and issubclass(getattr(__import__("builtins"), n_), BaseException)}
EXC_PARENT.setdefault("Warning", "Exception")
EXC_PARENT.setdefault("UserWarning", "Warning")
EXC_SOURCE_DIFF = _exc_classes_from_source()


def exc_is_subclass(cls, parent):
    seen = cls
    while seen is not None:
        if seen == parent:
            return True
        seen = EXC_PARENT.get(seen, "Exception" if seen not in EXC_PARENT else None)
    return False


# ------------------------------------------------------------------------------------
# state
# ------------------------------------------------------------------------------------
class St:
    __slots__ = ("env", "heap", "pc", "ghost")

    def __init__(self, env, heap, pc, ghost=None):
        self.env, self.heap, self.pc, self.ghost = env, heap, pc, ghost if ghost is not None else {}

    def fork(self):
        return St(dict(self.env), dict(self.heap), list(self.pc), dict(self.ghost))

    def assume(self, f):
        s = self.fork()
        s.pc.append(f)
        return s

    def bind(self, name, v):
        s = St(dict(self.env), self.heap, self.pc, self.ghost)
        s.env[name] = v
        return s

    def with_cell(self, base, key, val):
        s = St(self.env, dict(self.heap), self.pc, self.ghost)
        cell = dict(s.heap.get(base, {}))
        cell[key] = val
        s.heap[base] = cell
        return s


class Fr:
    """Control-flow frame: where return / raise / break / continue / yield go."""

    __slots__ = ("on_return", "on_raise", "brk", "cont", "on_yield", "fn")

    def __init__(self, on_return, on_raise, brk=None, cont=None, on_yield=None, fn=None):
        self.on_return, self.on_raise, self.brk, self.cont, self.on_yield, self.fn = (
            on_return, on_raise, brk, cont, on_yield, fn)

    def with_(self, **kw):
        f = Fr(self.on_return, self.on_raise, self.brk, self.cont, self.on_yield, self.fn)
        for k, v in kw.items():
            setattr(f, k, v)
        return f


class VC:
    __slots__ = ("func", "kind", "label", "hyps", "goal", "line", "clause")

    def __init__(self, func, kind, label, hyps, goal, line=0, clause=None):
        self.func, self.kind, self.label, self.hyps, self.goal, self.line, self.clause = (
            func, kind, label, hyps, goal, line, clause)

    @property
    def name(self):
        return f"{self.func}::{self.kind}::{self.label}"


# ------------------------------------------------------------------------------------
# symbolic array views handed to contract clauses
# ------------------------------------------------------------------------------------
class ArrV:
    """Resolved view of an ``Arr`` against a heap: what clauses see."""

    def __init__(self, eng, arr, heap):
        self.eng, self.arr, self.heap = eng, arr, heap
        self.n = arr.n
        self.lo = arr.lo
        self.base = arr.base

    def _field(self, field):
        return self.eng.heap_field(self.heap, self.arr.base, field)

    def at(self, j):
        assert self.arr.field is not None, "at() on structured array"
        return z3.Select(self._field(self.arr.field), self.arr.lo + j)

    def at2(self, j, k):
        return sel2(self._field(self.arr.field), self.arr.lo + j, k)

    def f(self, field, j):
        assert self.arr.field is None
        return z3.Select(self._field(field), self.arr.lo + j)

    def f2(self, field, j, k):
        return sel2(self._field(field), self.arr.lo + j, k)

    def col(self, field):
        return ArrV(self.eng, Arr(self.arr.base, field, self.arr.lo, self.arr.n), self.heap)


class VecV:
    """Clause view of a lazy element-wise vector."""

    def __init__(self, vec):
        self.n, self._fn = vec.n, vec.fn
        self.base = None

    def at(self, j):
        return self._fn(j)


class ListV:
    def __init__(self, eng, ref, heap):
        cell = heap[ref.base]
        self.n = cell["n"]
        self._cell = cell

    def at(self, j, part=None):
        if part is not None:
            return z3.Select(self._cell[f"items{part}"], j)
        return z3.Select(self._cell["items"], j)


class ObjV:
    """Resolved view of a heap object: attribute access gives resolved values."""

    def __init__(self, eng, ref, heap):
        self.__dict__["_eng"] = eng
        self.__dict__["_ref"] = ref
        self.__dict__["_heap"] = heap

    def __getattr__(self, k):
        cell = self._heap[self._ref.base]
        if k not in cell:
            raise BindingError(f"{self._ref}.{k}")
        return self._eng.resolve(cell[k], self._heap)


# ------------------------------------------------------------------------------------
# parameter type specs (used by contracts)
# ------------------------------------------------------------------------------------
class T:
    pass


class RowsT(T):
    def __init__(self, **fields):
        self.fields = fields  # name -> 'int' | 'real' | 'int2' | 'real2'


class ArrT(T):
    def __init__(self, elem="int", dims=1):
        self.elem, self.dims = elem, dims


class ObjT(T):
    def __init__(self, cls=None, model=None, **attrs):
        self.cls, self.attrs, self.model = cls, attrs, model


class ClassModel:
    """How attribute reads / writes / method calls on instances of a class are treated."""

    def __init__(self, props=None, setters=None, methods=None, len_handler=None):
        self.props, self.setters, self.methods = props or {}, setters or {}, methods or {}
        self.len_handler = len_handler


class ListT(T):
    def __init__(self, elem="int"):
        self.elem = elem


class OptT(T):
    """``None`` or a value of the given scalar sort: represented in V."""

    def __init__(self, elem="int"):
        self.elem = elem


class HeapT(T):
    """heapq list of (number, message) pairs, abstracted to a finite map number -> message."""


class TupleT(T):
    def __init__(self, *elems):
        self.elems = elems


# ------------------------------------------------------------------------------------
# the executor
# ------------------------------------------------------------------------------------
class Engine:
    def __init__(self, registry, S=None):
        self.registry = registry  # call-name -> Contract
        self.S = S or SymOps()
        self.vcs = []
        self.assumptions = set()
        self.fresh_n = 0
        self.lengths = []  # every symbolic length introduced (finite refuter bounds them)
        self.scalars = []
        self.cur = None  # current contract
        self.canaries = 0
        self.inv_of = {}  # ghost: base of a sorting permutation -> its inverse permutation (Arr)
        self.filter_of = {}  # ghost: base of a mask-filtered array -> (source base, index map, position map)
        self.S.eng = self

    # -- fresh symbols --------------------------------------------------------------
    def fresh(self, base, sort="int"):
        self.fresh_n += 1
        c = z3.Const(f"{base}!{self.fresh_n}", zsort(sort))
        if isinstance(sort, str) and sort == "int":
            self.scalars.append(c)
        return c

    def fresh_len(self, base):
        n = self.fresh(base + "#n")
        self.lengths.append(n)
        return n

    def new_base(self, hint):
        self.fresh_n += 1
        return f"{hint}@{self.fresh_n}"

    # -- heap access ---------------------------------------------------------------
    def field_sort(self, base, field, heap):
        cell = heap.get(base, {})
        sorts = cell.get("#sorts", {})
        return sorts.get(field, "int")

    def heap_field(self, heap, base, field):
        cell = heap.get(base)
        if cell is None:
            raise Unsupported(f"unknown array base {base}")
        if field in cell:
            return cell[field]
        fs = self.field_sort(base, field, heap)
        ver = cell.get("#ver", "")
        name = f"{base}.{field}{ver}"
        if fs.endswith("2"):
            return z3.Array(name, z3.IntSort(), z3.ArraySort(z3.IntSort(), zsort(fs[:-1])))
        return z3.Array(name, z3.IntSort(), zsort(fs))

    def resolve(self, v, heap):
        """Turn an engine value into what clauses see."""
        if isinstance(v, Arr):
            return ArrV(self, v, heap)
        if isinstance(v, Ref):
            if v.kind == "list":
                return ListV(self, v, heap)
            if v.kind == "iter":
                from . import generators
                return generators.resolve_iter(self, v, heap)
            if v.kind == "msgheap":
                from .monitor import HeapV
                return HeapV(self, v, heap)
            if v.kind == "dict" and "keys" in heap[v.base]:
                from .dicts import DictV
                return DictV(self, v, heap)
            return ObjV(self, v, heap)
        if isinstance(v, Opq):
            return v.t
        if isinstance(v, tuple):
            return tuple(self.resolve(x, heap) for x in v)
        if isinstance(v, dict):
            return {key: self.resolve(x, heap) for key, x in v.items()}
        if isinstance(v, Row):
            return RowView(self, v, heap)
        if isinstance(v, Vec):
            return VecV(v)
        return v

    def namespace(self, st, entry=None, extra=None):
        d = {k: self.resolve(v, st.heap) for k, v in st.env.items()}
        if extra:
            d.update(extra)
        ns = Namespace(d)
        if entry is not None:
            ns.__dict__["old"] = Namespace({k: self.resolve(v, entry.heap) for k, v in entry.env.items()})
            # entry bindings resolved against the *current* heap (array contents now)
            ns.__dict__["arg"] = Namespace({k: self.resolve(v, st.heap) for k, v in entry.env.items()})
        ns.__dict__["ghost"] = Namespace({k: self.resolve(v, st.heap) for k, v in st.ghost.items()
                                          if not k.startswith("#") and not k.startswith("py:")})
        if "#out" in st.ghost:
            from . import generators
            ns.__dict__["out"] = generators.SeqV(st.ghost["#nout"], st.ghost["#out"])
        ns.__dict__["pyghost"] = {k: v for k, v in st.ghost.items() if k.startswith("py:")}
        # the same python-level ghosts resolved against the current heap (views of arrays / objects)
        ns.__dict__["rghost"] = {k[3:]: self.resolve(v, st.heap) for k, v in st.ghost.items() if k.startswith("py:")}
        return ns

    # -- obligations ----------------------------------------------------------------
    def oblige(self, kind, label, st, goal, node=None, clause=None):
        if isinstance(goal, bool):
            goal = z3.BoolVal(goal)
        self.vcs.append(VC(self.cur.key if self.cur else "?", kind, label, list(st.pc), goal,
                           getattr(node, "lineno", 0) or getattr(self, "cur_line", 0), clause))

    def oblige_clauses(self, kind, prefix, st, clauses, node=None):
        """One VC per clause.  A clause labelled ``hint: ...`` is proved like any other and then added to
        the hypotheses of the clauses after it (cut rule) - it helps the solver, it assumes nothing."""
        for label, f in normalize_clauses(clauses):
            f = self.S.b(f)
            self.oblige(kind, f"{prefix}:{label}", st, f, node, clause=label)
            if label.startswith("hint:"):
                st = st.assume(f)

    def canary(self, label, st, node=None):
        self.canaries += 1
        self.vcs.append(VC(self.cur.key, "canary", label, list(st.pc), z3.BoolVal(False),
                           getattr(node, "lineno", 0) or getattr(self, "cur_line", 0)))

    # -- truthiness / coercions ---------------------------------------------------
    def truth(self, v):
        if isinstance(v, bool):
            return z3.BoolVal(v)
        if z3.is_bool(v):
            return v
        if isinstance(v, int):
            return z3.BoolVal(v != 0)
        if z3.is_arith(v):
            return v != 0
        if v is PNONE:
            return z3.BoolVal(False)
        if isinstance(v, str):
            return z3.BoolVal(bool(v))
        if isinstance(v, (tuple, list, dict)):
            return z3.BoolVal(len(v) > 0)
        if isinstance(v, Opq):
            return truthy(v.t)
        if isinstance(v, Arr):
            return v.n != 0
        raise Unsupported(f"truth of {type(v).__name__}")

    def to_v(self, v, st=None):
        """Lift a value into the universal sort V."""
        if isinstance(v, Opq):
            return v.t
        if v is PNONE:
            return NONE
        if isinstance(v, str):
            return strv(v)
        if isinstance(v, bool):
            return bool2v(z3.BoolVal(v))
        if isinstance(v, int):
            v = z3.IntVal(v)
        if z3.is_bool(v):
            return bool2v(v)
        if z3.is_int(v):
            return int2v(v)
        if isinstance(v, Ref):
            return z3.Const("obj:" + v.base, V)
        if isinstance(v, Arr):
            return z3.Const("arr:" + v.base, V)
        if isinstance(v, Named):
            return z3.Const("global:" + v.name, V)
        if isinstance(v, Exc):
            if isinstance(v.payload, Opq):
                return v.payload.t
            return z3.Const("exc:" + v.cls, V)
        if isinstance(v, (list, tuple)):
            f = z3.Function(f"pyseq{len(v)}", *([V] * (len(v) + 1)))
            return f(*[self.to_v(x) for x in v]) if v else z3.Const("pyseq:empty", V)
        raise Unsupported(f"cannot lift {type(v).__name__} to V")

    def to_int(self, v):
        if isinstance(v, bool):
            return z3.IntVal(int(v))
        if isinstance(v, int):
            return z3.IntVal(v)
        if z3.is_arith(v):
            return v
        if z3.is_bool(v):
            return z3.If(v, 1, 0)
        if isinstance(v, Opq):
            return v2int(v.t)
        raise Unsupported(f"not a number: {type(v).__name__}")

    def lift_int(self, t):
        """int2v with the retraction fact recorded eagerly (no quantified axiom needed)."""
        return Opq(int2v(t))

    # =================================================================================
    # expressions (CPS): ev(e, st, fr, k) ; k(value, st)
    # =================================================================================
    def ev(self, e, st, fr, k):
        m = getattr(self, "ev_" + type(e).__name__, None)
        if m is None:
            raise Unsupported(f"expression {type(e).__name__} at line {getattr(e, 'lineno', '?')}")
        return m(e, st, fr, k)

    def ev_list(self, es, st, fr, k, acc=None):
        acc = acc or []
        if not es:
            return k(acc, st)
        return self.ev(es[0], st, fr, lambda v, s: self.ev_list(es[1:], s, fr, k, acc + [v]))

    def ev_Constant(self, e, st, fr, k):
        v = e.value
        if v is None:
            return k(PNONE, st)
        if isinstance(v, bool):
            return k(z3.BoolVal(v), st)
        if isinstance(v, int):
            return k(z3.IntVal(v), st)
        if isinstance(v, float):
            return k(z3.RealVal(repr(v)), st)
        if isinstance(v, str):
            return k(v, st)
        raise Unsupported(f"constant {v!r}")

    def ev_JoinedStr(self, e, st, fr, k):
        # an f-string made only of literals and names bound to Python strings is folded (dict keys such as
        # f"{desc}_time"); any other f-string is an opaque message text
        parts = []
        for v in e.values:
            if isinstance(v, ast.Constant) and isinstance(v.value, str):
                parts.append(v.value)
            elif isinstance(v, ast.FormattedValue) and isinstance(v.value, ast.Name) and v.format_spec is None \
                    and v.conversion == -1 and isinstance(st.env.get(v.value.id), str):
                parts.append(st.env[v.value.id])
            else:
                return k(Opq(self.fresh("fstr", "V")), st)
        return k("".join(parts), st)

    def ev_Name(self, e, st, fr, k):
        if e.id in st.env:
            return k(st.env[e.id], st)
        if e.id in ("True", "False"):
            return k(z3.BoolVal(e.id == "True"), st)
        consts = self.cur.consts if self.cur else {}
        if e.id in consts:
            return k(consts[e.id], st)
        return k(Named(e.id), st)

    def ev_Tuple(self, e, st, fr, k):
        return self.ev_list(e.elts, st, fr, lambda vs, s: k(tuple(vs), s))

    def ev_List(self, e, st, fr, k):
        return self.ev_list(e.elts, st, fr, lambda vs, s: k(list(vs), s))

    def ev_UnaryOp(self, e, st, fr, k):
        def cont(v, s):
            if isinstance(e.op, ast.Not):
                return k(z3.Not(self.truth(v)), s)
            if isinstance(e.op, ast.USub):
                if isinstance(v, Vec):
                    return k(Vec(v.n, lambda i: -v.fn(i)), s)
                return k(-self.to_int(v), s)
            if isinstance(e.op, ast.UAdd):
                return k(self.to_int(v), s)
            raise Unsupported("unary op")
        return self.ev(e.operand, st, fr, cont)

    def ev_BoolOp(self, e, st, fr, k):
        # short-circuit: the right operands (and their safety obligations) are evaluated under the left ones.
        # The guards are local to this expression; facts learnt from callees while evaluating an operand are kept,
        # conditioned on the guards under which that operand is evaluated at all.
        is_and = isinstance(e.op, ast.And)
        n0 = len(st.pc)
        if not is_and and len(e.values) == 2 and isinstance(e.values[1], (ast.Dict, ast.List, ast.Tuple)):
            # ``x or {}`` / ``x or []``: Python's value semantics (the left operand if truthy, else the literal)
            def first(v, s1):
                b = self.truth(v)
                k(v, s1.assume(b))
                return self.ev(e.values[1], s1.assume(z3.Not(b)), fr, k)
            return self.ev(e.values[0], st, fr, first)

        def finish(res, s, guard_pos):
            s2 = s.fork()
            kept = list(s2.pc[:n0])
            guards = []
            for i in range(n0, len(s2.pc)):
                h = s2.pc[i]
                if i in guard_pos:
                    guards.append(h)
                else:
                    kept.append(z3.Implies(z3.And(*guards), h) if guards else h)
            s2.pc = kept
            return k(res, s2)

        def go(i, s, acc, guard_pos):
            if i == len(e.values):
                return finish(z3.And(*acc) if is_and else z3.Or(*acc), s, guard_pos)

            def cont(v, s1):
                b = self.truth(v)
                s2 = s1.assume(b if is_and else z3.Not(b))
                return go(i + 1, s2, acc + [b], guard_pos | {len(s2.pc) - 1})
            return self.ev(e.values[i], s, fr, cont)
        return go(0, st, [], frozenset())

    def ev_IfExp(self, e, st, fr, k):
        def cont(c, s):
            c = self.truth(c)

            def then(v1, s1):
                def els(v2, s2):
                    if _is_z3(v1) and _is_z3(v2) and v1.sort() == v2.sort():
                        s3 = s.fork()
                        return k(z3.If(c, v1, v2), s3)
                    # different shapes: split the path
                    k(v1, s.assume(c))
                    return k(v2, s.assume(z3.Not(c)))
                return self.ev(e.orelse, s.assume(z3.Not(c)), fr, els)
            return self.ev(e.body, s.assume(c), fr, then)
        return self.ev(e.test, st, fr, cont)

    def ev_Compare(self, e, st, fr, k):
        def cont(vs, s):
            res = []
            for op, a, b in zip(e.ops, vs, vs[1:]):
                res.append(self.compare(op, a, b, s, e))
            return k(z3.And(*res) if len(res) > 1 else res[0], s)
        return self.ev_list([e.left] + e.comparators, st, fr, cont)

    def compare(self, op, a, b, st, node=None):
        if isinstance(a, Vec) or isinstance(b, Vec) or (isinstance(a, Arr) and a.field is not None) or (
                isinstance(b, Arr) and b.field is not None):
            va, vb = self.as_vec(a, st), self.as_vec(b, st)
            n = va.n if va.n is not None else vb.n
            return Vec(n, lambda i: self.compare(op, va.fn(i), vb.fn(i), st))
        if isinstance(op, (ast.Eq, ast.NotEq)):
            for x, y in ((a, b), (b, a)):
                if isinstance(x, Ref) and x.kind == "dict" and isinstance(y, dict) and not y and "keys" in st.heap[x.base]:
                    from . import dicts
                    r = dicts.is_empty(st.heap[x.base])       # d == {}
                    return z3.Not(r) if isinstance(op, ast.NotEq) else r
        if isinstance(op, (ast.Is, ast.IsNot, ast.Eq, ast.NotEq)):
            r = self.equal(a, b)
            return z3.Not(r) if isinstance(op, (ast.IsNot, ast.NotEq)) else r
        if isinstance(op, (ast.In, ast.NotIn)):
            r = self.contains(b, a, st)
            return z3.Not(r) if isinstance(op, ast.NotIn) else r
        if a is PINF or b is PINF:
            if a is PINF and b is PINF:
                return z3.BoolVal(isinstance(op, (ast.LtE, ast.GtE)))
            less = b is PINF      # finite < inf
            return z3.BoolVal({ast.Lt: less, ast.LtE: less, ast.Gt: not less, ast.GtE: not less}[type(op)])
        x, y = self.to_int(a), self.to_int(b)
        return {ast.Lt: x < y, ast.LtE: x <= y, ast.Gt: x > y, ast.GtE: x >= y}[type(op)]

    def equal(self, a, b):
        if a is PNONE and b is PNONE:
            return z3.BoolVal(True)
        if isinstance(a, str) and isinstance(b, str):
            return z3.BoolVal(a == b)
        if isinstance(a, (tuple, list)) and isinstance(b, (tuple, list)):
            if len(a) != len(b):
                return z3.BoolVal(False)
            return z3.And(*[self.equal(x, y) for x, y in zip(a, b)]) if a else z3.BoolVal(True)
        if isinstance(a, dict) and isinstance(b, dict) and not a and not b:
            return z3.BoolVal(True)

        num_a = isinstance(a, (int, bool)) or (_is_z3(a) and (z3.is_arith(a) or z3.is_bool(a)))
        num_b = isinstance(b, (int, bool)) or (_is_z3(b) and (z3.is_arith(b) or z3.is_bool(b)))
        if num_a and num_b:
            if (z3.is_bool(a) if _is_z3(a) else isinstance(a, bool)) and (
                    z3.is_bool(b) if _is_z3(b) else isinstance(b, bool)):
                return self.truth(a) == self.truth(b)
            return self.to_int(a) == self.to_int(b)
        if (a is PNONE and num_b) or (b is PNONE and num_a):
            return z3.BoolVal(False)
        if isinstance(a, Opq) and num_b and not _is_boolish(b):
            return a.t == int2v(self.to_int(b))
        if isinstance(b, Opq) and num_a and not _is_boolish(a):
            return int2v(self.to_int(a)) == b.t
        if isinstance(a, Ref) and isinstance(b, Ref):
            return z3.BoolVal(a.base == b.base)
        if isinstance(a, Ref) and b is PNONE or isinstance(b, Ref) and a is PNONE:
            return z3.BoolVal(False)
        if isinstance(a, Arr) and b is PNONE or isinstance(b, Arr) and a is PNONE:
            return z3.BoolVal(False)
        if isinstance(a, (tuple, list, dict)) and b is PNONE or isinstance(b, (tuple, list, dict)) and a is PNONE:
            return z3.BoolVal(False)
        return self.to_v(a) == self.to_v(b)

    def contains(self, container, item, st):
        if isinstance(container, str) and isinstance(item, str):
            return z3.BoolVal(item in container)      # substring test on two literal strings
        if isinstance(container, (tuple, list)):
            if not container:
                return z3.BoolVal(False)
            return z3.Or(*[self.equal(item, x) for x in container])
        if isinstance(container, dict):
            if not container:
                return z3.BoolVal(False)
            return z3.Or(*[self.equal(item, x) for x in container])
        if isinstance(container, Ref) and container.kind == "dict":
            cell = st.heap[container.base]
            return z3.Select(cell["dom"], self.to_v(item))
        if isinstance(container, Ref) and container.kind == "list":
            cell = st.heap[container.base]
            if "items" not in cell:
                raise Unsupported("'in' on a list of tuples")
            items = cell["items"]
            x = self.to_sort(item, items.range())
            return self.S.exists(0, cell["n"], lambda i: z3.Select(items, i) == x)
        if isinstance(container, Opq):
            f = z3.Function("contains", V, V, z3.BoolSort())
            return f(container.t, self.to_v(item))
        raise Unsupported(f"'in' on {type(container).__name__}")

    def as_vec(self, v, st):
        if isinstance(v, Vec):
            return v
        if isinstance(v, Arr) and v.field is not None:
            arr = self.heap_field(st.heap, v.base, v.field)
            lo = v.lo
            return Vec(v.n, lambda i: z3.Select(arr, lo + i))
        t = self.to_int(v)
        return Vec(None, lambda i: t)

    def ev_BinOp(self, e, st, fr, k):
        def cont(vs, s):
            a, b = vs
            return k(self.binop(e.op, a, b, s, e), s)
        return self.ev_list([e.left, e.right], st, fr, cont)

    def binop(self, op, a, b, st, node=None):
        if isinstance(a, (Vec, Arr)) or isinstance(b, (Vec, Arr)):
            va, vb = self.as_vec(a, st), self.as_vec(b, st)
            n = va.n if va.n is not None else vb.n
            if va.n is not None and vb.n is not None:
                self.oblige("safety", "vector operands have equal length", st, va.n == vb.n, node)
            return Vec(n, lambda i: self.binop(op, va.fn(i), vb.fn(i), st))
        if isinstance(op, (ast.BitOr, ast.BitAnd)) and (_is_boolish(a) and _is_boolish(b)):
            x, y = self.truth(a), self.truth(b)
            return z3.Or(x, y) if isinstance(op, ast.BitOr) else z3.And(x, y)
        if isinstance(op, ast.Add) and isinstance(a, (list, tuple)) and isinstance(b, (list, tuple)):
            return type(a)(list(a) + list(b))
        if isinstance(op, ast.Add) and isinstance(a, Ref) and a.kind == "list" and isinstance(b, list):
            return ("#list_extend", a, b)      # resolved by the assignment (it needs the state)
        if isinstance(op, (ast.Add, ast.Mod)) and (isinstance(a, str) or isinstance(b, str)):
            return Opq(self.fresh("string", "V"))     # string concatenation / formatting: an opaque string
        if isinstance(op, ast.Add) and ((isinstance(a, (list, tuple)) and isinstance(b, Opq)) or
                                        (isinstance(b, (list, tuple)) and isinstance(a, Opq))):
            return Opq(z3.Function("fn:concat", V, V, V)(self.to_v(a), self.to_v(b)))
        if isinstance(op, ast.Mult) and isinstance(a, list) and len(a) == 1 and _is_z3(b) and z3.is_int(b):
            # [x] * n: a list of n copies of x
            return Opq(z3.Function("fn:repeat", V, z3.IntSort(), V)(self.to_v(a[0]), b))
        if (isinstance(op, (ast.BitOr, ast.BitAnd, ast.BitXor)) and (isinstance(a, Opq) or isinstance(b, Opq))) or \
                (isinstance(op, ast.Sub) and isinstance(a, Opq) and isinstance(b, Opq) and self.cur is not None
                 and getattr(self.cur, "opaque_sub", False)):
            # set algebra / bit operations on opaque values: an uninterpreted function of the operands
            return Opq(z3.Function("fn:" + type(op).__name__, V, V, V)(self.to_v(a), self.to_v(b)))
        x, y = self.to_int(a), self.to_int(b)
        if isinstance(op, ast.Add):
            return x + y
        if isinstance(op, ast.Sub):
            return x - y
        if isinstance(op, ast.Mult):
            return x * y
        if isinstance(op, ast.FloorDiv):
            self.oblige("safety", "division by zero", st, y != 0, node)
            if z3.is_int(x) and z3.is_int(y):
                # Python floor division (z3's div rounds towards -inf only for positive divisor)
                return z3.If(y > 0, x / y, (-x) / (-y))
            raise Unsupported("floor division on reals")
        if isinstance(op, ast.Mod):
            self.oblige("safety", "modulo by zero", st, y != 0, node)
            if z3.is_int(x) and z3.is_int(y):
                return z3.If(y > 0, x % y, -((-x) % (-y)))
            raise Unsupported("mod on reals")
        if isinstance(op, ast.Div):
            self.oblige("safety", "division by zero", st, y != 0, node)
            rx = z3.ToReal(x) if z3.is_int(x) else x
            ry = z3.ToReal(y) if z3.is_int(y) else y
            return rx / ry
        raise Unsupported(f"binary op {type(op).__name__}")

    def ev_Attribute(self, e, st, fr, k):
        dotted = dotted_name(e)
        if dotted is not None and dotted.split(".")[0] not in st.env:
            consts = self.cur.consts if self.cur else {}
            if dotted in consts:
                return k(consts[dotted], st)
            return k(Named(dotted), st)

        if dotted is not None and self.cur is not None and dotted in self.cur.attrs:
            return self.cur.attrs[dotted](self, st, fr, k, e)

        def cont(v, s):
            return self.getattr(v, e.attr, s, fr, k, e)
        return self.ev(e.value, st, fr, cont)

    def getattr(self, v, attr, st, fr, k, node=None):
        if isinstance(v, Exc):
            # attributes of a caught exception object: uninterpreted functions of its identity
            return k(Opq(z3.Function("attr_" + attr, V, V)(self.to_v(v))), st)
        if isinstance(v, Ref) and v.kind == "obj":
            cell = st.heap[v.base]
            if attr in cell:
                return k(cell[attr], st)
            props = cell.get("#props", {})
            if attr in props:
                return props[attr](self, v, st, fr, k, node)
            meths = cell.get("#methods", {})
            if attr in meths:
                from .monitor import BoundMethod
                return k(BoundMethod(v, meths[attr]), st)
            raise Unsupported(f"attribute {attr} of object {cell.get('#cls')} is not declared")
        if isinstance(v, Opq):
            f = z3.Function("attr_" + attr, V, V)
            return k(Opq(f(v.t)), st)
        if isinstance(v, Arr):
            if attr == "size":
                return k(v.n, st)
            if attr == "dtype":
                f = z3.Function("dtype_of", V, V)
                return k(Opq(f(z3.Const("arr:" + v.base, V))), st)
        if isinstance(v, Named):
            return k(Named(v.name + "." + attr), st)
        if isinstance(v, Row):
            # record-style field access d.field
            return self.index(v, attr, st, fr, k, node)
        raise Unsupported(f"attribute {attr} on {type(v).__name__}")

    def ev_Subscript(self, e, st, fr, k):
        def cont(base, s):
            if isinstance(e.slice, ast.Slice):
                parts = [e.slice.lower, e.slice.upper]
                if e.slice.step is not None:
                    raise Unsupported("slice step")

                def got(vals, s2):
                    return k(self.slice(base, vals[0], vals[1], s2, e), s2)
                return self.ev_opt_list(parts, s, fr, got)
            return self.ev(e.slice, s, fr, lambda idx, s2: self.index(base, idx, s2, fr, k, e))
        return self.ev(e.value, st, fr, cont)

    def ev_opt_list(self, es, st, fr, k, acc=None):
        acc = acc or []
        if not es:
            return k(acc, st)
        if es[0] is None:
            return self.ev_opt_list(es[1:], st, fr, k, acc + [None])
        return self.ev(es[0], st, fr, lambda v, s: self.ev_opt_list(es[1:], s, fr, k, acc + [v]))

    def norm_slice(self, lo, hi, n):
        """Python slice clipping for [lo:hi] on a sequence of length n (step 1)."""
        def clip(x, default):
            if x is None:
                return default
            x = self.to_int(x)
            x = z3.If(x < 0, x + n, x)
            return z3.If(x < 0, 0, z3.If(x > n, n, x))
        a = clip(lo, z3.IntVal(0))
        b = clip(hi, n)
        ln = z3.If(b >= a, b - a, 0)
        return z3.simplify(a), z3.simplify(ln)

    def slice(self, base, lo, hi, st, node):
        if isinstance(base, Arr):
            a, ln = self.norm_slice(lo, hi, base.n)
            return Arr(base.base, base.field, z3.simplify(base.lo + a), ln, base.ncols)
        if isinstance(base, RowVec):
            a, ln = self.norm_slice(lo, hi, base.n)
            return RowVec(base.base, base.field, base.idx, z3.simplify(base.lo + a), ln)
        if isinstance(base, Vec):
            a, ln = self.norm_slice(lo, hi, base.n)
            fn = base.fn
            return Vec(ln, lambda i: fn(a + i))
        if isinstance(base, (list, tuple)):
            lo_c = None if lo is None else _const_int(lo)
            hi_c = None if hi is None else _const_int(hi)
            return base[lo_c:hi_c]
        if isinstance(base, Opq):
            f = z3.Function("getslice", V, V, V, V)
            return Opq(f(base.t, self.to_v(lo if lo is not None else PNONE), self.to_v(hi if hi is not None else PNONE)))
        raise Unsupported(f"slice of {type(base).__name__}")

    def index(self, base, idx, st, fr, k, node):
        if type(base).__name__ == "ItemList":
            i = self.to_int(idx)
            n = base.cell["n"]
            ii = self.norm_index(i, n)
            self.oblige("safety", "list index in range", st, z3.And(0 <= ii, ii < n), node)
            return k(base.elem(self, ii), st)
        if isinstance(base, Arr) and isinstance(idx, (Vec,)) and base.field is None:
            return self.mask_index(base, idx, st, k, node)
        if isinstance(base, Arr):
            if isinstance(idx, str):
                if base.field is not None:
                    raise Unsupported("field of a column")
                fs = self.field_sort(base.base, idx, st.heap)
                return k(Arr(base.base, idx, base.lo, base.n, ncols="2d" if fs.endswith("2") else None), st)
            if isinstance(idx, tuple):  # 2-D plain array
                i, j = self.to_int(idx[0]), self.to_int(idx[1])
                self.oblige("safety", "index in range", st, z3.And(0 <= i, i < base.n), node)
                if base.ncols is not None and not isinstance(base.ncols, str):
                    self.oblige("safety", "column index in range", st, z3.And(0 <= j, j < base.ncols), node)
                arr = self.heap_field(st.heap, base.base, base.field)
                return k(sel2(arr, base.lo + i, j), st)
            i = self.to_int(idx)
            # negative constant indices: Python semantics
            ii = self.norm_index(i, base.n)
            self.oblige("safety", "index in range", st, z3.And(0 <= ii, ii < base.n), node)
            if base.field is None:
                return k(Row(base.base, z3.simplify(base.lo + ii)), st)
            if base.ncols == "2d":
                return k(RowVec(base.base, base.field, z3.simplify(base.lo + ii), z3.IntVal(0),
                                self.row_width(base.base, base.field)), st)
            arr = self.heap_field(st.heap, base.base, base.field)
            return k(z3.Select(arr, base.lo + ii), st)
        if isinstance(base, Row):
            if not isinstance(idx, str):
                raise Unsupported("row indexed by non-string")
            fs = self.field_sort(base.base, idx, st.heap)
            if fs.endswith("2"):
                return k(RowVec(base.base, idx, base.idx, z3.IntVal(0), self.row_width(base.base, idx)), st)
            arr = self.heap_field(st.heap, base.base, idx)
            return k(z3.Select(arr, base.idx), st)
        if isinstance(base, RowVec):
            i = self.to_int(idx)
            ii = self.norm_index(i, base.n)
            self.oblige("safety", "sample index in range", st, z3.And(0 <= ii, ii < base.n), node)
            arr = self.heap_field(st.heap, base.base, base.field)
            return k(sel2(arr, base.idx, base.lo + ii), st)
        if isinstance(base, Vec):
            i = self.to_int(idx)
            ii = self.norm_index(i, base.n)
            self.oblige("safety", "index in range", st, z3.And(0 <= ii, ii < base.n), node)
            return k(base.fn(ii), st)
        if isinstance(base, (tuple, list)):
            c = _const_int(idx)
            if c is None:
                raise Unsupported("symbolic index into a Python tuple/list")
            if not (-len(base) <= c < len(base)):
                self.oblige("safety", "tuple index in range", st, z3.BoolVal(False), node)
                return None
            return k(base[c], st)
        if isinstance(base, dict):
            if isinstance(idx, str):
                if idx not in base:
                    self.oblige("safety", f"key {idx!r} present", st, z3.BoolVal(False), node)
                    return None
                return k(base[idx], st)
            raise Unsupported("dict lookup with symbolic key on a literal dict")
        if isinstance(base, Ref) and base.kind == "list":
            cell = st.heap[base.base]
            i = self.to_int(idx)
            ii = self.norm_index(i, cell["n"])
            self.oblige("safety", "list index in range", st, z3.And(0 <= ii, ii < cell["n"]), node)
            return k(self.list_elem(cell, ii), st)
        if isinstance(base, Ref) and base.kind == "msgheap":
            # h[0]: the pair with the least message number (heapq invariant)
            c = _const_int(idx)
            if c != 0:
                raise Unsupported("only h[0] is supported on a heap")
            cell = st.heap[base.base]
            self.oblige("safety", "heap is not empty", st, cell["size"] > 0, node)
            low = self.heap_lowest(cell)
            return k((low, Opq(z3.Select(cell["msgs"], low))), st)
        if isinstance(base, Ref) and base.kind == "dict":
            cell = st.heap[base.base]
            key = self.to_v(idx)
            self.oblige("safety", "dict key present", st, z3.Select(cell["dom"], key), node)
            return k(self.dict_value(cell, key), st)
        if isinstance(base, Opq):
            f = z3.Function("getitem", V, V, V)
            return k(Opq(f(base.t, self.to_v(idx))), st)
        raise Unsupported(f"index into {type(base).__name__}")

    def mask_index(self, base, mask, st, k, node):
        """x[mask]: trusted model of numpy boolean-mask indexing - a new array holding exactly the rows whose
        mask entry is true, in order.  The result aliases the field arrays of x through a ghost index map."""
        from .library import new_int_array
        self.assumptions.add("library model: boolean-mask indexing x[mask] returns exactly the rows with a true mask, in order")
        self.oblige("safety", "mask has the length of the array", st, mask.n == base.n, node)
        src = self.heap[base.base] if False else st.heap[base.base]
        rbase = self.new_base("filtered")
        m = self.fresh_len(rbase)
        idx, st = new_int_array(self, st, "fidx", m)
        pos, st = new_int_array(self, st, "fpos", base.n)
        cell = {"#sorts": dict(src.get("#sorts", {}))}
        st = St(st.env, {**st.heap, rbase: cell}, st.pc, st.ghost)
        res = Arr(rbase, None, z3.IntVal(0), m)
        iv, pv = ArrV(self, idx, st.heap), ArrV(self, pos, st.heap)
        S = self.S
        lo = base.lo
        tr = lambda i: self.truth(mask.fn(i))
        st = st.assume(z3.And(m >= 0, m <= base.n))
        st = st.assume(S.forall(0, m, lambda j: z3.And(0 <= iv.at(j), iv.at(j) < base.n, tr(iv.at(j)))))
        st = st.assume(S.forall2(0, m, 0, m, lambda i, j: z3.Implies(i < j, iv.at(i) < iv.at(j))))
        st = st.assume(S.forall(0, base.n, lambda i: z3.Implies(tr(i), z3.And(0 <= pv.at(i), pv.at(i) < m, iv.at(pv.at(i)) == i))))
        # contents: every declared field of the result row j equals that of source row idx[j]
        for f, fs in cell["#sorts"].items():
            if fs.endswith("2"):
                continue
            a_src = self.heap_field(st.heap, base.base, f)
            a_res = self.heap_field(st.heap, rbase, f)
            st = st.assume(S.forall(0, m, lambda j: z3.Select(a_res, j) == z3.Select(a_src, lo + iv.at(j))))
        self.filter_of[rbase] = (base.base, idx, pos)
        dt = z3.Function("dtype_of", V, V)
        st = st.assume(dt(z3.Const("arr:" + rbase, V)) == dt(z3.Const("arr:" + base.base, V)))
        return k(res, st)

    def list_elem(self, cell, i):
        if "items" in cell:
            return self.from_sort(z3.Select(cell["items"], i))
        k = 0
        out = []
        while f"items{k}" in cell:
            out.append(self.from_sort(z3.Select(cell[f"items{k}"], i)))
            k += 1
        return tuple(out)

    def heap_lowest(self, cell):
        """least number in the heap: an uninterpreted function of the membership array, characterised by facts
        the monitor layer assumes (member, and nothing smaller is a member)."""
        f = z3.Function("heap_lowest", cell["inbox"].sort(), z3.IntSort())
        return f(cell["inbox"])

    def dict_value(self, cell, key):
        vs = cell.get("#vsort", "V")
        if isinstance(vs, dict):  # record-valued dict: field -> Array(V -> sort)
            return {f: z3.Select(cell["val:" + f], key) for f in vs}
        return self.from_sort(z3.Select(cell["val"], key))

    def from_sort(self, t):
        if t.sort() == V:
            return Opq(t)
        return t

    def row_width(self, base, field):
        return z3.Int(f"{base}.{field}#width")

    def norm_index(self, i, n):
        c = _const_int(i)
        if c is not None and c < 0:
            return z3.simplify(n + c)
        if c is not None:
            return i
        return i  # symbolic indices are required to be non-negative (safety obligation)

    # -- calls --------------------------------------------------------------------
    def _exc_not_none(self, exc, st):
        """``except ... as e``: the exception object bound to e is an object, never None"""
        try:
            t = self.to_v(exc)
        except Exception:
            return st
        return st.assume(t != NONE)

    def ev_Call(self, e, st, fr, k):
        from . import library
        return library.call(self, e, st, fr, k)

    def ev_Yield(self, e, st, fr, k):
        from . import generators
        if e.value is None:
            return generators.do_yield(self, PNONE, st, fr, k, e)
        return self.ev(e.value, st, fr, lambda v, s: generators.do_yield(self, v, s, fr, k, e))

    def ev_YieldFrom(self, e, st, fr, k):
        """``yield from <expr>``: the sub-generator's items are not tracked individually (the contract of the call
        that builds it records what it stands for); it may end by raising what the contract lists in ``yield_from_raises``
        (an exception of the sub-generator, or one thrown in by the consumer)."""
        def cont(v, s):
            for cls in getattr(self.cur, "yield_from_raises", None) or ():
                # (a contract that declares the ghost variable ``yf_failed`` is told that the sub-generator ended by raising)
                s_r = St(s.env, s.heap, s.pc, {**s.ghost, "yf_failed": z3.BoolVal(True)}) if "yf_failed" in s.ghost else s
                t = self.fresh("yf_exc_" + cls, "V")
                facts = getattr(self.cur, "yield_from_facts", None)
                if facts is not None:
                    # assumed shape of what the sub-generator raises (listed among the assumptions of the contract)
                    for label, f in facts(self, cls, t):
                        self.assumptions.add(label)
                        s_r = s_r.assume(f)
                fr.on_raise(Exc(cls, Opq(t)), s_r)
            return k(PNONE, s)
        return self.ev(e.value, st, fr, cont)

    def ev_GeneratorExp(self, e, st, fr, k):
        return self.comprehension(e, st, fr, k, "gen")

    def ev_ListComp(self, e, st, fr, k):
        return self.comprehension(e, st, fr, k, "list")

    def ev_SetComp(self, e, st, fr, k):
        return self.comprehension(e, st, fr, k, "set")

    def ev_DictComp(self, e, st, fr, k):
        return self.comprehension(e, st, fr, k, "dict")

    def comprehension(self, e, st, fr, k, kind):
        """Single-generator comprehensions.  Concrete sequences are unrolled; an array / opaque iterable is
        treated with the arbitrary-element rule (element expressions are assumed free of side effects)."""
        if len(e.generators) != 1 or e.generators[0].is_async:
            if any(x.is_async for x in e.generators):
                raise Unsupported("async comprehension")

            # several generators: supported only as an opaque value built from an opaque outer iterable
            def outer(it, s0):
                if not isinstance(it, Opq):
                    raise Unsupported("nested comprehension over a non-opaque iterable")
                self.assumptions.add(f"nested comprehension at line {e.lineno} of {self.cur.key}: element expressions have no "
                                     "side effects and do not raise; the result is an opaque value")
                return k(Opq(self.fresh(f"comp_{self.comp_ordinal(e)}", "V")), s0)
            return self.ev(e.generators[0].iter, st, fr, outer)
        g = e.generators[0]

        def with_iter(it, s0):
            hooks = getattr(self.cur, "comp_hooks", None) or {}
            if hooks:
                h = hooks.get(self.comp_ordinal(e))
                if h is not None:
                    h(self, s0, it, e)          # obligations about WHAT a comprehension iterates over
            items = None
            if isinstance(it, (list, tuple)):
                items = list(it)
            elif isinstance(it, dict):
                items = list(it.keys())
            if items is not None:
                out = []

                def go(i, s1):
                    if i == len(items):
                        if kind == "dict":
                            return k(dict(out), s1)
                        return k(list(out), s1)
                    def bound(s2):
                        def conds(j, s3):
                            if j == len(g.ifs):
                                if kind == "dict":
                                    return self.ev_list([e.key, e.value], s3, fr,
                                                        lambda kv, s4: (out.append((kv[0], kv[1])), go(i + 1, s4))[1])
                                return self.ev(e.elt, s3, fr, lambda v, s4: (out.append(v), go(i + 1, s4))[1])
                            def after(cv, s4):
                                c = z3.simplify(self.truth(cv))
                                if z3.is_true(c):
                                    return conds(j + 1, s4)
                                if z3.is_false(c):
                                    return go(i + 1, s4)
                                raise _UndecidedFilter()
                            return self.ev(g.ifs[j], s3, fr, after)
                        return conds(0, s2)
                    return self.assign(g.target, items[i], s1, fr, bound, e)
                try:
                    return go(0, s0)
                except _UndecidedFilter:
                    cid = self.comp_ordinal(e)
                    return k(Opq(self.fresh(f"comp_{cid}", "V")), s0)
            # ``[x for x in L if cond(x)]`` over a heap list: the sub-list of the elements satisfying cond, in order
            if kind == "list" and isinstance(it, Ref) and it.kind == "list" and len(g.ifs) == 1 \
                    and isinstance(e.elt, ast.Name) and isinstance(g.target, ast.Name) and e.elt.id == g.target.id:
                return self.filter_list(it, g, s0, fr, k, e)
            # symbolic sequence (heap list / array column / zip of them): a lazy element-wise vector
            if kind in ("list", "gen") and not g.ifs and (
                    (isinstance(it, Ref) and it.kind == "list") or isinstance(it, (Arr, Vec, PyZip, PyEnum))):
                from .loops import iteration_space
                n, elem = iteration_space(self, it, s0, e)
                q = self.fresh("ci")
                got = []

                def bound(s2):
                    return self.ev(e.elt, s2, fr, lambda v, s3: got.append(v))
                self.assign(g.target, elem(q, s0), s0, fr, bound, e)
                if len(got) != 1 or not _is_z3(got[0]):
                    raise Unsupported("comprehension element that branches or is not a scalar")
                term = got[0]
                return k(Vec(n, lambda i: z3.substitute(term, (q, i if _is_z3(i) else z3.IntVal(i)))), s0)
            if kind == "dict" and isinstance(it, Opq) and self._is_items_filter(e):
                return self.filter_dict_opq(e, g, s0, fr, k)
            if kind in ("list", "gen", "set") and isinstance(it, Opq) and g.ifs and isinstance(e.elt, ast.Name) \
                    and isinstance(g.target, ast.Name) and e.elt.id == g.target.id:
                return self.filter_seq_opq(e, g, it, s0, fr, k)
            if isinstance(it, Opq) or (isinstance(it, Ref) and it.kind in ("iter",)):
                self.assumptions.add(f"comprehension at line {e.lineno} of {self.cur.key}: element expressions have no "
                                     "side effects; the result is an opaque value")
                elem = Opq(self.fresh("elem", "V"))
                self.comp_n = getattr(self, "comp_n", {})
                cid = self.comp_ordinal(e)
                res = Opq(self.fresh(f"comp_{cid}", "V"))

                def bound(s2):
                    exprs = list(g.ifs) + ([e.key, e.value] if kind == "dict" else [e.elt])
                    # evaluate for obligations and possible raises; then continue from the state before
                    return self.ev_list(exprs, s2, fr, lambda vs, s3: None)
                self.assign(g.target, elem, s0, fr, bound, e)
                return k(res, s0)
            if isinstance(it, Ref) and it.kind in ("dict_items", "dict_keys", "dict_values", "dict", "list"):
                # a comprehension over a heap dict / list that no model covers: its value is unknown (a fresh opaque value), the
                # iterated container is left as it is; element expressions are assumed free of side effects
                self.assumptions.add(f"comprehension at line {e.lineno} of {self.cur.key}: over a tracked container, result not modelled "
                                     "(opaque); element expressions have no side effects")
                return k(Opq(self.fresh(f"comp_{self.comp_ordinal(e)}", "V")), s0)
            raise Unsupported(f"comprehension over {type(it).__name__}")
        return self.ev(g.iter, st, fr, with_iter)

    @staticmethod
    def _is_items_filter(e):
        """``{k: v for k, v in X.items() if cond}`` - an identity dict comprehension with a filter"""
        g = e.generators[0]
        return (isinstance(g.iter, ast.Call) and isinstance(g.iter.func, ast.Attribute) and g.iter.func.attr == "items"
                and not g.iter.args and isinstance(g.target, ast.Tuple) and len(g.target.elts) == 2
                and all(isinstance(x, ast.Name) for x in g.target.elts)
                and isinstance(e.key, ast.Name) and e.key.id == g.target.elts[0].id
                and isinstance(e.value, ast.Name) and e.value.id == g.target.elts[1].id)

    def filter_dict_opq(self, e, g, st, fr, k):
        """Trusted model of ``{k: v for k, v in X.items() if cond(k, v)}`` over an opaque dict X: a dict holding exactly
        the items of X that satisfy the condition (stated with the uninterpreted contains / getitem of opaque values)."""
        got = []
        self.ev(g.iter.func.value, st, fr, lambda v, s1: got.append(v))
        if len(got) != 1 or not isinstance(got[0], Opq):
            raise Unsupported("filtering dict comprehension over a non-opaque dict")
        src = got[0].t
        kq = self.fresh("fk", "V")
        gi = z3.Function("getitem", V, V, V)
        ct = z3.Function("contains", V, V, z3.BoolSort())
        conds = []

        def bound(s2):
            return self.ev_list(list(g.ifs), s2, fr, lambda vs, s3: conds.append([self.truth(v) for v in vs]))
        self.assign(g.target, (Opq(kq), Opq(gi(src, kq))), st, fr, bound, e)
        if len(conds) != 1:
            raise Unsupported("filter condition that branches")
        cond = z3.And(*conds[0]) if conds[0] else z3.BoolVal(True)
        res = self.fresh(f"filtered_dict_{self.comp_ordinal(e)}", "V")
        q = z3.Const("fq", V)
        cq = z3.substitute(cond, (kq, q))
        self.assumptions.add("library model: a filtering dict comprehension over X.items() keeps exactly the items satisfying its condition")
        st = st.assume(z3.ForAll([q], ct(res, q) == z3.And(ct(src, q), cq), patterns=[ct(res, q)]))
        st = st.assume(z3.ForAll([q], z3.Implies(ct(res, q), gi(res, q) == gi(src, q)), patterns=[gi(res, q)]))
        return k(Opq(res), st)

    def filter_seq_opq(self, e, g, it, st, fr, k):
        """Trusted model of ``[x for x in X if cond(x)]`` (also as generator / set) over an opaque iterable X: a collection
        holding exactly the elements of X that satisfy the condition."""
        kq = self.fresh("fe", "V")
        ct = z3.Function("contains", V, V, z3.BoolSort())
        conds = []

        def bound(s2):
            return self.ev_list(list(g.ifs), s2, fr, lambda vs, s3: conds.append([self.truth(v) for v in vs]))
        self.assign(g.target, Opq(kq), st, fr, bound, e)
        if len(conds) != 1:
            raise Unsupported("filter condition that branches")
        cond = z3.And(*conds[0])
        res = self.fresh(f"filtered_{self.comp_ordinal(e)}", "V")
        q = z3.Const("fq", V)
        self.assumptions.add("library model: a filtering comprehension over an opaque iterable keeps exactly the elements satisfying its condition")
        st = st.assume(z3.ForAll([q], ct(res, q) == z3.And(ct(it.t, q), z3.substitute(cond, (kq, q))), patterns=[ct(res, q)]))
        return k(Opq(res), st)

    def filter_list(self, it, g, st, fr, k, node):
        """Trusted model of a filtering list comprehension over a symbolic list: a new list holding exactly the
        elements whose condition is true, in their original order (ghost index maps as for mask indexing)."""
        from .library import new_int_array
        cell = st.heap[it.base]
        if "items" not in cell:
            raise Unsupported("filter over a list of tuples")
        src_items, n = cell["items"], cell["n"]
        q = self.fresh("fi")
        got = []

        def bound(s2):
            return self.ev(g.ifs[0], s2, fr, lambda v, s3: got.append(self.truth(v)))
        self.assign(g.target, self.from_sort(z3.Select(src_items, q)), st, fr, bound, node)
        if len(got) != 1:
            raise Unsupported("filter condition that branches")
        cond = lambda i: z3.substitute(got[0], (q, i if _is_z3(i) else z3.IntVal(i)))
        base = self.new_base("filtered_list")
        m = self.fresh_len(base)
        items = self.fresh(base + ".items", src_items.sort())
        st = St(st.env, {**st.heap, base: {"n": m, "items": items}}, st.pc, st.ghost)
        idx, st = new_int_array(self, st, "fidx", m)
        pos, st = new_int_array(self, st, "fpos", n)
        iv, pv = ArrV(self, idx, st.heap), ArrV(self, pos, st.heap)
        S = self.S
        self.assumptions.add("library model: a filtering list comprehension keeps exactly the elements satisfying its condition, in order")
        st = st.assume(z3.And(m >= 0, m <= n))
        st = st.assume(S.forall(0, m, lambda j: z3.And(0 <= iv.at(j), iv.at(j) < n, cond(iv.at(j)),
                                                       z3.Select(items, j) == z3.Select(src_items, iv.at(j)))))
        st = st.assume(S.forall2(0, m, 0, m, lambda i, j: z3.Implies(i < j, iv.at(i) < iv.at(j))))
        st = st.assume(S.forall(0, n, lambda i: z3.Implies(cond(i), z3.And(0 <= pv.at(i), pv.at(i) < m, iv.at(pv.at(i)) == i))))
        # a consequence of the three facts above, stated directly (it gives the solver the witness position):
        # every source element satisfying the condition occurs in the result
        if S.finite is None:
            qi = z3.Int("flt_i")
            st = st.assume(z3.ForAll([qi], z3.Implies(z3.And(0 <= qi, qi < n, cond(qi)),
                                                      z3.And(0 <= pv.at(qi), pv.at(qi) < m,
                                                             z3.Select(items, pv.at(qi)) == z3.Select(src_items, qi))),
                                     patterns=[z3.Select(src_items, qi)]))
        return k(Ref(base, "list"), st)

    def comp_ordinal(self, e):
        """1-based ordinal of a comprehension among the comprehensions of the current function (source order)."""
        fn, _ = find_function(self.cur.file, self.cur.qualname)
        comps = [n for n in ast.walk(fn) if isinstance(n, (ast.ListComp, ast.DictComp, ast.SetComp, ast.GeneratorExp))]
        comps.sort(key=lambda n: (n.lineno, n.col_offset))
        for i, n in enumerate(comps):
            if (n.lineno, n.col_offset) == (e.lineno, e.col_offset):
                return i + 1
        return 0

    def ev_Lambda(self, e, st, fr, k):
        return k(Closure(e, st.env), st)

    def ev_Dict(self, e, st, fr, k):
        if any(key is None for key in e.keys):
            # {**a, "x": v}: merge literal dicts
            def cont(vals, s):
                out = {}
                for key, v in zip(e.keys, vals):
                    if key is None:
                        if not isinstance(v, dict):
                            raise Unsupported("** of non-literal dict")
                        out.update(v)
                    else:
                        out[key.value] = v
                return k(out, s)
            return self.ev_list(e.values, st, fr, cont)
        if not all(isinstance(key, ast.Constant) and isinstance(key.value, str) for key in e.keys):
            # computed keys: a literal kept as a list of (key, value) pairs (consumed by store hooks)
            def cont2(vals, s):
                n = len(e.keys)
                return k(DictLit(list(zip(vals[:n], vals[n:]))), s)
            return self.ev_list(list(e.keys) + list(e.values), st, fr, cont2)

        def cont(vals, s):
            return k({key.value: v for key, v in zip(e.keys, vals)}, s)
        return self.ev_list(e.values, st, fr, cont)

    # =================================================================================
    # statements (CPS): ex(stmts, st, fr, k) ; k(st)
    # =================================================================================
    def ex(self, stmts, st, fr, k):
        if not stmts:
            return k(st)
        s0, rest = stmts[0], stmts[1:]
        self.cur_line = s0.lineno
        m = getattr(self, "ex_" + type(s0).__name__, None)
        if m is None:
            raise Unsupported(f"statement {type(s0).__name__} at line {s0.lineno}")
        return m(s0, st, fr, lambda s: self.ex(rest, s, fr, k))

    def ex_Pass(self, s, st, fr, k):
        return k(st)

    def ex_Expr(self, s, st, fr, k):
        if isinstance(s.value, ast.Constant):
            return k(st)  # docstring
        return self.ev(s.value, st, fr, lambda v, s2: k(s2))

    def ex_Assign(self, s, st, fr, k):
        def cont(v, s1):
            def go(ts, s2):
                if not ts:
                    return k(s2)
                return self.assign(ts[0], v, s2, fr, lambda s3: go(ts[1:], s3), s)
            return go(s.targets, s1)
        return self.ev(s.value, st, fr, cont)

    def ex_AnnAssign(self, s, st, fr, k):
        if s.value is None:
            return k(st)
        return self.ev(s.value, st, fr, lambda v, s1: self.assign(s.target, v, s1, fr, k, s))

    def materialize(self, vec, st, hint="vec"):
        """Store a lazy element-wise vector into a fresh heap array (``x = a * b`` makes a new array)."""
        base = self.new_base(hint)
        probe = vec.fn(z3.IntVal(0))
        sort = "bool" if z3.is_bool(probe) else ("real" if z3.is_real(probe) else "int")
        cell = {"#sorts": {"": sort}}
        st = St(st.env, {**st.heap, base: cell}, st.pc, st.ghost)
        arr = self.heap_field(st.heap, base, "")
        n = vec.n
        st = st.assume(self.S.forall(0, n, lambda i: z3.Select(arr, i) == vec.fn(i)))
        return Arr(base, "", z3.IntVal(0), n), st

    def assign(self, tgt, v, st, fr, k, node):
        if isinstance(v, tuple) and len(v) == 3 and v[0] == "#list_extend":
            # ``L = L + [x, ...]`` / ``L += [x, ...]``: a new list with the elements appended
            _, ref, extra = v
            cell = st.heap[ref.base]
            base = self.new_base("list")
            items, n = cell["items"], cell["n"]
            for x in extra:
                items = z3.Store(items, n, self.to_sort(x, items.range()))
                n = n + 1
            st = St(st.env, {**st.heap, base: {"n": n, "items": items}}, st.pc, st.ghost)
            v = Ref(base, "list")
        if isinstance(tgt, ast.Name):
            if isinstance(v, Vec):
                v, st = self.materialize(v, st, tgt.id)
            if isinstance(v, dict) and (self.cur.local_sorts if self.cur else {}).get(tgt.id) == "V":
                # a literal dict stored into a dynamically typed local: an opaque value with known items
                d = self.fresh("dict", "V")
                gi = z3.Function("getitem", V, V, V)
                for key, val in v.items():
                    st = st.assume(gi(d, self.to_v(key)) == self.to_v(val))
                v = Opq(d)
            want_l = (self.cur.local_sorts if self.cur else {}).get(tgt.id)
            if type(want_l).__name__ == "DictT" and isinstance(v, dict) and not v:
                # ``x = {}`` for a local declared as a symbolic dict: allocate an empty heap dict
                from . import dicts
                v, st = dicts.empty(self, tgt.id, want_l, st)
            if isinstance(want_l, ListT) and isinstance(v, list) and v and not isinstance(want_l.elem, (tuple, list)):
                # ``x = [a, b]`` for a local declared as a symbolic list: allocate a heap list with these items
                from .contract import make_symbolic
                base = self.new_base(tgt.id)
                ref, st = make_symbolic(self, base, want_l, st, set())
                items = st.heap[base]["items"]
                for j, x in enumerate(v):
                    items = z3.Store(items, j, self.to_sort(x, items.range()))
                st = st.with_cell(base, "n", z3.IntVal(len(v))).with_cell(base, "items", items)
                v = ref
            if isinstance(want_l, ListT) and isinstance(v, list) and not v:
                # ``x = []`` for a local declared as a symbolic list: allocate an empty heap list
                from .contract import make_symbolic
                base = self.new_base(tgt.id)
                ref, st = make_symbolic(self, base, want_l, st, set())
                st = st.with_cell(base, "n", z3.IntVal(0))
                v = ref
            if isinstance(v, Closure) and (self.cur.local_sorts if self.cur else {}).get(tgt.id) == "V":
                c = self.fresh("function", "V")
                st = st.assume(truthy(c))       # a function object is truthy
                v = Opq(c)
            v = self.coerce_local(tgt.id, v)
            return k(st.bind(tgt.id, v))
        if isinstance(tgt, (ast.Tuple, ast.List)):
            if isinstance(v, RowVec):
                # ``a, b = arr2d[i]``: unpacking one row of a plain 2-D array; its width must be the number of targets
                w = v.n
                self.oblige("safety", "row unpacked into as many names as it has columns", st,
                            w == len(tgt.elts), node)
                arr2 = self.heap_field(st.heap, v.base, v.field)
                v = tuple(sel2(arr2, v.idx, v.lo + j) for j in range(len(tgt.elts)))
            if isinstance(v, Opq):
                gi = z3.Function("getitem", V, V, V)
                v = tuple(Opq(gi(v.t, int2v(z3.IntVal(i)))) for i in range(len(tgt.elts)))
            if not isinstance(v, (tuple, list)) or len(v) != len(tgt.elts):
                raise Unsupported("unpacking of a non-tuple value")

            def go(i, s):
                if i == len(tgt.elts):
                    return k(s)
                return self.assign(tgt.elts[i], v[i], s, fr, lambda s2: go(i + 1, s2), node)
            return go(0, st)
        if isinstance(tgt, ast.Attribute):
            return self.ev(tgt.value, st, fr, lambda obj, s: self.setattr(obj, tgt.attr, v, s, fr, k, node))
        if isinstance(tgt, ast.Subscript) and self.cur is not None and dotted_name(tgt.value) in self.cur.store_hooks:
            h = self.cur.store_hooks[dotted_name(tgt.value)]

            def hooked(key, s1):
                out = h(self, s1, key, v, node)
                if isinstance(out, tuple) and out and out[0] == "raise":
                    return fr.on_raise(out[1], out[2])       # the store itself raises (e.g. item assignment on a tuple)
                return k(out)
            return self.ev(tgt.slice, st, fr, hooked)
        if isinstance(tgt, ast.Subscript) and isinstance(tgt.value, (ast.Name, ast.Attribute)):
            # ``d[key] = v`` on a literal dict held by value: rebind the location to the updated dict
            def try_dict(base, s):
                if not isinstance(base, dict):
                    return None
                def with_key(key, s2):
                    if not isinstance(key, str):
                        raise Unsupported("store into a literal dict with a non-constant key")
                    new = dict(base)
                    new[key] = v
                    return self.assign(tgt.value, new, s2, fr, k, node)
                return self.ev(tgt.slice, s, fr, with_key)
            probe = []
            self.ev(tgt.value, st, fr, lambda b, s: probe.append((b, s)))
            if len(probe) == 1 and isinstance(probe[0][0], dict):
                return try_dict(*probe[0])
        if isinstance(tgt, ast.Subscript):
            def cont(base, s):
                if isinstance(base, tuple):
                    # item assignment on a tuple: Python raises TypeError
                    return fr.on_raise(Exc("TypeError", origin="stmt"), s)
                if isinstance(tgt.slice, ast.Slice):
                    def got(vals, s2):
                        return self.store_slice(base, vals[0], vals[1], v, s2, k, node)
                    return self.ev_opt_list([tgt.slice.lower, tgt.slice.upper], s, fr, got)
                return self.ev(tgt.slice, s, fr, lambda idx, s2: self.store(base, idx, v, s2, k, node))
            return self.ev(tgt.value, st, fr, cont)
        raise Unsupported(f"assignment target {type(tgt).__name__}")

    def coerce_local(self, name, v):
        ls = self.cur.local_sorts if self.cur else {}
        want = ls.get(name)
        if isinstance(want, ListT):
            return v
        if want == "V" and not isinstance(v, Opq):
            return Opq(self.to_v(v))
        return v

    def setattr(self, obj, attr, v, st, fr, k, node):
        if isinstance(obj, Ref) and obj.kind == "obj":
            cell = st.heap[obj.base]
            setters = cell.get("#setters", {})
            if attr in setters:
                return setters[attr](self, obj, v, st, fr, k, node)
            decl = cell.get("#decl", {})
            if attr in decl and decl[attr] == "V" and not isinstance(v, Opq):
                v = Opq(self.to_v(v))
            return k(st.with_cell(obj.base, attr, v))
        hooks = self.cur.store_hooks if self.cur is not None else {}
        h = hooks.get("attr:" + attr, hooks.get("attr:*"))
        if h is not None and isinstance(obj, Opq):
            # attribute store on an opaque object: only what the contract's hook records of it is tracked
            return k(h(self, st, obj, v, node))
        raise Unsupported(f"attribute store on {type(obj).__name__}")

    def store(self, base, idx, v, st, k, node):
        if isinstance(base, Arr):
            if isinstance(idx, tuple):
                i, j = self.to_int(idx[0]), self.to_int(idx[1])
                self.oblige("safety", "store index in range", st, z3.And(0 <= i, i < base.n), node)
                if base.ncols is not None and not isinstance(base.ncols, str):
                    self.oblige("safety", "store column in range", st, z3.And(0 <= j, j < base.ncols), node)
                arr = self.heap_field(st.heap, base.base, base.field)
                return k(st.with_cell(base.base, base.field, sto2(arr, base.lo + i, j, self.num(v, arr.range().range()))))
            if isinstance(idx, str):
                raise Unsupported("whole-column store")
            if base.field is None:
                # ``dst[i] = src[j]``: a whole structured row is copied, field by field (both arrays must declare the same fields)
                if not isinstance(v, Row):
                    raise Unsupported("whole-row store of a non-row value")
                i = self.to_int(idx)
                ii = self.norm_index(i, base.n)
                self.oblige("safety", "store index in range", st, z3.And(0 <= ii, ii < base.n), node)
                dst_sorts = st.heap[base.base].get("#sorts", {})
                src_sorts = st.heap[v.base].get("#sorts", {})
                if dict(dst_sorts) != dict(src_sorts):
                    raise Unsupported("whole-row store between arrays of different declared dtypes")
                for f in dst_sorts:
                    src = self.heap_field(st.heap, v.base, f)
                    dst = self.heap_field(st.heap, base.base, f)
                    st = st.with_cell(base.base, f, z3.Store(dst, base.lo + ii, z3.Select(src, v.idx)))
                return k(st)
            i = self.to_int(idx)
            ii = self.norm_index(i, base.n)
            self.oblige("safety", "store index in range", st, z3.And(0 <= ii, ii < base.n), node)
            arr = self.heap_field(st.heap, base.base, base.field)
            return k(st.with_cell(base.base, base.field, z3.Store(arr, base.lo + ii, self.num(v, arr.range()))))
        if isinstance(base, Row):
            if not isinstance(idx, str):
                raise Unsupported("row store by non-string")
            arr = self.heap_field(st.heap, base.base, idx)
            if self.field_sort(base.base, idx, st.heap).endswith("2"):
                raise Unsupported("store of a whole 2-D field")
            return k(st.with_cell(base.base, idx, z3.Store(arr, base.idx, self.num(v, arr.range()))))
        if isinstance(base, RowVec):
            i = self.to_int(idx)
            ii = self.norm_index(i, base.n)
            self.oblige("safety", "sample store index in range", st, z3.And(0 <= ii, ii < base.n), node)
            arr = self.heap_field(st.heap, base.base, base.field)
            return k(st.with_cell(base.base, base.field,
                                  sto2(arr, base.idx, base.lo + ii, self.num(v, arr.range().range()))))
        if isinstance(base, Ref) and base.kind == "dict":
            if "keys" in st.heap[base.base]:
                from . import dicts
                return k(dicts.store(self, base, idx, v, st))
            return k(self.dict_store(base, idx, v, st))
        if isinstance(base, Ref) and base.kind == "list":
            cell = st.heap[base.base]
            i = self.to_int(idx)
            ii = self.norm_index(i, cell["n"])
            self.oblige("safety", "list store index in range", st, z3.And(0 <= ii, ii < cell["n"]), node)
            return k(st.with_cell(base.base, "items", z3.Store(cell["items"], ii, self.to_sort(v, cell["items"].range()))))
        raise Unsupported(f"store into {type(base).__name__}")

    def dict_store(self, ref, key, v, st):
        cell = st.heap[ref.base]
        kv = self.to_v(key)
        st = st.with_cell(ref.base, "dom", z3.Store(cell["dom"], kv, True))
        vs = cell.get("#vsort", "V")
        if isinstance(vs, dict):
            if not isinstance(v, dict):
                raise Unsupported("record dict store of non-record")
            for f in vs:
                st = st.with_cell(ref.base, "val:" + f, z3.Store(st.heap[ref.base]["val:" + f], kv,
                                                                 self.to_sort(v[f], zsort(vs[f]))))
            return st
        return st.with_cell(ref.base, "val", z3.Store(cell["val"], kv, self.to_sort(v, zsort(vs))))

    def to_sort(self, v, sort):
        if sort == V:
            return self.to_v(v)
        if sort == z3.BoolSort():
            return self.truth(v)
        return self.num(v, sort)

    def num(self, v, sort):
        t = self.to_int(v)
        if sort == z3.RealSort() and z3.is_int(t):
            return z3.ToReal(t)
        if sort == z3.IntSort() and z3.is_real(t):
            raise Unsupported("real stored into int array")
        return t

    def store_slice(self, base, lo, hi, v, st, k, node):
        """x[lo:hi] = scalar  (broadcast store) on RowVec / column."""
        if isinstance(base, RowVec) and isinstance(v, RowVec):
            # r1['data'][a:b] = r2['data'][c:d]: sample-wise copy between two waveform slices; numpy demands equal lengths
            a, ln = self.norm_slice(lo, hi, base.n)
            self.oblige("safety", "the slice copied has the length of the slice it is copied into", st, v.n == ln, node)
            arr = self.heap_field(st.heap, base.base, base.field)
            src = self.heap_field(st.heap, v.base, v.field)
            new = self.fresh(f"{base.base}.{base.field}", arr.sort())
            i, j = z3.Ints("sci scj")
            inside = z3.And(i == base.idx, base.lo + a <= j, j < base.lo + a + ln)
            ax = z3.ForAll([i, j], sel2(new, i, j) == z3.If(inside, sel2(src, v.idx, v.lo + (j - base.lo - a)), sel2(arr, i, j)),
                           patterns=[sel2(new, i, j)])
            if self.S.finite is not None:
                raise Unsupported("slice store in finite mode")
            return k(st.with_cell(base.base, base.field, new).assume(ax))
        if isinstance(base, RowVec):
            a, ln = self.norm_slice(lo, hi, base.n)
            arr = self.heap_field(st.heap, base.base, base.field)
            val = self.num(v, arr.range().range())
            # new array: pointwise update inside [a, a+ln) of row idx
            new = self.fresh(f"{base.base}.{base.field}", arr.sort())
            i, j = z3.Ints("si sj")
            inside = z3.And(i == base.idx, base.lo + a <= j, j < base.lo + a + ln)
            ax = z3.ForAll([i, j], sel2(new, i, j) == z3.If(inside, val, sel2(arr, i, j)))
            if self.S.finite is not None:
                raise Unsupported("slice store in finite mode")
            s2 = st.with_cell(base.base, base.field, new)
            return k(s2.assume(ax))
        if isinstance(base, Arr) and base.field is not None and base.ncols is None and isinstance(v, Vec):
            # x[lo:hi] = <vector>: numpy demands equal lengths (ValueError otherwise, an obligation here); element-wise copy
            a, ln = self.norm_slice(lo, hi, base.n)
            self.oblige("safety", "the vector stored has the length of the slice it is stored into", st, v.n == ln, node)
            arr = self.heap_field(st.heap, base.base, base.field)
            new = self.fresh(f"{base.base}.{base.field}", arr.sort())
            j = z3.Int("ssj")
            inside = z3.And(base.lo + a <= j, j < base.lo + a + ln)
            ax = z3.ForAll([j], z3.Select(new, j) == z3.If(inside, self.num(v.fn(j - base.lo - a), arr.range()), z3.Select(arr, j)),
                           patterns=[z3.Select(new, j)])
            if self.S.finite is not None:
                raise Unsupported("slice store in finite mode")
            return k(st.with_cell(base.base, base.field, new).assume(ax))
        raise Unsupported(f"slice store into {type(base).__name__}")

    def ex_AugAssign(self, s, st, fr, k):
        load = _as_load(s.target)

        def cont(vs, s1):
            cur, v = vs
            return self.assign(s.target, self.binop(s.op, cur, v, s1, s), s1, fr, k, s)
        return self.ev_list([load, s.value], st, fr, cont)

    def ex_If(self, s, st, fr, k):
        def cont(c, s1):
            c = self.truth(c)
            c = z3.simplify(c)
            if z3.is_true(c):
                return self.ex(s.body, s1, fr, k)
            if z3.is_false(c):
                return self.ex(s.orelse, s1, fr, k)
            for branch, cond in ((s.body, c), (s.orelse, z3.Not(c))):
                if self.known_false(cond, s1):
                    continue
                n_vcs = len(self.vcs)
                try:
                    self.ex(branch, s1.assume(cond), fr, k)
                except Unsupported as ex_:
                    # a construct outside the subset on a path that cannot be taken is harmless
                    if getattr(ex_, "feasible_checked", False) or not self.infeasible(s1.assume(cond)):
                        ex_.feasible_checked = True   # an enclosing (weaker) path condition is feasible as well
                        raise
                    del self.vcs[n_vcs:]
        return self.ev(s.test, st, fr, cont)

    def known_false(self, cond, st):
        """Cheap syntactic pruning: the negation of ``cond`` is literally on the path condition."""
        neg = z3.simplify(z3.Not(cond))
        for h in st.pc[-40:]:
            if h.eq(neg) or z3.simplify(h).eq(neg):
                return True
        return False

    def infeasible(self, st):
        s = z3.Solver()
        s.set("timeout", 3000)
        s.set("rlimit", 20000000)   # deterministic resource bound: z3 does not always honour the wall-clock timeout
        for h in st.pc:
            s.add(h)
        for a in str_axioms():
            s.add(a)
        return s.check() == z3.unsat

    def ex_Return(self, s, st, fr, k):
        if s.value is None:
            return fr.on_return(PNONE, st)
        return self.ev(s.value, st, fr, lambda v, s1: fr.on_return(v, s1))

    def ex_Raise(self, s, st, fr, k):
        if s.exc is None:
            cur = st.ghost.get("#handling")
            if cur is None:
                raise Unsupported("bare raise outside handler")
            return fr.on_raise(cur, st)
        exc = s.exc
        if isinstance(exc, ast.Call):
            name = dotted_name(exc.func)
            if name is None:
                raise Unsupported("raise of computed exception")
            if name.endswith(".with_traceback") and name.split(".")[0] in st.env:
                # ``raise exc.with_traceback(tb)``: the same exception object
                return self.ev(exc.func.value, st, fr,
                               lambda v, s1: fr.on_raise(v if isinstance(v, Exc) else Exc("Any", v, origin="stmt"), s1))
            if name.split(".")[-1] not in EXC_PARENT and name.split(".")[0] in st.env:
                # ``raise obj.method()``: the raised object is the value of the call
                return self.ev(exc, st, fr, lambda v, s1: fr.on_raise(v if isinstance(v, Exc) else Exc("Any", v, origin="stmt"), s1))
            cls = name.split(".")[-1]
            # evaluate arguments that are plain names (e.g. MailboxKilled(self.killed_because))
            def cont(args, s1):
                return fr.on_raise(Exc(cls, tuple(args), origin="stmt"), s1)
            simple = [a for a in exc.args if not isinstance(a, (ast.JoinedStr, ast.Constant, ast.BinOp))]
            return self.ev_list(simple, st, fr, cont)
        name = dotted_name(exc)
        if name is not None and name.split(".")[-1] in EXC_PARENT and name not in st.env:
            return fr.on_raise(Exc(name.split(".")[-1], origin="stmt"), st)
        # raise of a value held in a variable
        return self.ev(exc, st, fr, lambda v, s1: fr.on_raise(v if isinstance(v, Exc) else Exc("Any", v), s1))

    def ex_Assert(self, s, st, fr, k):
        def cont(c, s1):
            if isinstance(c, Vec):
                raise Unsupported("assert on vector")
            c = self.truth(c)
            fr.on_raise(Exc("AssertionError"), s1.assume(z3.Not(c)))
            return k(s1.assume(c))
        return self.ev(s.test, st, fr, cont)

    def ex_Break(self, s, st, fr, k):
        return fr.brk(st)

    def ex_Continue(self, s, st, fr, k):
        return fr.cont(st)

    def ex_FunctionDef(self, s, st, fr, k):
        return k(st.bind(s.name, Closure(s, st.env, s.name)))

    def ex_Global(self, s, st, fr, k):
        return k(st)

    ex_Nonlocal = ex_Global

    def ex_Delete(self, s, st, fr, k):
        hooks = self.cur.store_hooks if self.cur else {}
        for t in s.targets:
            if isinstance(t, ast.Subscript) and dotted_name(t.value) is not None and ("del:" + dotted_name(t.value)) in hooks:
                h = hooks["del:" + dotted_name(t.value)]
                return self.ev(t.slice, st, fr, lambda key, s1: k(h(self, s1, key, None, s)))
            if isinstance(t, ast.Subscript) and isinstance(t.value, ast.Name) and isinstance(st.env.get(t.value.id), dict) \
                    and isinstance(t.slice, ast.Constant) and isinstance(t.slice.value, str):
                # ``del d["key"]`` on a literal dict held by value
                d = dict(st.env[t.value.id])
                if t.slice.value not in d:
                    self.oblige("safety", "deleted key is present", st, z3.BoolVal(False), s)
                d.pop(t.slice.value, None)
                return self.assign(ast.Name(id=t.value.id, ctx=ast.Store()), d, st, fr, k, s)
        return k(st)

    def ex_Import(self, s, st, fr, k):
        return k(st)

    ex_ImportFrom = ex_Import

    def ex_With(self, s, st, fr, k):
        from . import library
        return library.with_stmt(self, s, st, fr, k)

    def ex_Try(self, s, st, fr, k):
        has_finally = bool(s.finalbody)

        def run_finally(st2, then):
            if not has_finally:
                return then(st2)
            return self.ex(s.finalbody, st2, fr, then)

        # continuation after the whole try statement
        def after(st2):
            return run_finally(st2, k)

        def outer_raise(exc, st2):
            # the finally block runs while ``exc`` propagates (sys.exc_info() is set)
            prev = st2.ghost.get("#propagating")
            st3 = St(st2.env, st2.heap, st2.pc, {**st2.ghost, "#propagating": exc})

            def done(s3):
                g = dict(s3.ghost)
                g["#propagating"] = prev
                return fr.on_raise(exc, St(s3.env, s3.heap, s3.pc, g))
            return run_finally(st3, done)

        fr_out = fr
        if has_finally:
            fr_out = fr.with_(
                on_return=lambda v, s2: run_finally(s2, lambda s3: fr.on_return(v, s3)),
                on_raise=outer_raise,
                brk=(lambda s2: run_finally(s2, fr.brk)) if fr.brk else None,
                cont=(lambda s2: run_finally(s2, fr.cont)) if fr.cont else None,
            )

        def dispatch(exc, st2):
            for h in s.handlers:
                names = handler_names(h)
                if names is None or any(exc_matches(exc, n) for n in names):
                    s3 = st2
                    if h.name:
                        s3 = s3.bind(h.name, exc)
                        s3 = self._exc_not_none(exc, s3)
                    s3 = St(s3.env, s3.heap, s3.pc, {**s3.ghost, "#handling": exc})

                    def done(s4, _prev=st2.ghost.get("#handling")):
                        g = dict(s4.ghost)
                        g["#handling"] = _prev
                        return after(St(s4.env, s4.heap, s4.pc, g))
                    return self.ex(h.body, s3, fr_out, done)
                if exc.cls == "Any" and names is not None and not any(n in exc.excluding for n in names):
                    # unknown exception class: it may or may not match; explore both
                    tag = self.fresh("exc_matches", "bool")
                    s_yes = st2.assume(tag)
                    s3 = self._exc_not_none(exc, s_yes.bind(h.name, exc)) if h.name else s_yes
                    s3 = St(s3.env, s3.heap, s3.pc, {**s3.ghost, "#handling": exc})
                    self.ex(h.body, s3, fr_out, after)
                    st2 = st2.assume(z3.Not(tag))
            return fr_out.on_raise(exc, st2)

        fr_body = fr_out.with_(on_raise=dispatch)
        return self.ex(s.body, st, fr_body, lambda s2: self.ex(s.orelse, s2, fr_out, after))

    # -- loops ----------------------------------------------------------------------
    def ex_While(self, s, st, fr, k):
        from . import loops
        return loops.while_loop(self, s, st, fr, k)

    def ex_For(self, s, st, fr, k):
        from . import loops
        return loops.for_loop(self, s, st, fr, k)


class _UndecidedFilter(Exception):
    pass


class RowView:
    def __init__(self, eng, row, heap):
        self.eng, self.row, self.heap = eng, row, heap

    def f(self, field):
        return z3.Select(self.eng.heap_field(self.heap, self.row.base, field), self.row.idx)


# ------------------------------------------------------------------------------------
# helpers
# ------------------------------------------------------------------------------------
def _is_z3(x):
    return isinstance(x, z3.ExprRef)


def sel2(arr, i, j):
    return z3.Select(z3.Select(arr, i), j)


def sto2(arr, i, j, v):
    return z3.Store(arr, i, z3.Store(z3.Select(arr, i), j, v))


def _is_boolish(x):
    return isinstance(x, bool) or (_is_z3(x) and z3.is_bool(x))


def _const_int(x):
    if isinstance(x, bool):
        return int(x)
    if isinstance(x, int):
        return x
    if _is_z3(x) and z3.is_int(x):
        x = z3.simplify(x)
        if z3.is_int_value(x):
            return x.as_long()
    return None


def dotted_name(e):
    parts = []
    while isinstance(e, ast.Attribute):
        parts.append(e.attr)
        e = e.value
    if isinstance(e, ast.Name):
        parts.append(e.id)
        return ".".join(reversed(parts))
    if isinstance(e, ast.Call) and isinstance(e.func, ast.Name) and e.func.id == "super" and not e.args and parts:
        parts.append("super()")
        return ".".join(reversed(parts))
    return None


def handler_names(h):
    if h.type is None:
        return None
    if isinstance(h.type, ast.Tuple):
        return [dotted_name(x).split(".")[-1] for x in h.type.elts]
    return [dotted_name(h.type).split(".")[-1]]


def exc_matches(exc, name):
    if exc.cls == "Any":
        return name in ("Exception", "BaseException")
    return exc_is_subclass(exc.cls, name)


def _as_load(t):
    import copy
    t2 = copy.deepcopy(t)
    for n in ast.walk(t2):
        if hasattr(n, "ctx"):
            n.ctx = ast.Load()
    return t2


def normalize_clauses(clauses):
    """Accept a formula, a list of formulas, or a list of (label, formula)."""
    if clauses is None:
        return []
    if not isinstance(clauses, (list, tuple)) or (
            isinstance(clauses, tuple) and len(clauses) == 2 and isinstance(clauses[0], str)):
        clauses = [clauses]
    out = []
    for i, c in enumerate(clauses):
        if isinstance(c, tuple) and len(c) == 2 and isinstance(c[0], str):
            out.append(c)
        else:
            out.append((f"#{i + 1}", c))
    return out
