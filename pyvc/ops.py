"""Specification operators with two interpretations.

Contract clauses (requires / ensures / invariants) are ordinary Python functions
``lambda S, a: ...`` written against this small API.  The *same* clause object is
evaluated

* symbolically (``SymOps``): values are z3 terms / array views, quantifiers become z3
  quantifiers (or finite conjunctions in the finite-refuter mode), and
* concretely (``ConcOps``): values are Python ints / numpy-backed views, quantifiers are
  loops.  This is what the replay harness and the bounded stand-ins use on the real code.

Clauses must therefore use ``S.And/Or/Not/Implies/If/forall/exists/...`` instead of the
Python keywords, and access arrays only through the view API (``x.n``, ``x.at(j)``,
``x.f(field, j)``, ``x.at2(j, k)``, ``x.f2(field, j, k)``).
"""

import itertools

try:  # the concrete interpretation must work without z3
    import z3
except Exception:  # pragma: no cover
    z3 = None


class Namespace:
    """Attribute bag handed to clauses as ``a``."""

    def __init__(_ns_self, _d=None, **kw):
        if _d:
            _ns_self.__dict__.update(_d)
        _ns_self.__dict__.update(kw)

    def __getattr__(self, k):  # only called when missing
        raise BindingError(k)

    def _has(self, k):
        return k in self.__dict__


if z3 is not None:
    def psum_fn(arr):
        return z3.Function("psum:" + str(arr)[:80], z3.IntSort(), z3.RealSort())

    VT = z3.Function("VT", z3.IntSort(), z3.BoolSort())

    def vt_axiom():
        x = z3.Int("vt_x")
        return z3.ForAll([x], VT(x), patterns=[VT(x)])


class BindingError(Exception):
    """A clause mentions a name that does not exist (any more) in the real function."""


# --------------------------------------------------------------------------------------
# symbolic
# --------------------------------------------------------------------------------------
class SymOps:
    symbolic = True

    def __init__(self, finite=None, grid=None):
        # finite = B: expand index quantifiers over range(B) (finite refuter)
        # grid = (lo, hi): expand value quantifiers over range(lo, hi)
        self.finite = finite
        self.grid = grid
        self._n = 0

    # -- propositional
    def And(self, *xs):
        xs = _flat(xs)
        xs = [self.b(x) for x in xs]
        if not xs:
            return z3.BoolVal(True)
        return z3.And(*xs) if len(xs) > 1 else xs[0]

    def Or(self, *xs):
        xs = _flat(xs)
        xs = [self.b(x) for x in xs]
        if not xs:
            return z3.BoolVal(False)
        return z3.Or(*xs) if len(xs) > 1 else xs[0]

    def Not(self, x):
        return z3.Not(self.b(x))

    def Implies(self, a, b):
        return z3.Implies(self.b(a), self.b(b))

    def Iff(self, a, b):
        return self.b(a) == self.b(b)

    def If(self, c, a, b):
        c = self.b(c)
        if isinstance(a, bool):
            a = z3.BoolVal(a)
        if isinstance(b, bool):
            b = z3.BoolVal(b)
        if isinstance(a, int):
            a = z3.IntVal(a)
        if isinstance(b, int):
            b = z3.IntVal(b)
        return z3.If(c, a, b)

    def b(self, x):
        if isinstance(x, bool):
            return z3.BoolVal(x)
        if z3.is_bool(x):
            return x
        if isinstance(x, int):
            return z3.BoolVal(x != 0)
        if z3.is_arith(x):
            return x != 0
        raise TypeError(f"not a formula: {x!r}")

    def max(self, a, b):
        return z3.If(a >= b, a, b)

    def min(self, a, b):
        return z3.If(a <= b, a, b)

    def abs(self, a):
        return z3.If(a >= 0, a, -a)

    def int(self, v):
        return z3.IntVal(v) if isinstance(v, int) else v

    # -- quantifiers over integer ranges [lo, hi)
    def _fresh(self, base):
        self._n += 1
        return z3.Int(f"{base}?{self._n}")

    def forall(self, lo, hi, fn, kind="index"):
        if self.finite is not None:
            return z3.And(
                *[
                    z3.Implies(z3.And(lo <= k, k < hi), self.b(fn(z3.IntVal(k))))
                    for k in self._dom(kind)
                ]
            )
        j = self._fresh("q")
        if kind == "value":
            # value-domain quantifiers have no array term to trigger on: give them the (always true)
            # marker predicate VT as E-matching pattern; VT(x) is axiomatised true in every VC.
            return z3.ForAll([j], z3.Implies(z3.And(lo <= j, j < hi, VT(j)), self.b(fn(j))), patterns=[VT(j)])
        return z3.ForAll([j], z3.Implies(z3.And(lo <= j, j < hi), self.b(fn(j))))

    def exists(self, lo, hi, fn, kind="index"):
        if self.finite is not None:
            return z3.Or(
                *[z3.And(lo <= k, k < hi, self.b(fn(z3.IntVal(k)))) for k in self._dom(kind)]
            )
        j = self._fresh("e")
        return z3.Exists([j], z3.And(lo <= j, j < hi, self.b(fn(j))))

    def forall2(self, lo1, hi1, lo2, hi2, fn, kind="index"):
        return self.forall(
            lo1, hi1, lambda i: self.forall(lo2, hi2, lambda j: fn(i, j), kind), kind
        )

    def forall_val(self, lo, hi, fn):
        return self.forall(lo, hi, fn, kind="value")

    def exists_val(self, lo, hi, fn):
        return self.exists(lo, hi, fn, kind="value")

    def _dom(self, kind):
        if kind == "index":
            return range(0, self.finite + 1)
        lo, hi = self.grid
        return range(lo, hi)

    # -- uninterpreted / ghost functions shared by name
    def fun(self, name, *sorts):
        zs = [{"int": z3.IntSort(), "bool": z3.BoolSort(), "real": z3.RealSort()}.get(s, s) for s in sorts]
        return z3.Function(name, *zs)

    def is_slice(self, view, of, lo, n):
        """``view`` is the slice ``of[lo:lo+n]`` (a view on the same rows, no copy)."""
        if view.base != of.base:
            if getattr(self, "assuming", False):
                raise BindingError(f"is_slice over different arrays ({view.base}, {of.base}) in an assumed clause")
            return z3.BoolVal(False)
        return z3.And(view.n == n, z3.Or(n == 0, view.lo == of.lo + lo))

    def eq_str(self, x, lit):
        """x == "lit" for a value that is a Python string (or an opaque value)."""
        from .engine import strv
        if isinstance(x, str):
            return z3.BoolVal(x == lit)
        return x == strv(lit)

    def call(self, name, *args, sort="V"):
        """Pure external function, uninterpreted: the same symbol the engine uses for an abstracted call."""
        from .engine import V, Opq
        vs = [self.v(x) for x in args]
        rs = {"V": V, "int": z3.IntSort(), "bool": z3.BoolSort()}[sort]
        return z3.Function("fn:" + name, *([V] * len(vs) + [rs]))(*vs)

    def v(self, x):
        """Lift a clause-level value into the universal sort."""
        return self.eng.to_v(x) if not (isinstance(x, z3.ExprRef) and x.sort().name() == "V") else x

    def is_instance(self, x, key):
        """isinstance(x, <classes named in key, '|'-separated>)"""
        from .engine import V
        if isinstance(x, z3.ExprRef) and z3.is_int(x):
            return z3.BoolVal(any(n in ("int", "np.integer") for n in key.split("+")))
        if isinstance(x, int) and not isinstance(x, bool):
            return z3.BoolVal(any(n in ("int", "np.integer") for n in key.split("+")))
        return z3.Function("isinstance:" + key, V, z3.BoolSort())(self.v(x))

    def to_int(self, x):
        from .engine import v2int
        if isinstance(x, int):
            return z3.IntVal(x)
        if z3.is_int(x):
            return x
        return v2int(x)

    def arr_dtype(self, view):
        from .engine import V
        return z3.Function("dtype_of", V, V)(z3.Const("arr:" + view.base, V))

    def is_none(self, x):
        from .engine import NONE, PNONE
        if x is PNONE or x is None:
            return z3.BoolVal(True)
        if isinstance(x, z3.ExprRef) and x.sort().name() == "V":
            return x == NONE
        return z3.BoolVal(False)

    def truthy(self, x):
        return self.eng.truth(x if not (isinstance(x, z3.ExprRef) and x.sort().name() == "V") else __import__("pyvc.engine", fromlist=["Opq"]).Opq(x))

    def eq(self, x, y):
        """Python == on clause-level values of possibly different representation."""
        from .engine import Opq
        wrap = lambda t: Opq(t) if isinstance(t, z3.ExprRef) and t.sort().name() == "V" else t
        return self.eng.equal(wrap(x), wrap(y))

    def psum(self, view, k):
        """Ghost prefix sum of a 1-D array view: sum of its first k elements (defined by unfolding axioms)."""
        arr = view._field(view.arr.field)
        f = psum_fn(arr)
        return f(view.arr.lo + k) - f(view.arr.lo)

    def psum_axioms(self, view):
        arr = view._field(view.arr.field)
        f = psum_fn(arr)
        j = self._fresh("ps")
        sel = z3.Select(arr, j)
        return z3.ForAll([j], f(j + 1) == f(j) + (z3.ToReal(sel) if z3.is_int(sel) else sel), patterns=[f(j + 1), sel])

    # -- dicts (heap dicts with key sequence, see pyvc/dicts.py)
    def has(self, d, r):
        return d.has(self.v(r))

    def field(self, d, r, f):
        return d.field(self.v(r), f)

    def pos(self, d, r):
        return d.pos(self.v(r))

    def forall_key(self, fn, *dicts):
        """for every possible key (the dicts name the finite universe for the concrete evaluation)"""
        from .engine import V
        self._n += 1
        r = z3.Const(f"key?{self._n}", V)
        return z3.ForAll([r], self.b(fn(r)))

    def getitem(self, x, key):
        from .engine import V
        return z3.Function("getitem", V, V, V)(self.v(x), self.v(key))

    def attr(self, x, name):
        from .engine import V
        return z3.Function("attr_" + name, V, V)(self.v(x))

    def int_valued(self, x):
        """x is an integer value (x == int(x))"""
        from .engine import int2v, v2int
        return self.v(x) == int2v(v2int(self.v(x)))

    def iter_elem(self, it, j):
        """j-th element produced by iterating over an opaque iterable"""
        from .engine import V
        return z3.Function("iter_elem", V, z3.IntSort(), V)(self.v(it), j)

    def iter_len(self, it):
        from .engine import V
        return z3.Function("len", V, z3.IntSort())(self.v(it))

    def contains(self, container, item):
        from .engine import V
        return z3.Function("contains", V, V, z3.BoolSort())(self.v(container), self.v(item))

    def same_array(self, r, x):
        """Python-level: r is (a view of) the very array x, not a freshly built one."""
        return r.base == x.base

    def is_filter(self, r, x, pred):
        """r holds exactly the rows of x that satisfy pred(i), in order (boolean-mask indexing).
        Stated through the ghost index maps the mask-indexing model attaches to r."""
        from .engine import ArrV
        maps = self.eng.filter_of.get(r.base)
        if maps is None or maps[0] != x.base:
            raise BindingError(f"{r.base} is not known to be a filter of {x.base}")
        _, idx, pos = maps
        idx, pos = ArrV(self.eng, idx, r.heap), ArrV(self.eng, pos, r.heap)
        return z3.And(
            self.forall(0, r.n, lambda j: z3.And(0 <= idx.at(j), idx.at(j) < x.n, self.b(pred(idx.at(j))))),
            self.forall2(0, r.n, 0, r.n, lambda i, j: z3.Implies(i < j, idx.at(i) < idx.at(j))),
            self.forall(0, x.n, lambda i: z3.Implies(self.b(pred(i)), z3.And(0 <= pos.at(i), pos.at(i) < r.n,
                                                                          idx.at(pos.at(i)) == i))))

    def filter_index(self, r, j):
        """index in the source array of row j of a filtered array (ghost)."""
        from .engine import ArrV
        _, idx, pos = self.eng.filter_of[r.base]
        return ArrV(self.eng, idx, r.heap).at(j)

    def inverse_perm(self, perm):
        """Ghost inverse of a sorting permutation produced by the argsort model / contract."""
        from .engine import ArrV
        inv = self.eng.inv_of.get(perm.base)
        if inv is None:
            raise BindingError(f"no ghost inverse known for {perm.base}")
        return ArrV(self.eng, inv, perm.heap)

    true = property(lambda self: z3.BoolVal(True))
    false = property(lambda self: z3.BoolVal(False))


# --------------------------------------------------------------------------------------
# concrete
# --------------------------------------------------------------------------------------
class ConcOps:
    symbolic = False
    finite = None

    def And(self, *xs):
        return all(bool(x) for x in _flat(xs))

    def Or(self, *xs):
        return any(bool(x) for x in _flat(xs))

    def Not(self, x):
        return not bool(x)

    def Implies(self, a, b):
        return (not bool(a)) or bool(b)

    def Iff(self, a, b):
        return bool(a) == bool(b)

    def If(self, c, a, b):
        return a if c else b

    def b(self, x):
        return bool(x)

    def max(self, a, b):
        return a if a >= b else b

    def min(self, a, b):
        return a if a <= b else b

    def abs(self, a):
        return abs(a)

    def int(self, v):
        return int(v)

    def forall(self, lo, hi, fn, kind="index"):
        return all(bool(fn(j)) for j in range(int(lo), int(hi)))

    def exists(self, lo, hi, fn, kind="index"):
        return any(bool(fn(j)) for j in range(int(lo), int(hi)))

    def forall2(self, lo1, hi1, lo2, hi2, fn, kind="index"):
        return all(
            bool(fn(i, j))
            for i in range(int(lo1), int(hi1))
            for j in range(int(lo2), int(hi2))
        )

    forall_val = forall
    exists_val = exists
    true = True
    false = False

    def eq_str(self, x, lit):
        return x == lit

    def call(self, name, *args, sort="V"):
        import importlib
        parts = name.split(".")
        obj = importlib.import_module({"np": "numpy"}.get(parts[0], parts[0]))
        for p in parts[1:]:
            obj = getattr(obj, p)
        return obj(*[getattr(a, "arr", a) for a in args])

    def v(self, x):
        return x

    def is_instance(self, x, key):
        import numpy as np
        table = {"int": int, "np.integer": np.integer, "np.ndarray": np.ndarray, "dict": dict, "strax.Chunk": None}
        classes = []
        for n in key.split("+"):
            if n == "strax.Chunk":
                import strax
                classes.append(strax.Chunk)
            else:
                classes.append(table[n])
        x = getattr(x, "arr", x)
        if isinstance(x, bool) and int in classes and len(classes) <= 2:
            return True
        return isinstance(x, tuple(classes))

    def to_int(self, x):
        return int(x)

    def arr_dtype(self, view):
        return view.arr.dtype

    def is_none(self, x):
        return x is None

    def truthy(self, x):
        return bool(x)

    def eq(self, x, y):
        return x == y

    def has(self, d, r):
        return r in d

    def field(self, d, r, f):
        return d[r][f]

    def pos(self, d, r):
        return list(d).index(r)

    def forall_key(self, fn, *dicts):
        keys = []
        for d in dicts:
            for key in (d or {}):
                if key not in keys:
                    keys.append(key)
        return all(bool(fn(key)) for key in keys)

    def getitem(self, x, key):
        return x[key]

    def attr(self, x, name):
        return getattr(x, name)

    def int_valued(self, x):
        return x == int(x)

    def contains(self, container, item):
        return item in container

    def same_array(self, r, x):
        import numpy as np
        return r.arr is x.arr or (r.n == x.n and r.n > 0 and np.shares_memory(r.arr, x.arr))

    def is_filter(self, r, x, pred):
        want = [i for i in range(x.n) if bool(pred(i))]
        return r.n == len(want) and all(r.arr[j].tobytes() == x.arr[i].tobytes() for j, i in enumerate(want))

    def psum(self, view, k):
        return float(view.arr[: int(k)].sum())

    def psum_axioms(self, view):
        return True

    def inverse_perm(self, perm):
        import numpy as np
        a = np.asarray(perm.arr)
        inv = np.full(len(a), -1, dtype=np.int64)
        for i, p in enumerate(a):
            if 0 <= p < len(a):
                inv[p] = i
        return CArr(inv)

    def is_slice(self, view, of, lo, n):
        import numpy as np
        lo, n = int(lo), int(n)
        if view.n != n:
            return False
        want = of.arr[lo:lo + n]
        return bool(view.arr.dtype == want.dtype and view.arr.tobytes() == want.tobytes())


def _flat(xs):
    out = []
    for x in xs:
        if isinstance(x, (list, tuple)):
            out.extend(_flat(x))
        else:
            out.append(x)
    return out


# --------------------------------------------------------------------------------------
# concrete array views (same API as the symbolic ArrV of the engine)
# --------------------------------------------------------------------------------------
class CArr:
    """Concrete view over a numpy array (structured or plain)."""

    def __init__(self, arr, endtime=None):
        self.arr = arr
        self.n = len(arr)
        self._endtime = endtime

    # Arrays are total functions in the logic: an out-of-range index yields an arbitrary value (0), so
    # eagerly evaluated sub-formulas such as ``Or(r == -1, spec(arr[r]))`` do not blow up.
    def _ok(self, j):
        return 0 <= int(j) < self.n

    def at(self, j):
        if not self._ok(j):
            return 0
        return _py(self.arr[int(j)])

    def at2(self, j, k):
        if not self._ok(j) or not (0 <= int(k) < len(self.arr[int(j)])):
            return 0
        return _py(self.arr[int(j)][int(k)])

    def f(self, field, j):
        if not self._ok(j):
            return 0
        j = int(j)
        if field == "endtime" and (self.arr.dtype.names is None or "endtime" not in self.arr.dtype.names):
            r = self.arr[j]
            return int(r["time"]) + int(r["length"]) * int(r["dt"])
        return _py(self.arr[field][j])

    def f2(self, field, j, k):
        if not self._ok(j) or not (0 <= int(k) < len(self.arr[field][int(j)])):
            return 0
        return _py(self.arr[field][int(j)][int(k)])

    def col(self, field):
        return CArr(self.arr[field])


def _py(v):
    import numpy as np

    if isinstance(v, (np.integer,)):
        return int(v)
    if isinstance(v, (np.floating,)):
        return float(v)
    if isinstance(v, (np.bool_,)):
        return bool(v)
    return v
