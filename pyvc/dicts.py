"""Python dicts as heap objects: a finite map with its key sequence.

A dict cell holds

  dom          Array(V -> Bool)        which keys are present
  val | val:f  Array(V -> sort)        the value (one array per field for record-valued dicts ``{"start":..,"end":..}``)
  keys, n, pos Array(Int -> V), Int, Array(V -> Int)   the key sequence in iteration order and its inverse

``keys / n / pos`` satisfy the well-formedness facts of ``wf`` (every Python dict has such a sequence: the keys are
pairwise distinct, every present key occurs exactly once).  A store or pop replaces the sequence by a fresh unknown
one (the order of a mutated dict is not tracked); the facts are assumed again where the sequence is used.

Iteration ``for k, v in d.items()`` is cut at the loop invariant like every other loop (position ``k_`` = number of
keys visited); the body must not mutate the dict it iterates over (Python would raise) - checked syntactically.
"""

import ast

import z3

from .engine import Unsupported, Ref, Opq, PNONE, St, V, zsort, T


class DictT(T):
    """dict with keys in V and values of sort ``value`` ('V' | 'int' | {field: sort} for record values)"""

    def __init__(self, value="V"):
        self.value = value


class DictV:
    """Clause-level view of a heap dict."""

    def __init__(self, eng, ref, heap):
        self.cell = heap[ref.base]
        self.base = ref.base
        self.n = self.cell["n"]

    def has(self, r):
        return z3.Select(self.cell["dom"], r)

    def field(self, r, f):
        return z3.Select(self.cell["val:" + f], r)

    def value(self, r):
        return z3.Select(self.cell["val"], r)

    def pos(self, r):
        return z3.Select(self.cell["pos"], r)

    def key(self, i):
        return z3.Select(self.cell["keys"], i)


def _val_arrays(name, vsort):
    if isinstance(vsort, dict):
        return {"val:" + f: z3.Array(f"{name}.val:{f}", V, zsort(s)) for f, s in vsort.items()}
    return {"val": z3.Array(name + ".val", V, zsort(vsort))}


def wf(cell):
    """Well-formedness of the key sequence."""
    keys, n, pos, dom = cell["keys"], cell["n"], cell["pos"], cell["dom"]
    i = z3.Int("dk_i")
    r = z3.Const("dk_r", V)
    return [n >= 0,
            z3.ForAll([i], z3.Implies(z3.And(0 <= i, i < n),
                                      z3.And(z3.Select(dom, z3.Select(keys, i)), z3.Select(pos, z3.Select(keys, i)) == i)),
                      patterns=[z3.Select(keys, i)]),
            z3.ForAll([r], z3.Implies(z3.Select(dom, r),
                                      z3.And(0 <= z3.Select(pos, r), z3.Select(pos, r) < n,
                                             z3.Select(keys, z3.Select(pos, r)) == r)),
                      patterns=[z3.Select(dom, r)])]


def fresh_sequence(eng, st, base):
    for key, sort in (("keys", z3.ArraySort(z3.IntSort(), V)), ("n", z3.IntSort()), ("pos", z3.ArraySort(V, z3.IntSort()))):
        st = st.with_cell(base, key, eng.fresh(f"{base}.{key}", sort))
    return st


def symbolic(eng, name, spec, st):
    cell = {"dom": z3.Array(name + ".dom", V, z3.BoolSort()), "#vsort": spec.value,
            "keys": z3.Array(name + ".keys", z3.IntSort(), V), "n": z3.Int(name + ".nkeys"),
            "pos": z3.Array(name + ".pos", V, z3.IntSort())}
    cell.update(_val_arrays(name, spec.value))
    st = St(st.env, {**st.heap, name: cell}, st.pc + wf(cell), st.ghost)
    return Ref(name, "dict"), st


def empty(eng, hint, spec, st):
    base = eng.new_base(hint)
    cell = {"dom": z3.K(V, z3.BoolVal(False)), "#vsort": spec.value,
            "keys": z3.Array(base + ".keys", z3.IntSort(), V), "n": z3.IntVal(0), "pos": z3.Array(base + ".pos", V, z3.IntSort())}
    cell.update(_val_arrays(base, spec.value))
    st = St(st.env, {**st.heap, base: cell}, st.pc, st.ghost)
    return Ref(base, "dict"), st


def store(eng, ref, key, v, st):
    """d[key] = v"""
    st = eng.dict_store(ref, key, v, st)
    return fresh_sequence(eng, st, ref.base)


def pop(eng, recv, a, kw, st, fr, k, node):
    """d.pop(key): the key must be present (KeyError otherwise); the entry is removed, the value returned"""
    if len(a) != 1:
        raise Unsupported("dict.pop with a default")
    cell = st.heap[recv.base]
    kv = eng.to_v(a[0])
    eng.oblige("safety", "dict.pop of a key that is present", st, z3.Select(cell["dom"], kv), node)
    val = eng.dict_value(cell, kv)
    st = st.with_cell(recv.base, "dom", z3.Store(cell["dom"], kv, False))
    st = fresh_sequence(eng, st, recv.base)
    return k(val, st)


class ItemList:
    """``list(d.keys())`` / ``list(d.values())`` / ``list(d.items())`` of a heap dict: a read-only snapshot
    (valid while the dict is not mutated - it holds the cell it was taken from)"""

    def __init__(self, cell, kind):
        self.cell, self.kind = cell, kind

    def elem(self, eng, i):
        key = z3.Select(self.cell["keys"], i)
        val = eng.dict_value(self.cell, key)
        return {"keys": Opq(key), "values": val, "items": (Opq(key), val)}[self.kind]


def view_method(kind):
    def m(eng, recv, a, kw, st, fr, k, node):
        return k(Ref(recv.base, "dict_" + kind), st)
    return m


def is_empty(cell):
    r = z3.Const("de_r", V)
    return z3.ForAll([r], z3.Not(z3.Select(cell["dom"], r)), patterns=[z3.Select(cell["dom"], r)])


def _mutates(body, name):
    for n in ast.walk(ast.Module(body=list(body), type_ignores=[])):
        tgt = None
        if isinstance(n, ast.Assign):
            tgt = n.targets
        elif isinstance(n, (ast.AugAssign, ast.AnnAssign)):
            tgt = [n.target]
        elif isinstance(n, ast.Delete):
            tgt = n.targets
        for t in tgt or []:
            if isinstance(t, ast.Subscript) and isinstance(t.value, ast.Name) and t.value.id == name:
                return True
        if isinstance(n, ast.Call) and isinstance(n.func, ast.Attribute) and isinstance(n.func.value, ast.Name) \
                and n.func.value.id == name and n.func.attr in ("pop", "setdefault", "update", "clear", "popitem"):
            return True
    return False


def dict_loop(eng, s, it, st, fr, k):
    """``for key in d`` / ``d.keys()`` / ``d.items()`` / ``d.values()`` over a heap dict."""
    from . import loops as L
    kind = it.kind.split("_")[1]
    cell = st.heap[it.base]
    root = s.iter.func.value if isinstance(s.iter, ast.Call) and isinstance(s.iter.func, ast.Attribute) else s.iter
    if not isinstance(root, ast.Name):
        raise Unsupported("iteration over a dict that is not named by a variable")
    if _mutates(s.body, root.id):
        raise Unsupported("the loop body mutates the dict it iterates over")
    for f in wf(cell):
        st = st.assume(f)
    ordinal, spec = L._loop_spec(eng, s, fr)
    pre = f"loop{ordinal}"
    n = cell["n"]
    keys = cell["keys"]
    target_names = [x.id for x in ast.walk(s.target) if isinstance(x, ast.Name)]
    eng.oblige_clauses("invariant-init", pre, st, L._inv(eng, spec, st, fr, {"k_": z3.IntVal(0), "n_": n}), s)
    sh0 = L.havoc(eng, st, s.body, None, also_names=target_names, ordinal=ordinal)
    kk = eng.fresh("k")
    sh = sh0
    for _, f in L._norm(L._inv(eng, spec, sh, fr, {"k_": kk, "n_": n})):
        sh = sh.assume(eng.S.b(f))
    sh_it = sh.assume(z3.And(0 <= kk, kk < n))

    def body_end(s2):
        eng.oblige_clauses("invariant-preserve", pre, s2, L._inv(eng, spec, s2, fr, {"k_": kk + 1, "n_": n}), s)
        L._body_ensures(eng, spec, s2, fr, {"k_": kk, "n_": n}, pre, s)
        L._ghost_frame(eng, sh_it, s2, ordinal, pre, s)
        eng.canary(f"{pre}:body-end", s2, s)
    fr_body = fr.with_(brk=lambda s2: k(s2), cont=body_end)
    key = z3.Select(keys, kk)
    cur = sh_it.heap[it.base]
    val = eng.dict_value(cur, key)
    elem = {"keys": Opq(key), "values": val, "items": (Opq(key), val)}[kind]
    eng.assign(s.target, elem, sh_it, fr, lambda s2: eng.ex(s.body, s2, fr_body, body_end), s)
    se = sh0
    for _, f in L._norm(L._inv(eng, spec, se, fr, {"k_": n, "n_": n})):
        se = se.assume(eng.S.b(f))
    if getattr(spec, "on_exit", None):
        se = spec.on_exit(eng, se)
    return eng.ex(s.orelse, se, fr, k)
