"""Concrete side: run the real function on concrete inputs and evaluate the same contract clauses.

Used for (a) replaying counterexamples, (b) searching a failing input for a refuted obligation,
(c) the bounded stand-ins.  Imports the real strax (lazily).
"""

import copy
import itertools
import json
import random

import numpy as np

from .ops import ConcOps, Namespace, CArr, BindingError
from .engine import normalize_clauses

S = ConcOps()


class Harness:
    """How to call the real function behind a contract.

    native(inputs) -> result           call the real function (inputs is a dict name -> concrete value);
                                       may mutate array inputs in place, may raise
    gen(rng, tier) -> iterable of input dicts (small exhaustive scope first, then random)
    variants      -> [(label, native)] additional implementations that must agree (e.g. numba py_func)
    scope         -> text describing the bound
    """

    def __init__(self, native, gen, scope, variants=None, view=None, nontrivial=None):
        self.native, self.gen, self.scope = native, gen, scope
        self.variants = variants or []
        self.view = view
        self.nontrivial = nontrivial


def to_view(v):
    if isinstance(v, np.ndarray):
        return CArr(v)
    if isinstance(v, (np.integer,)):
        return int(v)
    if isinstance(v, (np.bool_,)):
        return bool(v)
    if isinstance(v, (np.floating,)):
        return float(v)
    if isinstance(v, tuple):
        return tuple(to_view(x) for x in v)
    if isinstance(v, list):
        return [to_view(x) for x in v]
    if isinstance(v, dict):
        return {k: to_view(x) for k, x in v.items()}
    if type(v).__module__.startswith("strax") and not isinstance(v, type):
        return CObj(v)
    return v


class CObj:
    """Concrete object view: attribute values are wrapped like every other value."""

    def __init__(self, obj):
        self.__dict__["_obj"] = obj

    def __getattr__(self, k):
        try:
            return to_view(getattr(self._obj, k))
        except AttributeError:
            raise BindingError(f"{type(self._obj).__name__}.{k}")


def ns_of(d, view=None):
    return Namespace({k: (view(k, v) if view else to_view(v)) for k, v in d.items()})


class Outcome:
    def __init__(self):
        self.skipped = False       # precondition not satisfied
        self.failed = []           # labels of failing clauses
        self.raised = None
        self.result = None
        self.detail = ""

    @property
    def ok(self):
        return not self.failed


def check_concrete(contract, harness, inputs, native=None):
    """Evaluate the contract on one concrete input against the real code."""
    out = Outcome()
    pre = ns_of(copy.deepcopy(inputs))
    pre.__dict__["old"] = pre
    pre.__dict__["arg"] = pre
    if contract.requires is not None:
        for label, f in normalize_clauses(contract.requires(S, pre)):
            if not bool(f):
                out.skipped = True
                out.detail = f"precondition '{label}' not satisfied"
                return out
    live = copy.deepcopy(inputs)
    fn = native or harness.native
    try:
        result = fn(live)
    except BaseException as ex:  # noqa: the contract decides which exceptions are allowed
        if isinstance(ex, (KeyboardInterrupt, SystemExit, MemoryError)):
            raise
        cls = type(ex).__name__
        out.raised = cls
        cond = None
        for c in type(ex).__mro__:
            if c.__name__ in contract.raises:
                cond = contract.raises[c.__name__]
                break
        if cond is None:
            for key, cnd in contract.raises.items():
                if ":" in key and key.split(":")[0] in [c.__name__ for c in type(ex).__mro__] \
                        and key.split(":")[1][:3] in str(ex).lower():
                    cond = cnd
                    break
        if cond is None:
            out.failed.append(f"unexpected raise {cls}")
            out.detail = f"{cls}: {ex}"
        elif not bool(cond(S, pre)):
            out.failed.append(f"raise {cls} only when allowed")
            out.detail = f"{cls}: {ex}"
        return out
    out.result = result
    post = ns_of(live)
    if getattr(contract, "constructor", False):
        post.__dict__["self"] = to_view(result)
    post.__dict__["old"] = pre
    post.__dict__["arg"] = post
    if contract.ensures is not None:
        try:
            clauses = normalize_clauses(contract.ensures(S, post, to_view(result)))
        except (BindingError, TypeError, ValueError, IndexError) as ex:
            out.failed.append(f"result has an unexpected shape ({type(ex).__name__}: {ex})")
            return out
        for label, f in clauses:
            if not bool(f):
                out.failed.append(f"return:{label}")
    return out


def search(contract, harness, seed=0, tier="quick", budget=None, want_labels=None, stop_at_first=True):
    """Enumerate the harness scope; return (stats, failures[list of (inputs, Outcome, variant)])."""
    rng = random.Random(seed)
    stats = {"evaluations": 0, "skipped": 0, "nontrivial": 0, "raised": 0, "variants": 1 + len(harness.variants)}
    seen = set()
    failures = []
    impls = [("real", harness.native)] + list(harness.variants)
    for inputs in harness.gen(rng, tier):
        if budget is not None and stats["evaluations"] >= budget:
            break
        first = None
        for label, fn in impls:
            o = check_concrete(contract, harness, inputs, fn)
            if o.skipped:
                stats["skipped"] += 1
                break
            if first is None:
                first = o
                stats["evaluations"] += 1
                stats["raised"] += 1 if o.raised else 0
                key = repr(encode(inputs))
                if key not in seen:
                    seen.add(key)
                    if harness.nontrivial is None or harness.nontrivial(inputs):
                        stats["nontrivial"] += 1
                        if "sample" not in stats and len(key) < 4000:
                            stats["sample"] = encode(inputs)      # one case of this run, written out for the evidence file
            if o.failed:
                failures.append((inputs, o, label))
                if stop_at_first:
                    return stats, failures
    return stats, failures


# --------------------------------------------------------------------------------------
# JSON encoding of concrete inputs
# --------------------------------------------------------------------------------------
def encode(v):
    if isinstance(v, np.ndarray):
        if v.dtype.names:
            return {"__rows__": [[_enc_scalar(r[n]) for n in v.dtype.names] for r in v],
                    "dtype": [(n, v.dtype[n].str if v.dtype[n].shape == () else
                               [v.dtype[n].base.str, list(v.dtype[n].shape)]) for n in v.dtype.names]}
        return {"__array__": v.tolist(), "dtype": v.dtype.str}
    if isinstance(v, dict):
        return {"__dict__": {k: encode(x) for k, x in v.items()}}
    if isinstance(v, tuple):
        return {"__tuple__": [encode(x) for x in v]}
    if isinstance(v, list):
        return [encode(x) for x in v]
    if isinstance(v, (np.integer,)):
        return int(v)
    if isinstance(v, (np.floating,)):
        return float(v)
    if isinstance(v, (np.bool_,)):
        return bool(v)
    if type(v).__name__ == "Chunk" and type(v).__module__.startswith("strax"):
        return {"__chunk__": {"start": int(v.start), "end": int(v.end), "data": encode(v.data), "data_type": v.data_type,
                              "data_kind": v.data_kind, "run_id": v.run_id, "subruns": encode(v.subruns), "superrun": encode(v.superrun),
                              "target_size_mb": v.target_size_mb}}
    return v


def _enc_scalar(x):
    if isinstance(x, np.ndarray):
        return x.tolist()
    if isinstance(x, (np.integer,)):
        return int(x)
    if isinstance(x, (np.floating,)):
        return float(x)
    return x


def decode(v):
    if isinstance(v, dict) and "__chunk__" in v:
        import strax
        c = v["__chunk__"]
        data = decode(c["data"])
        return strax.Chunk(start=c["start"], end=c["end"], data=data, dtype=data.dtype, data_type=c["data_type"], data_kind=c["data_kind"],
                           run_id=c["run_id"], subruns=decode(c["subruns"]), superrun=decode(c["superrun"]), target_size_mb=c["target_size_mb"])
    if isinstance(v, dict):
        if "__rows__" in v:
            dt = np.dtype([(n, d) if isinstance(d, str) else (n, d[0], tuple(d[1])) for n, d in v["dtype"]])
            arr = np.zeros(len(v["__rows__"]), dtype=dt)
            for i, row in enumerate(v["__rows__"]):
                for n, x in zip(dt.names, row):
                    arr[n][i] = x
            return arr
        if "__array__" in v:
            return np.array(v["__array__"], dtype=np.dtype(v["dtype"]))
        if "__dict__" in v:
            return {k: decode(x) for k, x in v["__dict__"].items()}
        if "__tuple__" in v:
            return tuple(decode(x) for x in v["__tuple__"])
    if isinstance(v, list):
        return [decode(x) for x in v]
    return v


# --------------------------------------------------------------------------------------
# generators of small interval arrays
# --------------------------------------------------------------------------------------
INTERVAL_DT = np.dtype([("time", np.int64), ("endtime", np.int64)])
TLD_DT = np.dtype([("time", np.int64), ("length", np.int32), ("dt", np.int16)])


def intervals(pairs, encoding="endtime"):
    if encoding == "endtime":
        a = np.zeros(len(pairs), dtype=INTERVAL_DT)
        for i, (s, e) in enumerate(pairs):
            a[i] = (s, e)
        return a
    a = np.zeros(len(pairs), dtype=TLD_DT)
    for i, (s, e) in enumerate(pairs):
        a[i] = (s, e - s, 1)
    return a


def all_sorted_intervals(max_n, grid, min_len=1, disjoint=False):
    """All time-sorted interval lists with <= max_n rows on [0, grid]."""
    ivs = [(s, e) for s in range(grid + 1) for e in range(s + min_len, grid + 1)]

    def rec(prefix):
        yield list(prefix)
        if len(prefix) == max_n:
            return
        for iv in ivs:
            if prefix:
                if iv[0] < prefix[-1][0]:
                    continue
                if disjoint and iv[0] < max(p[1] for p in prefix):
                    continue
            prefix.append(iv)
            yield from rec(prefix)
            prefix.pop()
    yield from rec([])


def random_sorted_intervals(rng, n, tmax, lmax, min_len=1, disjoint=False):
    out = []
    t = 0
    for _ in range(n):
        s = t + rng.randint(0, max(1, tmax // max(1, n)))
        e = s + rng.randint(min_len, lmax)
        out.append((s, e))
        t = e if disjoint else s
    return out
