"""Monitor rule for lock-protected objects (the sequential part of concurrency).

A class whose shared state is only touched under one re-entrant lock and which waits only through
``Condition.wait_for`` is verified section by section:

* ``with obj._lock:`` (outermost acquisition): another thread may have run since this thread last held the lock,
  so the shared state is havoced under the monitor invariant ``I`` and the *rely* condition;
* at every release of the lock and at every ``wait_for`` the section must re-establish ``I`` (obligation), must
  respect the *guarantee* towards the other threads (obligation), and must have notified every condition whose wait
  predicate it may have switched from false to true (signal obligation);
* ``wait_for(pred)`` havocs the shared state under ``I`` and rely, and returns ``pred()`` evaluated in the new state
  (False = timeout).

An interleaving is a sequence of such sections, so the obligations cover every schedule.  Termination, deadlock
freedom, fairness and timeouts are not covered.
"""

import ast

import z3

from .engine import (Unsupported, Ref, Opq, PNONE, St, V, Exc, Closure, dotted_name, normalize_clauses)
from . import loops as L


class HeapV:
    """Clause view of the message heap: abstract set of (number -> message)."""

    def __init__(self, eng, ref, heap):
        cell = heap[ref.base]
        self.inbox, self.msgs, self.size = cell["inbox"], cell["msgs"], cell["size"]
        self.lowest = eng.heap_lowest(cell)

    def has(self, n):
        return z3.Select(self.inbox, n)

    def msg(self, n):
        return z3.Select(self.msgs, n)


def heap_facts(eng, cell):
    """Facts true of every finite set with its cardinality counter and least element."""
    S = eng.S
    inbox, size = cell["inbox"], cell["size"]
    low = eng.heap_lowest(cell)
    n = z3.Int("hq")
    return [size >= 0,
            z3.Implies(size == 0, z3.ForAll([n], z3.Not(z3.Select(inbox, n)))),
            z3.Implies(size > 0, z3.And(z3.Select(inbox, low), z3.ForAll([n], z3.Implies(n < low, z3.Not(z3.Select(inbox, n)))))),
            z3.ForAll([n], z3.Implies(z3.Select(inbox, n), size > 0))]


class Monitor:
    """Specification of one monitored class.

    invariant(S, o, g)                      -> clauses over the object view ``o`` and ghost namespace ``g``
    guarantee(S, o0, g0, o1, g1, me)        -> clauses every section establishes between its start and its end
    rely(S, o0, g0, o1, g1, me)             -> clauses assumed across a havoc (other threads' guarantees + "my entries
                                               are only written by me")
    signals: {condition attribute: lambda S, o0, g0, o1, g1: "some waiter's predicate may have become true"}
    shared: names of the attributes that other threads may change
    ghost:  names of the ghost variables (in st.ghost) that other threads may change
    """

    def __init__(self, invariant, guarantee, rely, signals, shared, ghost):
        self.invariant, self.guarantee, self.rely = invariant, guarantee, rely
        self.signals, self.shared, self.ghost = signals, shared, ghost

    # -- views ---------------------------------------------------------------------------------
    def view(self, eng, ref, st):
        return eng.resolve(ref, st.heap), _GhostNS(st.ghost)

    # -- state havoc ------------------------------------------------------------------------------
    def havoc(self, eng, st, ref):
        cell = st.heap[ref.base]
        for a in self.shared:
            v = cell[a]
            if isinstance(v, Ref) and v.kind == "msgheap":
                c = st.heap[v.base]
                for key in ("inbox", "msgs"):
                    st = st.with_cell(v.base, key, eng.fresh(v.base + "." + key, c[key].sort()))
                st = st.with_cell(v.base, "size", eng.fresh(v.base + ".size"))
                for f in heap_facts(eng, st.heap[v.base]):
                    st = st.assume(f)
            elif isinstance(v, Ref):
                st = L.havoc_heap(eng, st, v, "*")
            else:
                st = st.with_cell(ref.base, a, L.havoc_value(eng, ref.base + "." + a, v))
        g = dict(st.ghost)
        for name in self.ghost:
            cur = g[name]
            g[name] = eng.fresh("ghost_" + name, cur.sort())
        return St(st.env, st.heap, st.pc, g)

    def assume_inv(self, eng, st, ref):
        o, g = self.view(eng, ref, st)
        for _, f in normalize_clauses(self.invariant(eng.S, o, g)):
            st = st.assume(eng.S.b(f))
        return st

    # -- section boundaries -------------------------------------------------------------------------
    def acquire(self, eng, st, ref, me):
        depth = st.ghost.get("#lock_depth", 0)
        if depth == 0:
            pre = st
            st = self.havoc(eng, st, ref)
            st = self.assume_inv(eng, st, ref)
            st = self.assume_rely(eng, pre, st, ref, me)
            st = self.start_section(st)
        g = dict(st.ghost)
        g["#lock_depth"] = depth + 1
        return St(st.env, st.heap, st.pc, g)

    def start_section(self, st):
        g = dict(st.ghost)
        g["#sec_start"] = St(st.env, st.heap, st.pc, {k: v for k, v in st.ghost.items() if not k.startswith("#")})
        for c in self.signals:
            g["#notified:" + c] = z3.BoolVal(False)
        return St(st.env, st.heap, st.pc, g)

    def assume_rely(self, eng, pre, post, ref, me):
        o0, g0 = self.view(eng, ref, pre)
        o1, g1 = self.view(eng, ref, post)
        for _, f in normalize_clauses(self.rely(eng.S, o0, g0, o1, g1, me(post) if callable(me) else me)):
            post = post.assume(eng.S.b(f))
        return post

    def end_section(self, eng, st, ref, me, where, node):
        """Obligations when the lock is released (or a wait begins)."""
        o1, g1 = self.view(eng, ref, st)
        eng.oblige_clauses("monitor-invariant", f"{where}: invariant re-established", st,
                           self.invariant(eng.S, o1, g1), node)
        start = st.ghost.get("#sec_start")
        if start is not None:
            o0, g0 = eng.resolve(ref, start.heap), _GhostNS(start.ghost)
            eng.oblige_clauses("monitor-guarantee", f"{where}: guarantee towards the other threads", st,
                               self.guarantee(eng.S, o0, g0, o1, g1, me(st) if callable(me) else me), node)
            for cname, may_enable in self.signals.items():
                f = eng.S.b(may_enable(eng.S, o0, g0, o1, g1))
                eng.oblige("signal", f"{where}: {cname} is notified if a waiter's predicate may have become true", st,
                           z3.Implies(f, st.ghost["#notified:" + cname]), node)

    def release(self, eng, st, ref, me, node):
        depth = st.ghost.get("#lock_depth", 0)
        if depth == 1:
            self.end_section(eng, st, ref, me, "release", node)
        g = dict(st.ghost)
        g["#lock_depth"] = depth - 1
        return St(st.env, st.heap, st.pc, g)

    # -- statement / call handlers ---------------------------------------------------------------------
    def with_handler(self, lock_of, me=None):
        """Handler for ``with X._lock:``; ``lock_of(eng, st, expr)`` returns the monitored Ref or None."""
        mon = self

        def h(eng, s, st, fr, k):
            if len(s.items) != 1:
                raise Unsupported("with: several items")
            ref = lock_of(eng, st, s.items[0].context_expr)
            if ref is None:
                raise Unsupported("with statement on something that is not the monitor's lock")
            st1 = mon.acquire(eng, st, ref, me)

            def rel(s2):
                return mon.release(eng, s2, ref, me, s)
            fr2 = fr.with_(on_return=lambda v, s2: fr.on_return(v, rel(s2)),
                           on_raise=lambda exc, s2: fr.on_raise(exc, rel(s2)),
                           brk=(lambda s2: fr.brk(rel(s2))) if fr.brk else None,
                           cont=(lambda s2: fr.cont(rel(s2))) if fr.cont else None)
            return eng.ex(s.body, st1, fr2, lambda s2: k(rel(s2)))
        return h

    def notify_handler(self, cname):
        def h(eng, args, kw, st, fr, k, node):
            g = dict(st.ghost)
            g["#notified:" + cname] = z3.BoolVal(True)
            return k(PNONE, St(st.env, st.heap, st.pc, g))
        return h

    def wait_handler(self, ref_of, me=None):
        """``cond.wait_for(pred, timeout)``: release-obligations, havoc under I and rely, evaluate pred."""
        mon = self

        def h(eng, args, kw, st, fr, k, node):
            ref = ref_of(eng, st)
            if st.ghost.get("#lock_depth", 0) < 1:
                eng.oblige("structural", "wait_for is called with the lock held", st, z3.BoolVal(False), node)
            mon.end_section(eng, st, ref, me, "wait", node)
            pre = st
            st2 = mon.havoc(eng, st, ref)
            st2 = mon.assume_inv(eng, st2, ref)
            st2 = mon.assume_rely(eng, pre, st2, ref, me)
            st2 = mon.start_section(st2)
            pred = args[1] if len(args) > 1 and not isinstance(args[0], (Closure, BoundMethod)) else args[0]
            from .library import inline_call
            if isinstance(pred, Closure):
                return inline_call(eng, pred, [], {}, st2, fr, k, node)
            if isinstance(pred, BoundMethod):
                return pred.call(eng, [], {}, st2, fr, k, node)
            raise Unsupported("wait_for with a predicate that is not a local function / bound method")
        return h


class BoundMethod:
    """``obj.method`` used as a value (e.g. as wait predicate)."""

    def __init__(self, ref, handler):
        self.ref, self.handler = ref, handler

    def call(self, eng, args, kw, st, fr, k, node):
        from .library import _dispatch_handler
        return _dispatch_handler(eng, self.handler, "bound", [self.ref] + list(args), kw, st, fr, k, node)


class _GhostNS:
    def __init__(self, g):
        self.__dict__["_g"] = g

    def __getattr__(self, k):
        return self._g[k]
