"""vcheck command line."""

import argparse
import importlib
import json
import os
import sys
import threading

HERE = os.path.dirname(os.path.dirname(os.path.abspath(__file__)))


def main():
    ap = argparse.ArgumentParser(prog="vcheck")
    ap.add_argument("prop", nargs="?")
    ap.add_argument("--tier", default=os.environ.get("VERIF_TIER", "quick"), choices=["quick", "thorough"])
    ap.add_argument("--setup", action="store_true")
    ap.add_argument("--replay")
    ap.add_argument("--only")
    args = ap.parse_args()
    seed = int(os.environ.get("VERIF_SEED", "0") or 0)
    if args.setup:
        return setup()
    if args.replay:
        from . import replay
        return replay.main(args.replay)
    if not args.prop:
        ap.error("property id required")
    sys.setrecursionlimit(200000)
    threading.stack_size(512 * 1024 * 1024)
    rc = [3]

    def work():
        try:
            mod = importlib.import_module("props." + args.prop)
            from .runner import run_property
            rc[0] = run_property(mod.PROPERTY, tier=args.tier, seed=seed, only=args.only)
        except SystemExit as e:
            rc[0] = int(e.code or 0)
        except BaseException:
            import traceback
            traceback.print_exc()
            print(f"CHECKER-ERROR property={args.prop} crashed")
            rc[0] = 3
    t = threading.Thread(target=work)
    t.start()
    t.join()
    sys.stdout.flush()
    os._exit(rc[0])


def setup():
    import z3
    x = z3.Int("x")
    s = z3.Solver()
    s.add(x > 2, x < 4)
    assert s.check() == z3.sat
    import cvc5  # noqa
    import strax  # noqa
    print("vcheck setup ok: z3", z3.get_version_string(), "strax", strax.__version__)
    return 0


if __name__ == "__main__":
    sys.exit(main())
