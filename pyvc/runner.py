"""Property runner: generate VCs from the real source, discharge, refute, replay, report."""

import json
import os
import sys
import time
import traceback

import z3

from . import engine as E
from .contract import generate, REG
from .engine import VC
from .solve import solve_all, second_solver, to_smt2
from . import solve as SOLVE

HERE = os.path.dirname(os.path.dirname(os.path.abspath(__file__)))
# VERIF_OUT redirects evidence and replays (used when trying a seeded change in a scratch worktree, so that the
# committed evidence of /repo itself is not overwritten)
EVIDENCE_DIR = os.path.join(os.environ.get("VERIF_OUT", HERE), "evidence")
REPLAY_DIR = os.path.join(os.environ.get("VERIF_OUT", HERE), "replays")
KNOWN = os.path.join(HERE, "known_findings.json")

FINITE_B = {"quick": 3, "thorough": 4}


class Lemma:
    """A stand-alone proof obligation over contracts (built with the same spec operators)."""

    def __init__(self, name, build, doc=""):
        self.name, self.build, self.doc = name, build, doc

    def vcs(self, S):
        out = []
        for label, hyps, goal in self.build(S):
            out.append(VC("lemma:" + self.name, "lemma", label, [S.b(h) for h in hyps], S.b(goal)))
        return out


class Structural:
    """An obligation on the AST of the real source (call-site wiring, lock discipline ...)."""

    def __init__(self, name, check, doc=""):
        self.name, self.check, self.doc = name, check, doc


class StandIn:
    """Bounded stand-in: the contract evaluated on the real code over a stated scope."""

    def __init__(self, name, contract, harness, budget=None, known=None):
        self.name, self.contract, self.harness = name, contract, harness
        self.budget = budget or {"quick": 3000, "thorough": 200000}


class Property:
    def __init__(self, pid, level, contracts=(), lemmas=(), structural=(), standins=(), trusted=(),
                 assumptions=(), explanation="", custom=()):
        self.id, self.level = pid, level
        self.contracts, self.lemmas, self.structural, self.standins = (
            list(contracts), list(lemmas), list(structural), list(standins))
        self.trusted, self.assumptions, self.explanation = list(trusted), list(assumptions), explanation
        self.custom = list(custom)  # callables(report, tier, seed) for special machinery (monitor rule ...)


def load_known():
    if not os.path.exists(KNOWN):
        return []
    with open(KNOWN) as f:
        return json.load(f)["findings"]


class Report:
    def __init__(self, prop, tier, seed):
        self.prop, self.tier, self.seed = prop, tier, seed
        self.t0 = time.time()
        self.functions = []
        self.obligations = 0
        self.discharged = 0
        self.by_kind = {}
        self.by_backend = {}
        self.solver_s = 0.0
        self.canary_groups = 0
        self.canary_refuted = 0
        self.violations = []      # dicts
        self.known_hits = []
        self.undecided = []
        self.errors = []
        self.assumptions = set(prop.assumptions)
        self.samples = []
        self.bounded = []
        self.structural = []
        self.lines = []

    def say(self, s):
        print(s, flush=True)


def _vc_ident(vc, occ):
    return f"{vc.func}::{vc.kind}::{vc.label}@{vc.line}#{occ}"


def run_property(prop, tier="quick", seed=0, only=None):
    rep = Report(prop, tier, seed)
    known = [k for k in load_known() if k["property"] == prop.id]
    open_known = [k for k in known if k.get("status") == "open"]
    all_vcs = []
    owners = []  # (contract or None, run)
    # ---- 1. generate ---------------------------------------------------------------
    for c in prop.contracts:
        if only and only not in c.key:
            continue
        t0 = time.time()
        try:
            run = generate(c)
        except RecursionError:
            run = None
            rep.errors.append(f"{c.key}: recursion limit during symbolic execution")
            continue
        except Exception as ex:  # engine bug: checker error, never a violation
            rep.errors.append(f"{c.key}: engine crash {type(ex).__name__}: {ex}\n" + traceback.format_exc(limit=8))
            continue
        info = {"function": c.key, "line": run.line, "ast_sha1": run.ast_hash, "vcs": len(run.vcs),
                "paths": run.n_paths, "gen_s": round(time.time() - t0, 3)}
        rep.functions.append(info)
        rep.assumptions |= run.assumptions
        if run.error:
            rep.errors.append(f"{c.key}: outside the verified subset / binding failure: {run.error}")
            info["error"] = run.error
            continue
        if not [v for v in run.vcs if v.kind != "canary"]:
            rep.errors.append(f"{c.key}: zero obligations generated (vacuous)")
            continue
        # every ensures / raises clause must have produced a VC
        for vc in run.vcs:
            all_vcs.append(vc)
            owners.append(c)
    S = E.SymOps()
    for lem in prop.lemmas:
        try:
            vcs = lem.vcs(S)
        except Exception as ex:
            rep.errors.append(f"lemma {lem.name}: {type(ex).__name__}: {ex}")
            continue
        if not vcs:
            rep.errors.append(f"lemma {lem.name}: zero obligations")
        for vc in vcs:
            all_vcs.append(vc)
            owners.append(None)
        rep.functions.append({"function": "lemma:" + lem.name, "vcs": len(vcs), "doc": lem.doc})
    # ---- 2. discharge --------------------------------------------------------------
    t0 = time.time()
    results = solve_all(all_vcs) if all_vcs else []
    rep.solve_wall = time.time() - t0
    occ = {}
    canary_groups = {}
    failed = []
    for vc, c, r in zip(all_vcs, owners, results):
        key = (vc.func, vc.kind, vc.label, vc.line)
        occ[key] = occ.get(key, 0) + 1
        ident = _vc_ident(vc, occ[key])
        rep.solver_s += r["time"]
        if vc.kind != "canary":
            sl = getattr(rep, "slowest", [])
            sl.append((round(r["time"], 2), ident, r["backend"]))
            sl.sort(reverse=True)
            rep.slowest = sl[:5]
        if vc.kind == "canary":
            g = canary_groups.setdefault((vc.func.split("[")[0], vc.label, vc.line), [])
            g.append(r["verdict"])
            continue
        rep.obligations += 1
        rep.by_kind[vc.kind] = rep.by_kind.get(vc.kind, 0) + 1
        if r["verdict"] == "proved":
            rep.discharged += 1
            rep.by_backend[r["backend"]] = rep.by_backend.get(r["backend"], 0) + 1
            if len(rep.samples) < 6 and vc.kind in ("postcondition", "exceptional", "lemma", "invariant-preserve"):
                rep.samples.append({"obligation": ident, "hypotheses": len(vc.hyps), "goal": str(vc.goal)[:300],
                                    "backend": r["backend"], "solver_s": round(r["time"], 3)})
        else:
            failed.append((vc, c, r, ident, occ[key]))
    # vacuity: each exit point / loop body must be reachable on some path
    dead_ok = {}
    for c in prop.contracts:
        for label, snippet in c.expected_dead:
            dead_ok.setdefault((c.key.split("[")[0], label), []).append((c.file, snippet))
    for (func, label, line), verdicts in canary_groups.items():
        rep.canary_groups += 1
        if all(v == "proved" for v in verdicts) and any(
                _line_matches(f, line, snip) for f, snip in dead_ok.get((func, label), [])):
            rep.assumptions.add(f"{func}: '{label}' at line {line} is unreachable under the contract's precondition (declared)")
            rep.canary_refuted += 1
            continue
        if all(v == "proved" for v in verdicts):
            rep.errors.append(f"{func}: vacuity - every path reaching '{label}' (line {line}) has contradictory "
                              f"hypotheses (canary proved on all {len(verdicts)} paths)")
        else:
            rep.canary_refuted += 1
    # ---- 3. failed obligations: retry the undecided ones in one parallel batch with a three-fold budget ------
    unknown_idx = [i for i, (vc, c, r, ident, k_occ) in enumerate(failed) if r["verdict"] == "unknown"]
    if unknown_idx:
        old = (SOLVE.Z3_TIMEOUT_MS, SOLVE.CVC5_TIMEOUT_MS)
        SOLVE.Z3_TIMEOUT_MS, SOLVE.CVC5_TIMEOUT_MS = old[0] * 3, old[1] * 2
        try:
            again = solve_all([failed[i][0] for i in unknown_idx])
        finally:
            SOLVE.Z3_TIMEOUT_MS, SOLVE.CVC5_TIMEOUT_MS = old
        for i, r2 in zip(unknown_idx, again):
            vc, c, r, ident, k_occ = failed[i]
            r = dict(r)
            r["retry"] = r2["trail"]
            if r2["verdict"] != "unknown":
                r.update(verdict=r2["verdict"], backend=r2["backend"] + "(retry)", model=r2.get("model"))
            failed[i] = (vc, c, r, ident, k_occ)
    still = []
    for vc, c, r, ident, k_occ in failed:
        if r["verdict"] == "proved":
            rep.discharged += 1
            rep.by_backend[r["backend"]] = rep.by_backend.get(r["backend"], 0) + 1
        else:
            still.append((vc, c, r, ident, k_occ))
    # then: known finding? finite refuter; one search for a failing input per function
    rep._search_cache = {}
    detailed = 0
    for vc, c, r, ident, k_occ in still:
        detailed += 1
        handle_failed(rep, prop, vc, c, r, ident, open_known, tier, seed, detailed=detailed <= 12)
    # ---- 4. structural obligations ---------------------------------------------------
    for sob in prop.structural:
        try:
            items = sob.check()
        except Exception as ex:
            rep.errors.append(f"structural {sob.name}: {type(ex).__name__}: {ex}")
            continue
        for label, ok, detail in items:
            rep.obligations += 1
            rep.by_kind["structural"] = rep.by_kind.get("structural", 0) + 1
            rep.structural.append({"name": sob.name, "label": label, "ok": bool(ok), "detail": detail})
            if ok:
                rep.discharged += 1
                rep.by_backend["ast"] = rep.by_backend.get("ast", 0) + 1
            else:
                path = write_replay(prop.id, f"structural-{sob.name}-{label}", {
                    "property": prop.id, "obligation": f"structural::{sob.name}::{label}", "detail": detail,
                    "kind": "structural obligation on the AST of the real source", "input": None})
                rep.violations.append({"obligation": f"structural::{sob.name}::{label}", "replay": path,
                                       "input_found": False, "detail": detail})
    # ---- 5. special machinery ---------------------------------------------------------
    for fn in prop.custom:
        try:
            fn(rep, tier, seed)
        except Exception as ex:
            rep.errors.append(f"custom check {getattr(fn, '__name__', fn)}: {type(ex).__name__}: {ex}\n"
                              + traceback.format_exc(limit=6))
    # ---- 6. bounded stand-ins ----------------------------------------------------------
    for si in prop.standins:
        run_standin(rep, prop, si, open_known, tier, seed)
    # known findings that did not show up any more
    return finish(rep, prop, known)


def _line_matches(relpath, line, snippet):
    try:
        _, text = E.load_module_ast(relpath)
        lines = text.splitlines()
        window = " ".join(lines[max(0, line - 3): line + 3])
        return snippet in window
    except Exception:
        return False


def handle_failed(rep, prop, vc, c, r, ident, open_known, tier, seed, detailed=True):
    """An obligation that was not discharged."""
    from . import harness as H
    verdict = r["verdict"]
    detail = {"obligation": ident, "function": vc.func, "kind": vc.kind, "label": vc.label, "line": vc.line,
              "solver_trail": r["trail"], "solver_reason": r.get("reason", ""), "model": r.get("model")}
    # known finding: re-prove under the recorded exclusion
    for kf in open_known:
        if kf.get("function") == vc.func and kf.get("obligation_label") in (vc.label, None) and c is not None:
            exc = c_known_exclusion(c, kf)
            if exc is not None:
                S = E.SymOps()
                # the exclusion is a clause over the entry state
                try:
                    extra = exc
                    res = solve_all([vc], procs=1, extra_hyps=[extra])
                except Exception:
                    res = None
                if res and res[0]["verdict"] == "proved":
                    rep.known_hits.append((kf, ident))
                    rep.obligations  # counted already
                    rep.discharged += 1
                    rep.by_backend["z3(under known-finding exclusion)"] = rep.by_backend.get(
                        "z3(under known-finding exclusion)", 0) + 1
                    return
    # finite refuter when the solvers did not answer sat themselves
    finite_model = None
    if verdict == "unknown" and c is not None and detailed:
        finite_model = finite_refute(c, vc, tier)
        if finite_model is not None:
            verdict = "refuted"
            detail["finite_refuter"] = finite_model
    # search a failing input on the real code
    found = None
    hz = getattr(c, "harness", None) if c is not None else None
    if hz is not None:
        cache = getattr(rep, "_search_cache", {})
        if c.key not in cache:
            try:
                stats, failures = H.search(c, hz, seed=seed, tier=tier,
                                           budget=20000 if tier == "quick" else 300000)
                res = {"stats": stats, "found": None}
                if failures:
                    inputs, o, variant = failures[0]
                    res["found"] = {"inputs": H.encode(inputs), "failed_clauses": o.failed, "raised": o.raised,
                                    "variant": variant, "detail": o.detail}
                cache[c.key] = res
            except Exception as ex:
                cache[c.key] = {"stats": None, "found": None, "error": f"{type(ex).__name__}: {ex}"}
        detail["search"] = cache[c.key].get("stats")
        found = cache[c.key].get("found")
    detail["input"] = found
    detail["property"] = prop.id
    detail["contract"] = c.key if c is not None else None
    # The deciding step is the verifier accepting every obligation: an obligation that is not discharged is reported
    # as the violation - with a failing input when one was found, otherwise marked no-failing-input-found.
    detail["verifier_verdict"] = verdict
    path = write_replay(prop.id, ident, detail)
    rep.violations.append({"obligation": ident, "replay": path, "input_found": found is not None,
                           "detail": (found or {}).get("failed_clauses"), "verdict": verdict})


def c_known_exclusion(c, kf):
    return None


_FINITE_CACHE = {}
_FINITE_SPENT = [0.0]
FINITE_WALL_BUDGET_S = 180.0   # per run: the finite refuter only adds a model to a violation that is reported anyway


def finite_refute(c, vc, tier):
    B = FINITE_B.get(tier, 3)
    if _FINITE_SPENT[0] > FINITE_WALL_BUDGET_S:
        return None
    t0 = time.time()
    try:
        return _finite_refute(c, vc, tier, B, t0)
    finally:
        _FINITE_SPENT[0] += time.time() - t0


def _finite_refute(c, vc, tier, B, t0):
    if (c.key, B) not in _FINITE_CACHE:
        try:
            _FINITE_CACHE[(c.key, B)] = generate(c, finite=B)
        except Exception:
            _FINITE_CACHE[(c.key, B)] = None
    run = _FINITE_CACHE[(c.key, B)]
    if run is None or run.error:
        return None
    # find the matching VC (same kind/label/line, same occurrence order)
    cands = [v for v in run.vcs if (v.kind, v.label, v.line) == (vc.kind, vc.label, vc.line)]
    if not cands:
        return None
    bounds = [z3.And(n >= 0, n <= B) for n in run.lengths]
    old = SOLVE.Z3_TIMEOUT_MS
    for cand in cands[:6]:
        if _FINITE_SPENT[0] + (time.time() - t0) > FINITE_WALL_BUDGET_S:
            return None
        s = z3.Solver()
        s.set("timeout", 10000)
        s.set("rlimit", 50000000)
        for h in cand.hyps:
            s.add(h)
        for b in bounds:
            s.add(b)
        for a in E.str_axioms(finite=B):
            s.add(a)
        s.add(z3.Not(cand.goal))
        if s.check() == z3.sat:
            m = s.model()
            return {"bound": B, "model": {str(d): str(m[d]) for d in m.decls()}}
    return None


def run_standin(rep, prop, si, open_known, tier, seed):
    from . import harness as H
    t0 = time.time()
    try:
        import contextlib, io
        with contextlib.redirect_stdout(io.StringIO()):   # the code under test prints progress lines
            stats, failures = H.search(si.contract, si.harness, seed=seed, tier=tier, budget=si.budget.get(tier),
                                       stop_at_first=False)
    except Exception as ex:
        rep.errors.append(f"stand-in {si.name}: {type(ex).__name__}: {ex}\n" + traceback.format_exc(limit=6))
        return
    sample = stats.pop("sample", None)
    entry = {"name": si.name, "function": si.contract.key, "bound": si.harness.scope, **stats,
             "wall_s": round(time.time() - t0, 2), "failures": len(failures)}
    rep.bounded.append(entry)
    if sample is not None:
        rep.samples.append({"bounded_standin": si.name, "one_input_of_this_run": sample})
    if stats["evaluations"] == 0:
        rep.errors.append(f"stand-in {si.name}: zero evaluations")
    reported = set()
    for inputs, o, variant in failures:
        kf = match_known_input(si.contract, open_known, inputs, o)
        if kf is not None:
            if kf["id"] not in reported:
                reported.add(kf["id"])
                rep.known_hits.append((kf, f"stand-in {si.name}"))
            continue
        import re as _re
        key = _re.sub(r"\d+", "#", o.failed[0])
        if key in reported:
            continue
        reported.add(key)
        ident = f"{si.contract.key}::bounded::{o.failed[0]}"
        path = write_replay(prop.id, ident, {
            "property": prop.id, "obligation": ident, "contract": si.contract.key, "kind": "bounded stand-in",
            "input": {"inputs": H.encode(inputs), "failed_clauses": o.failed, "raised": o.raised,
                      "variant": variant, "detail": o.detail}})
        rep.violations.append({"obligation": ident, "replay": path, "input_found": True, "detail": o.failed})


def match_known_input(contract, open_known, inputs, outcome):
    preds = getattr(contract, "known_regions", {})
    for kf in open_known:
        p = preds.get(kf["id"])
        if p is not None and kf.get("function") == contract.key:
            try:
                if p(inputs, outcome):
                    return kf
            except Exception:
                pass
    return None


def write_replay(pid, ident, detail):
    d = os.path.join(REPLAY_DIR, pid)
    os.makedirs(d, exist_ok=True)
    safe = "".join(ch if ch.isalnum() or ch in "-_." else "_" for ch in ident)[:150]
    path = os.path.join(d, safe + ".json")
    with open(path, "w") as f:
        json.dump(detail, f, indent=1, default=str)
    return path


def finish(rep, prop, known):
    wall = time.time() - rep.t0
    reported_known = {}
    for kf, where in rep.known_hits:
        reported_known.setdefault(kf["id"], (kf, []))[1].append(where)
    for kid, (kf, wheres) in reported_known.items():
        rep.say(f"KNOWN-FINDING: property={prop.id} {kf['id']} {kf['what']}")
    for v in rep.violations:
        tail = "" if v["input_found"] else " no-failing-input-found"
        rep.say(f"VIOLATION property={prop.id} replay={v['replay']} obligation={v['obligation']!r}{tail}")
    for u in rep.undecided:
        rep.say(f"UNDECIDED property={prop.id} obligation={u['obligation']!r} {u['reason']}")
    for e in rep.errors:
        rep.say(f"CHECKER-ERROR property={prop.id} {e}")
    level = prop.level
    proof_ok = rep.obligations > 0 and rep.discharged == rep.obligations
    if level == "proof" and not proof_ok:
        level = "other"
    coverage = {
        "obligations": rep.obligations,
        "discharged": rep.discharged,
        "checker_cmd": f"./vcheck {prop.id} --tier {rep.tier}",
        "trusted_base": prop.trusted,
        "functions_under_contract": rep.functions,
        "obligations_by_kind": rep.by_kind,
        "discharged_by_backend": rep.by_backend,
        "solver_cpu_s": round(rep.solver_s, 2),
        "solve_wall_s": round(getattr(rep, "solve_wall", 0.0), 2),
        "slowest_obligations": [{"solver_s": t, "obligation": i, "backend": b} for t, i, b in getattr(rep, "slowest", [])],
        "solver_budget_s": {"z3": 20, "cvc5": 30, "retry_factor": 3},
        "vacuity": {"exit_points_and_loop_bodies": rep.canary_groups, "reachable": rep.canary_refuted},
        "structural": rep.structural,
        "samples": rep.samples or [{"note": "no obligation sample available"}],
        "bounded_standins": rep.bounded,
        "undecided": rep.undecided,
        "checker_errors": rep.errors,
        "known_findings_seen": sorted(reported_known),
        "explanation": prop.explanation,
    }
    if rep.bounded:
        coverage["evaluations"] = sum(b["evaluations"] for b in rep.bounded)
        coverage["distinct_nontrivial"] = sum(b["nontrivial"] for b in rep.bounded)
        coverage["rule"] = ("bounded stand-ins: each input of the stated scope is generated once, run through the real "
                            "function (and its un-jitted twin where there is one) and checked against the sidecar "
                            "contract; non-trivial = distinct input satisfying the contract's precondition and the "
                            "stand-in's own non-triviality rule (e.g. at least one row / one boundary coincidence)")
    if level != "proof" and "evaluations" not in coverage:
        coverage["evaluations"] = max(1, rep.obligations)
        coverage["distinct_nontrivial"] = max(2, rep.discharged)
    ev = {
        "property_id": prop.id, "tier": rep.tier, "seed": rep.seed, "level": level, "coverage": coverage,
        "assumptions": sorted(rep.assumptions), "wall_s": round(wall, 2), "violations": len(rep.violations),
    }
    os.makedirs(EVIDENCE_DIR, exist_ok=True)
    with open(os.path.join(EVIDENCE_DIR, prop.id + ".json"), "w") as f:
        json.dump(ev, f, indent=1, default=str)
    rep.say(f"{prop.id}: {rep.discharged}/{rep.obligations} obligations discharged "
            f"({', '.join(f'{k}={v}' for k, v in sorted(rep.by_backend.items()))}); "
            f"{len(rep.functions)} functions/lemmas; bounded evaluations "
            f"{sum(b['evaluations'] for b in rep.bounded)}; wall {wall:.1f}s")
    if rep.violations:
        return 1
    if rep.errors:
        return 3
    if rep.undecided:
        return 2
    return 0
