"""Call dispatch: contracts (modular), inlined closures, trusted library models, abstractions."""

import ast

import z3
from .ops import BindingError

from .engine import (Unsupported, Arr, Row, RowVec, Vec, Ref, Opq, PyRange, PyEnum, PyZip, PNONE, St, Fr,
                     Closure, Named, Exc, V, NONE, _is_z3, _const_int, dotted_name, find_function,
                     normalize_clauses, truthy, int2v, v2int, strv)
from .ops import Namespace

LIB = {}
METHODS = {}


def lib(*names):
    def deco(f):
        for n in names:
            LIB[n] = f
        return f
    return deco


def method(kind, *names):
    def deco(f):
        for n in names:
            METHODS[(kind, n)] = f
        return f
    return deco


# --------------------------------------------------------------------------------------
def eval_args(eng, e, st, fr, k):
    """Evaluate positional and keyword arguments; ``k(args, kwargs, st)``."""
    pos = []
    starred = set()
    for j, a in enumerate(e.args):
        if isinstance(a, ast.Starred):
            starred.add(j)
            pos.append(a.value)
        else:
            pos.append(a)

    def got_pos(args, s1):
        if starred:
            flat = []
            for j, v in enumerate(args):
                if j in starred:
                    if not isinstance(v, (list, tuple)):
                        raise Unsupported("*args of a non-literal sequence")
                    flat.extend(v)
                else:
                    flat.append(v)
            args = flat
        kws = e.keywords

        def go(i, s2, acc):
            if i == len(kws):
                return k(args, acc, s2)
            kw = kws[i]

            def cont(v, s3):
                acc2 = dict(acc)
                if kw.arg is None:
                    if isinstance(v, Opq):
                        acc2["**"] = v        # ``**d`` of an opaque dict: handed to the callee's handler as one value
                    elif not isinstance(v, dict):
                        raise Unsupported("**kwargs of a non-literal dict")
                    else:
                        acc2.update(v)
                else:
                    acc2[kw.arg] = v
                return go(i + 1, s3, acc2)
            return eng.ev(kw.value, s2, fr, cont)
        return go(0, s1, {})
    return eng.ev_list(pos, st, fr, got_pos)


def call(eng, e, st, fr, k):
    fname = dotted_name(e.func)
    cur = eng.cur
    # 1. per-contract overrides
    if fname is not None and cur is not None and fname in cur.calls:
        h = cur.calls[fname]
        return eval_args(eng, e, st, fr, lambda a, kw, s: _dispatch_handler(eng, h, fname, a, kw, s, fr, k, e))
    # 2. local closure
    if isinstance(e.func, ast.Name) and isinstance(st.env.get(e.func.id), Closure):
        clo = st.env[e.func.id]
        return eval_args(eng, e, st, fr, lambda a, kw, s: inline_call(eng, clo, a, kw, s, fr, k, e))
    # 3. contract of the callee
    if fname is not None:
        c = eng.registry.lookup_call(fname, cur)
        if c is not None:
            return eval_args(eng, e, st, fr, lambda a, kw, s: contract_call(eng, c, a, kw, s, fr, k, e))
    # 4. library model
    if fname is not None and fname in LIB and fname.split(".")[0] not in st.env:
        return eval_args(eng, e, st, fr, lambda a, kw, s: LIB[fname](eng, a, kw, s, fr, k, e))
    # 5. method on an evaluated receiver
    if isinstance(e.func, ast.Attribute):
        def with_recv(recv, s0):
            if isinstance(recv, dict) and e.func.attr == "update" and isinstance(e.func.value, (ast.Name, ast.Attribute)):
                # d.update(other) on a literal dict held by value: rebind the location to the merged dict
                def merged(a, kw, s):
                    other = a[0] if a else {}
                    if not isinstance(other, dict):
                        raise Unsupported("dict.update with a non-literal dict")
                    new = {**recv, **other, **kw}
                    return eng.assign(e.func.value, new, s, fr, lambda s2: k(PNONE, s2), e)
                return eval_args(eng, e, s0, fr, merged)
            if isinstance(recv, dict) and e.func.attr == "setdefault" and isinstance(e.func.value, (ast.Name, ast.Attribute)):
                # d.setdefault("key", default) on a literal dict held by value
                def setdef(a, kw, s):
                    if not a or not isinstance(a[0], str):
                        raise Unsupported("dict.setdefault with a non-constant key")
                    if a[0] in recv:
                        return k(recv[a[0]], s)
                    val = a[1] if len(a) > 1 else PNONE
                    new = {**recv, a[0]: val}
                    return eng.assign(e.func.value, new, s, fr, lambda s2: k(val, s2), e)
                return eval_args(eng, e, s0, fr, setdef)
            kind = value_kind(recv)
            m = METHODS.get((kind, e.func.attr))
            if m is None and isinstance(recv, Ref) and recv.kind == "obj":
                meths = s0.heap[recv.base].get("#methods", {})
                if e.func.attr in meths:
                    h = meths[e.func.attr]
                    return eval_args(eng, e, s0, fr, lambda a, kw, s: _dispatch_handler(
                        eng, h, e.func.attr, [recv] + a, kw, s, fr, k, e))
            if m is None and not isinstance(recv, Closure) and cur is not None and ("." + e.func.attr) in cur.calls:
                h = cur.calls["." + e.func.attr]
                return eval_args(eng, e, s0, fr, lambda a, kw, s: _dispatch_handler(
                    eng, h, e.func.attr, [recv] + a, kw, s, fr, k, e))
            if m is None and isinstance(recv, Opq):
                m = _opq_method(e.func.attr)
            if m is None:
                if isinstance(recv, Closure):
                    raise Unsupported("method on closure")
                raise Unsupported(f"call of {fname or e.func.attr} (receiver {kind}) at line {e.lineno}: "
                                  f"no contract, model or declared abstraction")
            return eval_args(eng, e, s0, fr, lambda a, kw, s: m(eng, recv, a, kw, s, fr, k, e))
        return eng.ev(e.func.value, st, fr, with_recv)
    # 6. value call
    if isinstance(e.func, (ast.Lambda,)):
        return eng.ev(e.func, st, fr, lambda clo, s0: eval_args(
            eng, e, s0, fr, lambda a, kw, s: inline_call(eng, clo, a, kw, s, fr, k, e)))
    # 7. call of a computed callee (``TABLE[key]["f"](x)``): only through a declared treatment ``call:computed``; the handler gets
    #    the evaluated callee as first argument
    if isinstance(e.func, ast.Subscript) and cur is not None and "call:computed" in cur.calls:
        h = cur.calls["call:computed"]
        return eng.ev(e.func, st, fr, lambda callee, s0: eval_args(
            eng, e, s0, fr, lambda a, kw, s: _dispatch_handler(eng, h, "call:computed", [callee] + a, kw, s, fr, k, e)))
    raise Unsupported(f"call of {fname} at line {e.lineno}: no contract, model or declared abstraction")


def value_kind(v):
    if _is_z3(v) and z3.is_arith(v):
        return "num"
    if isinstance(v, Ref):
        return v.kind
    if isinstance(v, Arr):
        return "arr"
    if isinstance(v, Vec):
        return "vec"
    if isinstance(v, Opq):
        return "opq"
    if isinstance(v, dict):
        return "pydict"
    if isinstance(v, list):
        return "pylist"
    if isinstance(v, str):
        return "str"
    if isinstance(v, RowVec):
        return "rowvec"
    return type(v).__name__


def _dispatch_handler(eng, h, fname, args, kwargs, st, fr, k, node):
    if hasattr(h, "requires") and "." in fname and not getattr(h, "constructor", False) and not h.static:
        # ``recv.method(...)`` bound to a method contract: the receiver becomes ``self``
        fn, _ = find_function(h.file, h.qualname)
        params = [a.arg for a in fn.args.posonlyargs + fn.args.args]
        recv = fname.split(".")[0]
        if params and params[0] == "self" and fname.count(".") == 1 and recv in st.env:
            args = [st.env[recv]] + list(args)
    if callable(h) and not hasattr(h, "requires"):
        return h(eng, args, kwargs, st, fr, k, node)
    if isinstance(h, Abstract):
        return h.apply(eng, fname, args, kwargs, st, fr, k, node)
    if hasattr(h, "requires"):  # a Contract
        return contract_call(eng, h, args, kwargs, st, fr, k, node)
    raise Unsupported(f"bad call handler for {fname}")


class Abstract:
    """Declared abstraction of a call: fresh (or pure-functional) result, no effect on tracked state."""

    def __init__(self, sort="V", pure=False, may_raise=None, truthy_result=None, note=""):
        self.sort, self.pure, self.may_raise, self.note = sort, pure, may_raise, note

    def apply(self, eng, fname, args, kwargs, st, fr, k, node):
        eng.assumptions.add(f"abstracted call {fname}() in {eng.cur.key}: "
                            f"{'pure function of its arguments' if self.pure else 'fresh result'}, no effect on tracked state"
                            + (f" ({self.note})" if self.note else ""))
        if self.may_raise:
            for cls in self.may_raise:
                fr.on_raise(Exc(cls, Opq(eng.fresh("exc", "V"))), st)
        if self.sort is None:
            return k(PNONE, st)
        if self.pure:
            try:
                vs = [eng.to_v(a) for a in args] + [eng.to_v(kwargs[x]) for x in sorted(kwargs)]
            except Unsupported:
                vs = None
            if vs is not None:
                sorts = [V] * len(vs) + [z3.IntSort() if self.sort == "int" else z3.BoolSort() if self.sort == "bool" else V]
                f = z3.Function("fn:" + fname, *sorts)
                t = f(*vs)
                return k(t if self.sort in ("int", "bool") else Opq(t), st)
        t = eng.fresh("ret:" + fname, self.sort)
        return k(t if self.sort in ("int", "bool", "real") else Opq(t), st)


# --------------------------------------------------------------------------------------
# binding of arguments to a real signature
# --------------------------------------------------------------------------------------
def bind_signature(eng, fn_args, args, kwargs, st, defaults_env=None, skip_self=False):
    params = [a.arg for a in fn_args.posonlyargs + fn_args.args]
    if skip_self:
        params = params[1:]
    bound = {}
    if len(args) > len(params) and fn_args.vararg is None:
        raise Unsupported("too many positional arguments")
    for p, a in zip(params, args):
        bound[p] = a
    kwonly = [a.arg for a in fn_args.kwonlyargs]
    extra = {}
    for key, v in kwargs.items():
        if key in params or key in kwonly:
            if key in bound:
                raise Unsupported(f"duplicate argument {key}")
            bound[key] = v
        elif fn_args.kwarg is not None:
            extra[key] = v
        else:
            raise Unsupported(f"unexpected keyword {key}")
    if fn_args.kwarg is not None:
        bound[fn_args.kwarg.arg] = extra
    # defaults
    pos_all = fn_args.posonlyargs + fn_args.args
    defaults = fn_args.defaults
    for a, d in zip(pos_all[len(pos_all) - len(defaults):], defaults):
        if a.arg not in bound and not (skip_self and a is pos_all[0]):
            bound[a.arg] = const_default(eng, d)
    for a, d in zip(fn_args.kwonlyargs, fn_args.kw_defaults):
        if a.arg not in bound and d is not None:
            bound[a.arg] = const_default(eng, d)
    missing = [p for p in params + kwonly if p not in bound]
    if missing:
        raise Unsupported(f"missing arguments {missing}")
    return bound


def const_default(eng, d):
    if isinstance(d, ast.Constant):
        v = d.value
        if v is None:
            return PNONE
        if isinstance(v, bool):
            return z3.BoolVal(v)
        if isinstance(v, int):
            return z3.IntVal(v)
        if isinstance(v, str):
            return v
        if isinstance(v, float):
            return z3.RealVal(repr(v))
    name = dotted_name(d)
    if name is not None and eng.cur is not None and name in eng.cur.consts:
        return eng.cur.consts[name]
    if isinstance(d, ast.UnaryOp) and isinstance(d.op, ast.USub) and isinstance(d.operand, ast.Constant):
        return z3.IntVal(-d.operand.value)
    if isinstance(d, (ast.Tuple, ast.List)) and not d.elts:
        return () if isinstance(d, ast.Tuple) else []
    return Opq(z3.Const("default:" + ast.unparse(d), V))


# --------------------------------------------------------------------------------------
def inline_call(eng, clo, args, kwargs, st, fr, k, node):
    fn = clo.node
    bound = bind_signature(eng, fn.args, args, kwargs, st)
    caller_env = st.env
    env = dict(clo.env)
    env.update(bound)
    s_in = St(env, st.heap, st.pc, st.ghost)

    def ret(v, s):
        return k(v, St(caller_env, s.heap, s.pc, s.ghost))

    def rz(exc, s):
        return fr.on_raise(exc, St(caller_env, s.heap, s.pc, s.ghost))
    if isinstance(fn, ast.Lambda):
        return eng.ev(fn.body, s_in, fr.with_(on_raise=rz), ret)
    from .loops import loop_ordinals
    fr_in = Fr(on_return=ret, on_raise=rz, fn=dict(fr.fn, ordinals={**fr.fn["ordinals"], **{
        kid: ("inl", v) for kid, v in loop_ordinals(fn).items()}}))
    return eng.ex(fn.body, s_in, fr_in, lambda s: ret(PNONE, s))


def inline_source(relpath, qualname, skip_self=False):
    """Handler that inlines a (loop-free) helper read from the real source."""
    def h(eng, args, kwargs, st, fr, k, node):
        fn, _ = find_function(relpath, qualname)
        clo = Closure(fn, {})
        return inline_call(eng, clo, args, kwargs, st, fr, k, node)
    return h


# --------------------------------------------------------------------------------------
def contract_call(eng, c, args, kwargs, st, fr, k, node):
    fn, _ = find_function(c.file, c.qualname)
    is_method = "." in c.qualname and not c.static
    if is_method and c.receiver_from_call:
        pass
    new_obj = None
    if getattr(c, "constructor", False):
        from .contract import make_symbolic
        new_obj, st = make_symbolic(eng, eng.new_base("new:" + c.qualname.split(".")[0]),
                                    c.new_obj or c.params["self"], st, set())
        args = [new_obj] + list(args)
    bound = bind_signature(eng, fn.args, args, kwargs, st)
    label = f"call {c.qualname}@{getattr(node, 'lineno', 0)}"
    pre_ns = Namespace({p: eng.resolve(v, st.heap) for p, v in bound.items()})
    pre_ns.__dict__["old"] = pre_ns
    pre_ns.__dict__["arg"] = pre_ns
    pre_ns.__dict__["ghost"] = Namespace({g_: eng.resolve(v_, st.heap) for g_, v_ in st.ghost.items() if not g_.startswith("#")})
    if c.requires is not None:
        try:
            pre = c.requires(eng.S, pre_ns)
        except (BindingError, TypeError, AttributeError, z3.Z3Exception) as ex:
            # the (changed) caller passes something the callee's contract cannot even be stated for: the precondition is not
            # established - a failed obligation; the path is not followed further
            eng.oblige("precondition", f"{label}: the arguments have the types the callee's contract is stated for "
                                       f"({type(ex).__name__}: {str(ex)[:120]})", st, z3.BoolVal(False), node)
            return None
        eng.oblige_clauses("precondition", label, st, pre, node)
    eng.assumptions  # (contracts used are recorded by the runner)
    eng.used_contracts.add(c.key)
    # exceptional outcomes
    for cls, cond in (c.raises or {}).items():
        f = cond(eng.S, pre_ns)
        fr.on_raise(Exc(cls), st.assume(eng.S.b(f)))
    # normal outcome: havoc the frame, create the result, assume the postcondition
    s2 = st
    from .loops import havoc_heap
    for m in c.modifies or []:
        v = bound[m.split(".")[0]]
        s2 = havoc_heap(eng, s2, v, "*" if "." not in m else ("attr", m.split(".", 1)[1]))
    result, s2 = c.make_result(eng, s2, bound) if c.make_result else (PNONE, s2)
    if new_obj is not None:
        result = new_obj
        if c.init_obj is not None:
            s2 = c.init_obj(eng, s2, bound, new_obj)
    post_ns = Namespace({p: eng.resolve(v, s2.heap) for p, v in bound.items()})
    post_ns.__dict__["old"] = pre_ns
    post_ns.__dict__["arg"] = post_ns
    post_ns.__dict__["local"] = _FreshLocals(eng)
    post_ns.__dict__["ghost"] = Namespace({g_: eng.resolve(v_, s2.heap) for g_, v_ in s2.ghost.items() if not g_.startswith("#")})
    res = eng.resolve(result, s2.heap)
    if c.ensures is not None:
        eng.S.assuming = True
        try:
            clauses = normalize_clauses(c.ensures(eng.S, post_ns, res))
        finally:
            eng.S.assuming = False
        for _, f in clauses:
            s2 = s2.assume(eng.S.b(f))
    return k(result, s2)


# --------------------------------------------------------------------------------------
# builtins
# --------------------------------------------------------------------------------------
@lib("len")
def _len(eng, a, kw, st, fr, k, node):
    v = a[0]
    if isinstance(v, (Arr, Vec, RowVec)):
        return k(v.n, st)
    if isinstance(v, (list, tuple, dict, str)):
        return k(z3.IntVal(len(v)), st)
    if type(v).__name__ == "ItemList":
        return k(v.cell["n"], st)
    if isinstance(v, PySet):
        # number of distinct elements: 1 exactly when all are equal, at most the number of elements
        n = eng.fresh("set_size")
        all_eq = z3.And(*[eng.equal(v.elems[0], x) for x in v.elems[1:]]) if len(v.elems) > 1 else z3.BoolVal(True)
        return k(n, st.assume(z3.And(n >= 1, n <= len(v.elems), (n == 1) == all_eq)))
    if isinstance(v, Ref) and v.kind == "list":
        return k(st.heap[v.base]["n"], st)
    if isinstance(v, Ref) and v.kind == "msgheap":
        return k(st.heap[v.base]["size"], st)
    if isinstance(v, Ref) and v.kind == "obj":
        cell = st.heap[v.base]
        if "#len" in cell:
            return cell["#len"](eng, v, st, fr, k, node)
    if isinstance(v, Ref) and v.kind == "dict":
        cell = st.heap[v.base]
        if "size" in cell:
            return k(cell["size"], st)
    if isinstance(v, Opq):
        f = z3.Function("len", V, z3.IntSort())
        t = f(v.t)
        return k(t, st.assume(t >= 0))
    raise Unsupported(f"len of {type(v).__name__}")


@lib("range")
def _range(eng, a, kw, st, fr, k, node):
    if len(a) == 1:
        return k(PyRange(z3.IntVal(0), eng.to_int(a[0])), st)
    if len(a) == 2:
        return k(PyRange(eng.to_int(a[0]), eng.to_int(a[1])), st)
    raise Unsupported("range with step")


@lib("enumerate")
def _enumerate(eng, a, kw, st, fr, k, node):
    start = kw.get("start", a[1] if len(a) > 1 else z3.IntVal(0))
    return k(PyEnum(a[0], start), st)


@lib("zip")
def _zip(eng, a, kw, st, fr, k, node):
    return k(PyZip(list(a)), st)


@lib("max", "min")
def _maxmin(eng, a, kw, st, fr, k, node):
    name = dotted_name(node.func)
    if len(a) == 1 and isinstance(a[0], Ref) and a[0].kind == "list":
        # min / max of a list: an element that bounds all elements (or the default for an empty list)
        cell = st.heap[a[0].base]
        n, items = cell["n"], cell["items"]
        m = eng.fresh(name)
        if "default" not in kw:
            eng.oblige("safety", f"{name}() of a non-empty list", st, n > 0, node)
        cmp_ = (lambda x: m <= x) if name == "min" else (lambda x: m >= x)
        bound = eng.S.forall(0, n, lambda j: cmp_(z3.Select(items, j)))
        att = eng.S.exists(0, n, lambda j: z3.Select(items, j) == m)
        if "default" in kw:
            d = eng.to_int(kw["default"])
            fact = z3.If(n == 0, m == d, z3.And(bound, att))
        else:
            fact = z3.And(bound, att)
        return k(m, st.assume(fact))
    if len(a) == 1 and isinstance(a[0], (list, tuple)):
        a = list(a[0])
    if len(a) < 2:
        raise Unsupported("max/min of a symbolic sequence")
    xs = [eng.to_int(x) for x in a]
    r = xs[0]
    for x in xs[1:]:
        r = z3.If(r >= x, r, x) if name == "max" else z3.If(r <= x, r, x)
    return k(r, st)


@lib("abs", "np.abs")
def _abs(eng, a, kw, st, fr, k, node):
    if isinstance(a[0], (Vec, Arr)):
        v = eng.as_vec(a[0], st)
        return k(Vec(v.n, lambda i: z3.If(v.fn(i) >= 0, v.fn(i), -v.fn(i))), st)
    x = eng.to_int(a[0])
    return k(z3.If(x >= 0, x, -x), st)


@lib("np.int32", "np.int64", "np.int16", "np.int8")
def _np_int(eng, a, kw, st, fr, k, node):
    """np.int32(x) of an integer: the same mathematical integer (machine width is not modelled - listed assumption)"""
    v = a[0]
    if _is_z3(v) and z3.is_int(v):
        eng.assumptions.add("np.intNN(x) casts are the identity on mathematical integers (no wrap-around)")
        return k(v, st)
    if isinstance(v, int):
        return k(z3.IntVal(v), st)
    raise Unsupported("np.intNN of a non-integer")


@lib("int")
def _int(eng, a, kw, st, fr, k, node):
    v = a[0]
    if _is_z3(v) and z3.is_int(v):
        return k(v, st)
    if isinstance(v, int):
        return k(z3.IntVal(v), st)
    if _is_z3(v) and z3.is_real(v):
        # int() truncates towards zero
        t = z3.If(v >= 0, z3.ToInt(v), -z3.ToInt(-v))
        return k(t, st)
    if isinstance(v, Opq):
        # int(x) of a dynamic value: TypeError for None; a value that is not integer-valued may raise ValueError
        # (or convert, like 1.5 -> 1); an integer-valued thing converts to itself
        from .engine import int2v
        fr.on_raise(Exc("TypeError"), st.assume(v.t == NONE))
        fr.on_raise(Exc("ValueError"), st.assume(z3.And(v.t != NONE, v.t != int2v(v2int(v.t)))))
        return k(v2int(v.t), st.assume(v.t != NONE))
    if _is_z3(v) and z3.is_bool(v):
        return k(z3.If(v, 1, 0), st)
    raise Unsupported("int() of " + type(v).__name__)


@lib("bool")
def _bool(eng, a, kw, st, fr, k, node):
    return k(eng.truth(a[0]), st)


@lib("isinstance")
def _isinstance(eng, a, kw, st, fr, k, node):
    v, cls = a
    names = [c.name for c in (cls if isinstance(cls, tuple) else (cls,))]
    key = "+".join(names)
    if isinstance(v, Arr):
        return k(z3.BoolVal(any(n in ("np.ndarray",) for n in names)), st)
    if v is PNONE:
        return k(z3.BoolVal(False), st)
    if isinstance(v, Exc):
        from .engine import exc_is_subclass
        if v.cls == "Any":
            return k(z3.Function("isinstance:" + key, V, z3.BoolSort())(eng.to_v(v)), st)
        return k(z3.BoolVal(any(exc_is_subclass(v.cls, n.split(".")[-1]) for n in names)), st)
    if isinstance(v, dict) or (isinstance(v, Ref) and v.kind == "dict"):
        return k(z3.BoolVal("dict" in names), st)
    if _is_z3(v) and z3.is_int(v):
        return k(z3.BoolVal(any(n in ("int", "np.integer", "numbers.Integral") for n in names)), st)
    if isinstance(v, Ref) and v.kind == "obj":
        cls_name = st.heap[v.base].get("#cls")
        return k(z3.BoolVal(any(n.split(".")[-1] == cls_name for n in names)), st)
    if isinstance(v, (tuple, list)):
        # a Python tuple / list held by value
        return k(z3.BoolVal(any(n in (type(v).__name__, "collections.abc.Sequence") for n in names)), st)
    if isinstance(v, Opq):
        f = z3.Function("isinstance:" + key, V, z3.BoolSort())
        r = f(v.t)
        if all(n in ("int", "np.integer", "numbers.Integral") for n in names):
            # an instance of an integer type is an integer value (and not None)
            from .engine import int2v
            st = st.assume(z3.Implies(r, z3.And(v.t == int2v(v2int(v.t)), v.t != NONE)))
        return k(r, st)
    raise Unsupported(f"isinstance of {type(v).__name__}")


@lib("print", "warn", "warnings.warn", "gc.collect", "time.sleep")
def _noop(eng, a, kw, st, fr, k, node):
    return k(PNONE, st)


@lib("dict")
def _dict(eng, a, kw, st, fr, k, node):
    if not a:
        return k(dict(kw), st)
    if len(a) == 1 and isinstance(a[0], Opq) and not kw:
        return k(Opq(z3.Function("fn:dict", V, V)(a[0].t)), st)
    if len(a) == 1 and isinstance(a[0], dict):
        # dict(d) of a literal dict held by value: a (shallow) copy, later stores go to the copy only
        return k({**a[0], **kw}, st)
    raise Unsupported("dict(x)")


@lib("list")
def _list(eng, a, kw, st, fr, k, node):
    if not a:
        return k([], st)
    if isinstance(a[0], Ref) and a[0].kind in ("dict_keys", "dict_values", "dict_items"):
        from . import dicts
        cell = st.heap[a[0].base]
        for f in dicts.wf(cell):
            st = st.assume(f)
        return k(dicts.ItemList(cell, a[0].kind.split("_")[1]), st)
    if isinstance(a[0], (list, tuple)):
        return k(list(a[0]), st)
    if isinstance(a[0], Opq):
        return k(Opq(z3.Function("fn:list", V, V)(a[0].t)), st)
    raise Unsupported("list(x) of symbolic")


def _opq_method(name):
    def m(eng, recv, a, kw, st, fr, k, node):
        eng.assumptions.add(f"method .{name}() on an opaque value is a pure uninterpreted function of receiver and arguments")
        try:
            vs = [recv.t] + [eng.to_v(x) for x in a] + [eng.to_v(kw[x]) for x in sorted(kw)]
        except Unsupported:
            return k(Opq(eng.fresh("ret:" + name, "V")), st)
        f = z3.Function("method:" + name, *([V] * (len(vs) + 1)))
        return k(Opq(f(*vs)), st)
    return m


@lib("sorted")
def _sorted(eng, a, kw, st, fr, k, node):
    """sorted(x) of an opaque collection: an uninterpreted function of x (a different value from x itself); with key= / reverse=
    only a fresh value"""
    if len(a) == 1 and isinstance(a[0], Opq) and not kw:
        return k(Opq(z3.Function("fn:sorted", V, V)(a[0].t)), st)
    if len(a) == 1 and isinstance(a[0], (list, tuple)) and not a[0]:
        return k([], st)
    return k(Opq(eng.fresh("sorted", "V")), st)


@lib("tuple")
def _tuple(eng, a, kw, st, fr, k, node):
    if isinstance(a[0], (list, tuple)):
        return k(tuple(a[0]), st)
    if isinstance(a[0], Opq):
        t = z3.Function("fn:tuple", V, V)(a[0].t)
        q = z3.Const("tq", V)
        ct = z3.Function("contains", V, V, z3.BoolSort())
        # a tuple of an iterable has exactly its elements
        return k(Opq(t), st.assume(z3.ForAll([q], ct(t, q) == ct(a[0].t, q), patterns=[ct(t, q)])))
    if isinstance(a[0], Ref) and a[0].kind == "list":
        # a tuple with the elements of a symbolic list: only its identity is kept
        return k(Opq(eng.fresh("tuple_of_list", "V")), st)
    raise Unsupported("tuple(x) of symbolic")


# -- numpy ---------------------------------------------------------------------------
def _new_array(eng, st, n, init, sort="int", ncols=None, hint="arr"):
    base = eng.new_base(hint)
    if ncols is not None:
        arr = z3.K(z3.IntSort(), z3.K(z3.IntSort(), init))
        cell = {"": arr, "#sorts": {"": sort + "2"}}
        st = St(st.env, {**st.heap, base: cell}, st.pc, st.ghost)
        return Arr(base, "", z3.IntVal(0), n, ncols), st
    arr = z3.K(z3.IntSort(), init)
    cell = {"": arr, "#sorts": {"": sort}}
    st = St(st.env, {**st.heap, base: cell}, st.pc, st.ghost)
    return Arr(base, "", z3.IntVal(0), n), st


def _dtype_sort(kw, default="real"):
    d = kw.get("dtype")
    if isinstance(d, Named):
        if "int" in d.name or "bool" in d.name:
            return "int"
        if "float" in d.name:
            return "real"
    if d is None:
        return default
    return default


@lib("np.zeros", "np.ones")
def _np_zeros(eng, a, kw, st, fr, k, node):
    name = dotted_name(node.func)
    sort = _dtype_sort(kw, "real")
    one = 1 if name == "np.ones" else 0
    init = z3.IntVal(one) if sort == "int" else z3.RealVal(one)
    shape = a[0]
    if isinstance(shape, tuple):
        n = eng.to_int(shape[0])
        ncols = _const_int(shape[1])
        if ncols is None:
            raise Unsupported("2-D array with symbolic width")
        arr, st = _new_array(eng, st, n, init, sort, ncols=ncols, hint="np")
    else:
        n = eng.to_int(shape)
        arr, st = _new_array(eng, st, n, init, sort, hint="np")
    # numpy raises ValueError("negative dimensions are not allowed")
    fr.on_raise(Exc("ValueError"), st.assume(n < 0))
    return k(arr, st.assume(n >= 0))


@lib("np.arange")
def _np_arange(eng, a, kw, st, fr, k, node):
    """np.arange(lo, hi) / np.arange(hi) with integer arguments and unit step: the lazy vector lo, lo+1, ..., hi-1"""
    if len(a) == 1:
        lo, hi = z3.IntVal(0), eng.to_int(a[0])
    elif len(a) == 2:
        lo, hi = eng.to_int(a[0]), eng.to_int(a[1])
    else:
        raise Unsupported("np.arange with a step")
    if not (z3.is_int(lo) and z3.is_int(hi)):
        raise Unsupported("np.arange over non-integers")
    n = z3.If(hi > lo, hi - lo, z3.IntVal(0))
    return k(Vec(z3.simplify(n), lambda i: lo + i), st)


@lib("np.all")
def _np_all(eng, a, kw, st, fr, k, node):
    v = eng.as_vec(a[0], st)
    return k(eng.S.forall(0, v.n, lambda i: eng.truth(v.fn(i))), st)


@lib("np.any")
def _np_any(eng, a, kw, st, fr, k, node):
    v = eng.as_vec(a[0], st)
    return k(eng.S.exists(0, v.n, lambda i: eng.truth(v.fn(i))), st)


@method("arr", "copy")
def _arr_copy(eng, recv, a, kw, st, fr, k, node):
    # a copy of a view: fresh base with equal contents on the view's range
    base = eng.new_base("copy")
    cell = dict(st.heap[recv.base])
    s2 = St(st.env, {**st.heap, base: cell}, st.pc, st.ghost)
    dt = z3.Function("dtype_of", V, V)
    s2 = s2.assume(dt(z3.Const("arr:" + base, V)) == dt(z3.Const("arr:" + recv.base, V)))
    return k(Arr(base, recv.field, recv.lo, recv.n, recv.ncols), s2)


@method("pylist", "append")
def _pylist_append(eng, recv, a, kw, st, fr, k, node):
    recv.append(a[0])  # concrete python list held by value: only valid for straight-line code
    return k(PNONE, st)


@method("list", "append")
def _list_append(eng, recv, a, kw, st, fr, k, node):
    cell = st.heap[recv.base]
    n = cell["n"]
    if "items" in cell:
        s2 = st.with_cell(recv.base, "items", z3.Store(cell["items"], n, eng.to_sort(a[0], cell["items"].range())))
    else:
        s2 = st
        if not isinstance(a[0], tuple):
            raise Unsupported("append of a non-tuple to a list of tuples")
        for j, x in enumerate(a[0]):
            arr = cell[f"items{j}"]
            s2 = s2.with_cell(recv.base, f"items{j}", z3.Store(arr, n, eng.to_sort(x, arr.range())))
    s2 = s2.with_cell(recv.base, "n", n + 1)
    return k(PNONE, s2)


def _dict_m(name):
    def m(eng, recv, a, kw, st, fr, k, node):
        from . import dicts
        if "keys" not in st.heap[recv.base]:
            raise Unsupported("method on an untracked dict")
        if name == "pop":
            return dicts.pop(eng, recv, a, kw, st, fr, k, node)
        return dicts.view_method(name)(eng, recv, a, kw, st, fr, k, node)
    return m


for _n in ("items", "keys", "values", "pop"):
    METHODS[("dict", _n)] = _dict_m(_n)


@method("pydict", "items")
def _pydict_items(eng, recv, a, kw, st, fr, k, node):
    return k([(key, v) for key, v in recv.items()], st)


@method("pydict", "keys")
def _pydict_keys(eng, recv, a, kw, st, fr, k, node):
    return k(list(recv.keys()), st)


@method("pydict", "values")
def _pydict_values(eng, recv, a, kw, st, fr, k, node):
    return k(list(recv.values()), st)


@method("pydict", "get")
def _pydict_get(eng, recv, a, kw, st, fr, k, node):
    if isinstance(a[0], str):
        return k(recv.get(a[0], a[1] if len(a) > 1 else PNONE), st)
    raise Unsupported("dict.get with symbolic key")


@method("opq", "startswith")
def _startswith(eng, recv, a, kw, st, fr, k, node):
    f = z3.Function("startswith", V, V, z3.BoolSort())
    return k(f(recv.t, eng.to_v(a[0])), st)


@method("str", "startswith")
def _str_startswith(eng, recv, a, kw, st, fr, k, node):
    if isinstance(a[0], str):
        return k(z3.BoolVal(recv.startswith(a[0])), st)
    raise Unsupported("startswith symbolic")


def with_stmt(eng, s, st, fr, k):
    # ``with lock:`` - handled by the monitor layer when the contract declares one
    if eng.cur is not None and eng.cur.with_handler is not None:
        return eng.cur.with_handler(eng, s, st, fr, k)
    raise Unsupported("with statement")


def plain_with(eng, s, st, fr, k):
    """``with <expr> as name:`` for resources (files): the managed object is an opaque value, entering and leaving
    have no effect on tracked state and never swallow an exception."""
    eng.assumptions.add(f"with-statement at line {s.lineno} of {eng.cur.key}: opaque resource, __exit__ does not swallow exceptions")

    def go(i, s1):
        if i == len(s.items):
            return eng.ex(s.body, s1, fr, k)
        it = s.items[i]

        def got(v, s2):
            if it.optional_vars is None:
                return go(i + 1, s2)
            res = Opq(eng.fresh("resource", "V"))
            return eng.assign(it.optional_vars, res, s2, fr, lambda s3: go(i + 1, s3), s)
        return eng.ev(it.context_expr, s1, fr, got)
    return go(0, st)


@lib("strax.endtime", "endtime")
def _endtime(eng, a, kw, st, fr, k, node):
    """strax.endtime: the 'endtime' field, or time + length*dt when the dtype has no such field."""
    x = a[0]
    if isinstance(x, Opq):
        return k(Opq(z3.Function("fn:strax.endtime", V, V)(x.t)), st)
    base = x.base
    sorts = st.heap.get(base, {}).get("#sorts", {})
    computed = "endtime" not in sorts and "length" in sorts and "dt" in sorts
    if isinstance(x, Row):
        if computed:
            g = lambda f: z3.Select(eng.heap_field(st.heap, base, f), x.idx)
            return k(g("time") + g("length") * g("dt"), st)
        return k(z3.Select(eng.heap_field(st.heap, base, "endtime"), x.idx), st)
    if isinstance(x, Arr) and x.field is None:
        if computed:
            t, l, d = (eng.heap_field(st.heap, base, f) for f in ("time", "length", "dt"))
            lo = x.lo
            return k(Vec(x.n, lambda i: z3.Select(t, lo + i) + z3.Select(l, lo + i) * z3.Select(d, lo + i)), st)
        return k(Arr(base, "endtime", x.lo, x.n), st)
    if isinstance(x, Opq):
        return k(Opq(z3.Function("fn:strax.endtime", V, V)(x.t)), st)
    raise Unsupported("strax.endtime of " + type(x).__name__)


# -- sorting (trusted model of numpy's stable argsort) --------------------------------------
def argsort_facts(S, arr, perm, inv):
    """perm is a stable sorting permutation of arr; inv is its inverse (ghost)."""
    m = arr.n
    return [
        perm.n == m, inv.n == m,
        S.forall(0, m, lambda i: S.And(0 <= perm.at(i), perm.at(i) < m, inv.at(perm.at(i)) == i)),
        S.forall(0, m, lambda c: S.And(0 <= inv.at(c), inv.at(c) < m, perm.at(inv.at(c)) == c)),
        S.forall2(0, m, 0, m, lambda i, j: S.Implies(i <= j, arr.at(perm.at(i)) <= arr.at(perm.at(j)))),
        S.forall2(0, m, 0, m, lambda i, j: S.Implies(
            S.And(i < j, arr.at(perm.at(i)) == arr.at(perm.at(j))), perm.at(i) < perm.at(j))),
    ]


def new_int_array(eng, st, hint, n=None):
    """Fresh, unconstrained 1-D int array value."""
    base = eng.new_base(hint)
    n = eng.fresh_len(hint) if n is None else n
    cell = {"#sorts": {"": "int"}}
    st = St(st.env, {**st.heap, base: cell}, st.pc, st.ghost)
    return Arr(base, "", z3.IntVal(0), n), st


@lib("np.argsort")
def _np_argsort(eng, a, kw, st, fr, k, node):
    kind = kw.get("kind")
    if kind != "mergesort":
        raise Unsupported("np.argsort with a kind other than the literal 'mergesort'")
    x = a[0]
    if not (isinstance(x, Arr) and x.field is not None):
        raise Unsupported("argsort of a non-column value")
    perm, st = new_int_array(eng, st, "argsort", x.n)
    inv, st = new_int_array(eng, st, "argsort_inv", x.n)
    eng.assumptions.add("library model: np.argsort(kind='mergesort') returns a stable sorting permutation")
    for f in argsort_facts(eng.S, eng.resolve(x, st.heap), eng.resolve(perm, st.heap), eng.resolve(inv, st.heap)):
        st = st.assume(eng.S.b(f))
    eng.inv_of[perm.base] = inv
    return k(perm, st)


def make_perm_result(eng, st, n):
    """Result shape for sorting contracts: a fresh permutation array with a ghost inverse."""
    perm, st = new_int_array(eng, st, "perm", n)
    inv, st = new_int_array(eng, st, "perm_inv", n)
    eng.inv_of[perm.base] = inv
    return perm, st


def inline_property(relpath, qualname):
    """Property handler that inlines the (loop-free) getter read from the real source."""
    def h(eng, ref, st, fr, k, node):
        fn, _ = find_function(relpath, qualname)
        return inline_call(eng, Closure(fn, {}), [ref], {}, st, fr, k, node)
    return h


def attr_alias(name):
    """Property that simply returns another attribute (``subruns`` -> ``_subruns``)."""
    def h(eng, ref, st, fr, k, node):
        return k(st.heap[ref.base][name], st)
    return h


def inline_setter(relpath, qualname):
    def h(eng, ref, v, st, fr, k, node):
        fn, _ = find_function(relpath, qualname + "@setter")
        return inline_call(eng, Closure(fn, {}), [ref, v], {}, st, fr, lambda _r, s: k(s), node)
    return h


def setter_contract(c):
    """Use a contract as the handler of a property setter."""
    def h(eng, ref, v, st, fr, k, node):
        return contract_call(eng, c, [ref, v], {}, st, fr, lambda _r, s: k(s), node)
    return h


@method("arr", "flatten")
def _arr_flatten(eng, recv, a, kw, st, fr, k, node):
    """x.flatten() of a 1-D array: the same elements (a copy)"""
    return k(recv, st)


@method("vec", "argmin")
def _vec_argmin(eng, recv, a, kw, st, fr, k, node):
    """v.argmin(): the first index of a least element (requires a non-empty vector - numpy raises ValueError otherwise)"""
    eng.oblige("safety", "argmin() of a non-empty sequence", st, recv.n > 0, node)
    m = eng.fresh("argmin")
    fn = recv.fn
    S = eng.S
    s2 = st.assume(z3.And(0 <= m, m < recv.n))
    s2 = s2.assume(S.forall(0, recv.n, lambda j: fn(m) <= fn(j)))
    s2 = s2.assume(S.forall(0, m, lambda j: fn(m) < fn(j)))
    return k(m, s2)


@method("arr", "max", "min")
def _arr_max(eng, recv, a, kw, st, fr, k, node):
    """x.max() / x.min() of a 1-D column: the greatest / least element (requires a non-empty array)."""
    if recv.field is None:
        raise Unsupported("max of structured array")
    name = node.func.attr
    eng.oblige("safety", f"{name}() of a non-empty array", st, recv.n > 0, node)
    arr = eng.heap_field(st.heap, recv.base, recv.field)
    m = eng.fresh(name)
    lo = recv.lo
    cmp_ = (lambda x: x <= m) if name == "max" else (lambda x: x >= m)
    # quantify over absolute indices so that the facts match goals stated on the underlying array
    s2 = st.assume(eng.S.forall(lo, lo + recv.n, lambda j: cmp_(z3.Select(arr, j))))
    s2 = s2.assume(eng.S.exists(lo, lo + recv.n, lambda j: z3.Select(arr, j) == m))
    return k(m, s2)


@lib("np.empty")
def _np_empty(eng, a, kw, st, fr, k, node):
    """np.empty(n, dtype): a fresh structured array of the given dtype (contents arbitrary)."""
    n = eng.to_int(a[0])
    base = eng.new_base("empty")
    cell = {"#sorts": {}}
    s2 = St(st.env, {**st.heap, base: cell}, st.pc, st.ghost)
    if len(a) > 1 or "dtype" in kw:
        d = a[1] if len(a) > 1 else kw["dtype"]
        dt = z3.Function("dtype_of", V, V)
        npd = z3.Function("fn:np.dtype", V, V)
        s2 = s2.assume(dt(z3.Const("arr:" + base, V)) == npd(eng.to_v(d)))
    return k(Arr(base, None, z3.IntVal(0), n), s2)


@method("num", "astype")
def _num_astype(eng, recv, a, kw, st, fr, k, node):
    """x.astype(np.intNN) on a scalar: identity under assumption A1 (no wrap-around)."""
    return k(recv, st)


@method("arr", "sum")
def _arr_sum(eng, recv, a, kw, st, fr, k, node):
    """x.sum() of a 1-D column/plain array: the ghost prefix-sum difference (reals, assumption A3)."""
    if recv.field is None:
        raise Unsupported("sum of structured array")
    from .ops import psum_fn
    arr = eng.heap_field(st.heap, recv.base, recv.field)
    f = psum_fn(arr)
    j = eng.S._fresh("ps")
    sel = z3.Select(arr, j)
    ax = z3.ForAll([j], f(j + 1) == f(j) + (z3.ToReal(sel) if z3.is_int(sel) else sel), patterns=[f(j + 1), sel])
    eng.assumptions.add("A3 floating point sums are modelled over the reals (ghost prefix sums)")
    return k(f(recv.lo + recv.n) - f(recv.lo), st.assume(ax))


class _FreshLocals:
    """Callers' view of a callee's locals mentioned in hint clauses: some (existentially chosen) integers."""

    def __init__(self, eng):
        self.__dict__["_eng"] = eng
        self.__dict__["_vals"] = {}

    def __getattr__(self, k):
        if k not in self._vals:
            self._vals[k] = self._eng.fresh("callee_local_" + k)
        return self._vals[k]


@lib("any", "all")
def _anyall(eng, a, kw, st, fr, k, node):
    name = dotted_name(node.func)
    x = a[0]
    if isinstance(x, (list, tuple)):
        if not x:
            return k(z3.BoolVal(name == "all"), st)
        ts = [eng.truth(v) for v in x]
        return k(z3.And(*ts) if name == "all" else z3.Or(*ts), st)
    if isinstance(x, Opq):
        return k(z3.Function("fn:" + name, V, z3.BoolSort())(x.t), st)
    if isinstance(x, Ref) and x.kind == "list":
        cell = st.heap[x.base]
        if "items" not in cell:
            raise Unsupported(name + " of a list of tuples")
        items = cell["items"]
        q = eng.S.forall if name == "all" else eng.S.exists
        return k(q(0, cell["n"], lambda i: eng.truth(eng.from_sort(z3.Select(items, i)))), st)
    if isinstance(x, (Vec, Arr)):
        v = eng.as_vec(x, st)
        q = eng.S.forall if name == "all" else eng.S.exists
        return k(q(0, v.n, lambda i: eng.truth(v.fn(i))), st)
    raise Unsupported(name + " of " + type(x).__name__)


class PySet:
    """set(<literal list>) of symbolic scalars / tuples of them: only its cardinality is modelled"""

    def __init__(self, elems):
        self.elems = elems


@lib("set")
def _set(eng, a, kw, st, fr, k, node):
    if not a:
        return k(Opq(z3.Const("emptyset", V)), st)
    if isinstance(a[0], list) and a[0] and all(isinstance(x, (tuple, Opq)) or _is_z3(x) for x in a[0]):
        return k(PySet(list(a[0])), st)
    return k(Opq(z3.Function("fn:set", V, V)(eng.to_v(a[0]))), st)


@lib("heapq.heappush")
def _heappush(eng, a, kw, st, fr, k, node):
    """heappush(h, (number, msg)) on the abstracted message heap; also records the ghost history Sent / SentMsg."""
    from .monitor import heap_facts
    h, item = a
    if not (isinstance(h, Ref) and h.kind == "msgheap" and isinstance(item, tuple) and len(item) == 2):
        raise Unsupported("heappush on something that is not the message heap")
    cell = st.heap[h.base]
    n = eng.to_int(item[0])
    m = eng.to_v(item[1])
    eng.oblige("safety", "a message number is pushed at most once (heap model: size = number of entries)", st,
               z3.Not(z3.Select(cell["inbox"], n)), node)
    st = st.with_cell(h.base, "inbox", z3.Store(cell["inbox"], n, True))
    st = st.with_cell(h.base, "msgs", z3.Store(cell["msgs"], n, m))
    st = st.with_cell(h.base, "size", cell["size"] + 1)
    for f in heap_facts(eng, st.heap[h.base]):
        st = st.assume(f)
    if "Sent" in st.ghost:
        g = dict(st.ghost)
        g["Sent"] = z3.Store(g["Sent"], n, True)
        g["SentMsg"] = z3.Store(g["SentMsg"], n, m)
        st = St(st.env, st.heap, st.pc, g)
    return k(PNONE, st)


@method("msgheap", "append")
def _heap_append(eng, recv, a, kw, st, fr, k, node):
    """h.append(item) on the message heap: the entry is stored, but NOT through heapq - the heap order that ``h[0]`` (the lowest
    message number) and the clean-up of delivered messages rely on is no longer maintained.  The model's reading of ``h[0]`` as
    "the least number" is justified only if every insertion goes through heapq, hence the obligation."""
    eng.oblige("heap-discipline", "the message buffer is only filled through heapq.heappush (h[0] is read as the lowest buffered "
                                  "number, which holds only under the heap invariant)", st, z3.BoolVal(False), node)
    return _heappush(eng, [recv, a[0]], {}, st, fr, k, node)


@lib("heapq.heappop")
def _heappop(eng, a, kw, st, fr, k, node):
    from .monitor import heap_facts
    h = a[0]
    if not (isinstance(h, Ref) and h.kind == "msgheap"):
        raise Unsupported("heappop on something that is not the message heap")
    cell = st.heap[h.base]
    eng.oblige("safety", "heappop of a non-empty heap", st, cell["size"] > 0, node)
    low = eng.heap_lowest(cell)
    res = (low, Opq(z3.Select(cell["msgs"], low)))
    st = st.with_cell(h.base, "inbox", z3.Store(cell["inbox"], low, False))
    st = st.with_cell(h.base, "size", cell["size"] - 1)
    for f in heap_facts(eng, st.heap[h.base]):
        st = st.assume(f)
    return k(res, st)


@method("str", "split")
def _str_split(eng, recv, a, kw, st, fr, k, node):
    if a:
        raise Unsupported("str.split with a separator")
    return k(recv.split(), st)


@lib("str", "repr", "type")
def _str(eng, a, kw, st, fr, k, node):
    """str(x) / repr(x) / type(x): an opaque value (only used in messages and type tests)"""
    name = dotted_name(node.func)
    try:
        t = z3.Function("fn:" + name, V, V)(eng.to_v(a[0]))
    except Unsupported:
        t = eng.fresh(name, "V")
    return k(Opq(t), st)


def inline_method(relpath, qualname, recv_name="self"):
    """Handler for ``recv.method(...)`` that inlines the (loop-free) method body read from the real source."""
    def h(eng, args, kwargs, st, fr, k, node):
        fn, _ = find_function(relpath, qualname)
        return inline_call(eng, Closure(fn, {}), [st.env[recv_name]] + list(args), kwargs, st, fr, k, node)
    return h
