"""Contracts (sidecar specifications of real functions) and the per-function VC driver."""

import ast

import z3

from . import engine as E
from .engine import (Engine, St, Fr, Arr, Ref, Opq, PNONE, Unsupported, find_function, ast_hash, V, Exc,
                     RowsT, ArrT, ObjT, ListT, OptT, TupleT, normalize_clauses, zsort)
from .loops import loop_ordinals
from .ops import SymOps, Namespace, BindingError


class Loop:
    def __init__(self, invariant, variant=None, body_ensures=None, on_exit=None, iterates=None, runs_to_exhaustion=False):
        self.runs_to_exhaustion = runs_to_exhaustion   # True: leaving the loop by ``break`` is a failed obligation
        self.invariant, self.variant = invariant, variant
        self.iterates = iterates             # lambda S, a: clauses about a.it_, the value a for-loop iterates over (obligation at loop entry)
        self.on_exit = on_exit               # lambda eng, st: st  - ghost update when the loop is left by exhaustion / false test
        self.body_ensures = body_ensures     # lambda S, a: clauses that hold at the end of EVERY iteration (continue included)


class Contract:
    """Specification of one real function ``file:qualname``.

    params      name -> type spec ('int' | 'bool' | 'real' | 'V' | RowsT | ArrT | ObjT | ListT | OptT)
    requires    lambda S, a: clauses                 (a.<param>)
    ensures     lambda S, a, r: clauses              (a.<param> now, a.old.<param> at entry, r result)
    raises      {ExcName: lambda S, a: condition}    may raise ExcName only when condition (at entry)
    loops       {ordinal: Loop(invariant=lambda S, a: clauses, variant=lambda S, a: int)}
    modifies    [param or 'param.attr']              frame for callers
    make_result lambda eng, st, bound: (value, st)   shape of the result for callers
    calls       {call-name: handler | Abstract | Contract}   per-function call treatment
    consts      {dotted name: value}                 module constants the function reads
    """

    def __init__(self, file, qualname, params, requires=None, ensures=None, raises=None, loops=None,
                 modifies=None, make_result=None, calls=None, consts=None, local_sorts=None, call_names=(),
                 static=False, with_handler=None, setup=None, on_yield=None, notes="", ghost=None,
                 exc_ensures=None, receiver_from_call=False, lemma_facts=None, harness=None, returns=None, constructor=False,
                 variant=None, new_obj=None, init_obj=None, yields=None,
                 yield_may_throw=None, generator=False, expected_dead=(),
                 free_vars=None, store_hooks=None, loop_ghost=None, attrs=None):
        self.file, self.qualname, self.params = file, qualname, params
        self.requires, self.ensures, self.raises = requires, ensures, raises or {}
        self.loops = loops or {}
        self.modifies, self.make_result = modifies, make_result
        self.calls = calls or {}
        self.consts = consts or {}
        self.local_sorts = local_sorts or {}
        self.call_names = tuple(call_names)
        self.static = static
        self.with_handler = with_handler
        self.setup = setup
        self.on_yield = on_yield
        self.notes = notes
        self.ghost = ghost or {}
        self.exc_ensures = exc_ensures  # lambda S, a, exc_cls: clauses checked on every raise path
        self.receiver_from_call = receiver_from_call
        self.lemma_facts = lemma_facts  # lambda S, a: [(lemma name, instance formula)] assumed at entry
        self.harness = harness
        self.known_regions = {}
        self.constructor = constructor
        self.variant = variant
        self.new_obj = new_obj      # ObjT of the object a constructor call returns (callers' view)
        self.init_obj = init_obj    # lambda eng, st, bound, ref: st  - attributes that ARE the arguments
        self.yields = yields        # lambda S, a, v: clauses that must hold at every ``yield v``
        self.yield_may_throw = yield_may_throw
        self.generator = generator or yields is not None
        # exit points that are unreachable under this contract's precondition: [(label, text the statement starts with)]
        self.expected_dead = tuple(expected_dead)
        self.free_vars = free_vars or {}      # closure variables of a nested function: name -> type spec
        self.store_hooks = store_hooks or {}
        self.comp_hooks = {}                  # comprehension ordinal -> hook(eng, st, iterable value, node)
        self.after_yield = None               # lambda eng, st, value: st  - ghost update after every yield
        self.opaque_sub = False               # ``a - b`` on two opaque values is set difference, not arithmetic
        self.attrs = attrs or {}              # dotted attribute expression -> handler(eng, st, fr, k, node) (properties of opaque objects)
        self.loop_ghost = loop_ghost or {}    # loop ordinal -> ghost variables its body may update (default: all)  # name -> handler(eng, st, key, value, node) for ``name[key] = value``
        if returns is not None and make_result is None:
            def _mk(eng, st, bound, _spec=returns):
                return make_symbolic(eng, eng.new_base("ret:" + qualname), _spec, st, set())
            self.make_result = _mk

    @property
    def key(self):
        return f"{self.file}:{self.qualname}" + (f"[{self.variant}]" if self.variant else "")


class Registry:
    def __init__(self):
        self.contracts = {}
        self.by_call = {}

    def add(self, c):
        self.contracts[c.key] = c
        for n in c.call_names:
            self.by_call[n] = c
        return c

    def lookup_call(self, name, cur):
        return self.by_call.get(name)


REG = Registry()


# --------------------------------------------------------------------------------------
def make_symbolic(eng, name, spec, st, assumptions):
    """Create a symbolic input of the given type spec; returns (value, st)."""
    if isinstance(spec, str):
        if spec == "V":
            return Opq(z3.Const(name, V)), st
        c = z3.Const(name, zsort(spec))
        if spec == "int":
            eng.scalars.append(c)
        return c, st
    if isinstance(spec, RowsT):
        n = z3.Int(name + "#n")
        eng.lengths.append(n)
        cell = {"#sorts": dict(spec.fields)}
        st = St(st.env, {**st.heap, name: cell}, st.pc + [n >= 0], st.ghost)
        for f, fs in spec.fields.items():
            if fs.endswith("2"):
                w = eng.row_width(name, f)
                st = st.assume(w >= 0)
                eng.lengths.append(w)
        return Arr(name, None, z3.IntVal(0), n), st
    if isinstance(spec, ArrT):
        n = z3.Int(name + "#n")
        eng.lengths.append(n)
        if spec.dims == 2:
            cell = {"#sorts": {"": spec.elem + "2"}}
            st = St(st.env, {**st.heap, name: cell}, st.pc + [n >= 0], st.ghost)
            return Arr(name, "", z3.IntVal(0), n, ncols=getattr(spec, "ncols", None) or "2d"), st
        cell = {"#sorts": {"": spec.elem}}
        st = St(st.env, {**st.heap, name: cell}, st.pc + [n >= 0], st.ghost)
        return Arr(name, "", z3.IntVal(0), n), st
    if isinstance(spec, ListT):
        n = z3.Int(name + "#n")
        eng.lengths.append(n)
        if isinstance(spec.elem, (tuple, list)):
            cell = {"n": n}
            for j, es in enumerate(spec.elem):
                cell[f"items{j}"] = z3.Array(f"{name}.items{j}", z3.IntSort(), zsort(es))
        else:
            cell = {"n": n, "items": z3.Array(name + ".items", z3.IntSort(), zsort(spec.elem))}
        st = St(st.env, {**st.heap, name: cell}, st.pc + [n >= 0], st.ghost)
        return Ref(name, "list"), st
    if isinstance(spec, (tuple, list)):
        vals = []
        for j, sp in enumerate(spec):
            v, st = make_symbolic(eng, f"{name}_{j}", sp, st, assumptions)
            vals.append(v)
        return tuple(vals), st
    if isinstance(spec, dict):
        out = {}
        for key, sp in spec.items():
            out[key], st = make_symbolic(eng, f"{name}_{key}", sp, st, assumptions)
        return out, st
    if type(spec).__name__ == "DictT":
        from . import dicts
        return dicts.symbolic(eng, name, spec, st)
    if isinstance(spec, OptT):
        return Opq(z3.Const(name, V)), st
    if isinstance(spec, TupleT):
        vals = []
        for i, sp in enumerate(spec.elems):
            v, st = make_symbolic(eng, f"{name}_{i}", sp, st, assumptions)
            vals.append(v)
        return tuple(vals), st
    if isinstance(spec, ObjT):
        cell = {"#cls": spec.cls, "#decl": {}}
        model = getattr(spec, "model", None)
        if model is not None:
            cell["#props"], cell["#setters"], cell["#methods"] = model.props, model.setters, model.methods
            if model.len_handler is not None:
                cell["#len"] = model.len_handler
        for a, sp in spec.attrs.items():
            if a.startswith("#"):
                cell[a] = sp
                continue
            v, st = make_symbolic(eng, f"{name}.{a}", sp, st, assumptions)
            cell[a] = v
            if isinstance(sp, str):
                cell["#decl"][a] = sp
        st = St(st.env, {**st.heap, name: cell}, st.pc, st.ghost)
        return Ref(name, "obj"), st
    if isinstance(spec, E.HeapT):
        from .monitor import heap_facts
        cell = {"inbox": z3.Array(name + ".inbox", z3.IntSort(), z3.BoolSort()),
                "msgs": z3.Array(name + ".msgs", z3.IntSort(), V), "size": z3.Int(name + ".size")}
        st = St(st.env, {**st.heap, name: cell}, st.pc, st.ghost)
        for f in heap_facts(eng, cell):
            st = st.assume(f)
        return Ref(name, "msgheap"), st
    from .generators import IterT, make_iter
    if isinstance(spec, IterT):
        return make_iter(eng, name, spec, st)
    if callable(spec):
        return spec(eng, name, st)
    raise Unsupported(f"parameter spec {spec!r}")


class FunctionRun:
    """Result of generating the VCs of one function."""

    def __init__(self, contract):
        self.contract = contract
        self.vcs = []
        self.error = None
        self.assumptions = set()
        self.used_contracts = set()
        self.line = 0
        self.ast_hash = ""
        self.n_paths = 0
        self.lengths = []
        self.scalars = []
        self.inputs = {}
        self.lemmas_used = set()


def _clauses(thunk, what):
    """Evaluate the clauses of a contract against the (possibly changed) code: a clause that no longer binds to it - it names
    something the code does not have, or uses a value at a type the code no longer gives it - is a FAILED obligation."""
    try:
        return thunk()
    except (BindingError, TypeError, z3.Z3Exception) as ex:
        return [(f"the {what} binds to the code ({type(ex).__name__}: {str(ex)[:160]})", z3.BoolVal(False))]


def generate(contract, registry=REG, finite=None, grid=None):
    """Symbolically execute the real function and return a FunctionRun with its VCs."""
    run = FunctionRun(contract)
    S = SymOps(finite=finite, grid=grid)
    eng = Engine(registry, S)
    eng.used_contracts = set()
    eng.cur = contract
    try:
        fn, _ = find_function(contract.file, contract.qualname)
        run.line, run.ast_hash = fn.lineno, ast_hash(fn)
        st = St({}, {}, [], dict(contract.ghost))
        params = [a.arg for a in fn.args.posonlyargs + fn.args.args + fn.args.kwonlyargs]
        if fn.args.vararg:
            # *args: verified per arity - the contract gives a tuple of specs
            if not isinstance(contract.params.get(fn.args.vararg.arg), (tuple, list)):
                raise Unsupported("*args in a verified function (give a tuple of specs for a fixed arity)")
            params.append(fn.args.vararg.arg)
            run.assumptions.add(f"{contract.key}: verified for {len(contract.params[fn.args.vararg.arg])} extra positional argument(s)")
        if fn.args.kwarg:
            # **kwargs: verified per arity - the contract fixes the keyword names ({name: spec}); stated as an assumption
            if not isinstance(contract.params.get(fn.args.kwarg.arg), dict):
                raise Unsupported("**kwargs in a verified function (give a {name: spec} dict for a fixed set of keywords)")
            params.append(fn.args.kwarg.arg)
            run.assumptions.add(f"{contract.key}: verified for the keyword set {sorted(contract.params[fn.args.kwarg.arg])} of **{fn.args.kwarg.arg}")
        new_params = []
        for p in params:
            if p not in contract.params:
                # the (changed) function has a parameter the contract does not know: it is bound to an arbitrary value (a caller may
                # pass anything) and the mismatch is a failed obligation, not a checker error
                if not contract.params:
                    raise BindingError(f"parameter {p} of {contract.key} has no spec in the contract")
                new_params.append(p)
                v, st = make_symbolic(eng, p, "V", st, run.assumptions)
                st = st.bind(p, v)
                continue
            v, st = make_symbolic(eng, p, contract.params[p], st, run.assumptions)
            st = st.bind(p, v)
        for p in contract.params:
            if p not in params and not p.startswith("#"):
                raise BindingError(f"contract parameter {p} is not a parameter of {contract.key}")
        for p, spec in contract.free_vars.items():
            v, st = make_symbolic(eng, p, spec, st, run.assumptions)
            st = st.bind(p, v)
        if contract.generator:
            from .generators import init_out
            st = init_out(st)
        if contract.setup:
            st = contract.setup(eng, st)
        entry = St(dict(st.env), dict(st.heap), list(st.pc), dict(st.ghost))
        run.inputs = dict(entry.env)
        if contract.requires is not None:
            ns = eng.namespace(st, entry=entry)
            for _, f in normalize_clauses(contract.requires(S, ns)):
                st = st.assume(S.b(f))
        if contract.lemma_facts is not None:
            ns = eng.namespace(st, entry=entry)
            for lname, f in contract.lemma_facts(S, ns):
                run.assumptions.add(f"uses lemma '{lname}' (proved separately by induction in the same check)")
                run.lemmas_used.add(lname)
                st = st.assume(S.b(f))
        entry.pc = list(st.pc)
        fninfo = {"ordinals": loop_ordinals(fn), "entry": entry, "node": fn}
        paths = [0]
        for d in fn.decorator_list:
            dn = E.dotted_name(d.func if isinstance(d, ast.Call) else d) or ""
            if dn.split(".")[-1] in ("cached_property", "lru_cache", "cache", "cached") and not getattr(contract, "memoised_ok", False):
                # a contract is about one evaluation of the body; a memoised function hands later callers the result of an EARLIER
                # state, which no per-call contract covers
                eng.oblige("contract-shape", f"the function is evaluated on every call (decorator @{dn} memoises it: a cached result "
                                             f"outlives the state it was computed from)", St(entry.env, entry.heap, [], {}), z3.BoolVal(False), fn)
        for p in new_params:
            eng.oblige("contract-shape", f"the function has the signature the contract was written for (parameter '{p}' is not in the "
                                         f"contract; it is treated as an arbitrary value)", St(entry.env, entry.heap, [], {}), z3.BoolVal(False), fn)

        def exit_ns(s):
            """Namespace for exit clauses: a.<param> is the ENTRY binding (contents as of now); the current
            values of rebound parameters and of locals are under a.local."""
            ns = eng.namespace(s, entry=entry)
            ns.__dict__["local"] = eng.namespace(s)
            for p_, v_ in entry.env.items():
                ns.__dict__[p_] = eng.resolve(v_, s.heap)
            return ns

        def on_return(v, s):
            paths[0] += 1
            ns = exit_ns(s)
            res = eng.resolve(v, s.heap)
            if contract.ensures is not None:
                eng.oblige_clauses("postcondition", "return", s, _clauses(lambda: contract.ensures(S, ns, res), "postcondition"), None)
            eng.canary("return", s)

        def on_raise(exc, s):
            paths[0] += 1
            ns = exit_ns(s)
            cond = contract.raises.get(exc.cls)
            if cond is None:
                # is a parent class allowed?
                for cls, cnd in contract.raises.items():
                    if E.exc_is_subclass(exc.cls, cls):
                        cond = cnd
                        break
            if cond is None:
                eng.oblige("exceptional", f"unexpected raise {exc.cls}", s, z3.BoolVal(False))
            else:
                ens = Namespace({k: eng.resolve(v, entry.heap) for k, v in entry.env.items()})
                ens.__dict__["old"] = ens
                ens.__dict__["arg"] = ens
                eng.oblige("exceptional", f"raise {exc.cls} only when allowed", s, S.b(cond(S, ens)))
                if contract.exc_ensures is not None:
                    eng.oblige_clauses("exceptional", f"state after raise {exc.cls}", s,
                                       _clauses(lambda: contract.exc_ensures(S, ns, exc), "exceptional postcondition"))
                if exc.origin == "stmt":  # a raise statement of this function must be reachable
                    eng.canary(f"raise {exc.cls}", s)

        fr = Fr(on_return=on_return, on_raise=on_raise, fn=fninfo,
                on_yield=(lambda v, s, k: contract.on_yield(eng, v, s, fr, k)) if contract.on_yield else None)
        eng.ex(fn.body, st, fr, lambda s: on_return(PNONE, s))
        run.n_paths = paths[0]
    except (Unsupported, BindingError, KeyError, NotImplementedError) as ex:
        run.error = f"{type(ex).__name__}: {ex}"
    run.vcs = eng.vcs
    run.assumptions |= eng.assumptions
    run.used_contracts = eng.used_contracts
    run.lengths = eng.lengths
    run.scalars = eng.scalars
    return run
