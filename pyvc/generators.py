"""Input iterators (ghost sequences), ``yield`` (ghost output trace) and comprehensions."""

import ast

import z3

from .engine import (Unsupported, Arr, Vec, Ref, Opq, PNONE, St, V, Exc, T, _is_z3)
from . import loops as L


class IterT(T):
    """An input iterator / generator: an unbounded ghost sequence ``seq[0..n)`` of opaque values.

    may_raise: the source may fail instead of producing its next item (exception class ``Any``).
    """

    def __init__(self, may_raise=False):
        self.may_raise = may_raise


class SeqV:
    """What clauses see of a ghost sequence."""

    def __init__(self, n, arr, lo=0):
        self.n, self._arr, self._lo = n, arr, lo

    def at(self, j):
        return z3.Select(self._arr, self._lo + j)


def make_iter(eng, name, spec, st):
    n = z3.Int(name + "#n")
    eng.lengths.append(n)
    cell = {"seq": z3.Array(name + ".seq", z3.IntSort(), V), "n": n, "pos": z3.IntVal(0),
            "#may_raise": spec.may_raise}
    st = St(st.env, {**st.heap, name: cell}, st.pc + [n >= 0], st.ghost)
    return Ref(name, "iter"), st


def resolve_iter(eng, ref, heap):
    cell = heap[ref.base]
    v = SeqV(cell["n"], cell["seq"])
    v.pos = cell["pos"]
    return v


def body_yields(stmts):
    return any(isinstance(n, (ast.Yield, ast.YieldFrom)) for n in L._walk_no_defs(stmts))


def iter_loop(eng, s, it, st, fr, k, enum_start=None):
    """``for x in <input iterator>`` cut at the contract's invariant; position k_ counts consumed items."""
    ordinal, spec = L._loop_spec(eng, s, fr)
    pre = f"loop{ordinal}"
    cell = st.heap[it.base]
    seq, n, pos0 = cell["seq"], cell["n"], cell["pos"]
    may_raise = cell.get("#may_raise", False)
    total = n - pos0
    inv = lambda s_, kk: L._inv(eng, spec, s_, fr, {"k_": kk, "n_": total})
    eng.oblige_clauses("invariant-init", pre, st, inv(st, z3.IntVal(0)), s)
    target_names = [x.id for x in ast.walk(s.target) if isinstance(x, ast.Name)]
    sh0 = L.havoc(eng, st, s.body, None, also_names=target_names, ordinal=ordinal)
    kk = eng.fresh("k")
    sh = sh0
    for _, f in L._norm(inv(sh, kk)):
        sh = sh.assume(eng.S.b(f))
    sh_it = sh.assume(z3.And(0 <= kk, kk < total))
    sh_it = sh_it.with_cell(it.base, "pos", pos0 + kk + 1)
    if may_raise:
        # the source fails instead of delivering item k
        fr.on_raise(Exc("Any", Opq(eng.fresh("source_exc", "V"))), sh.assume(z3.And(0 <= kk, kk <= total))
                    .with_cell(it.base, "pos", pos0 + kk))

    def body_end(s2):
        eng.oblige_clauses("invariant-preserve", pre, s2, inv(s2, kk + 1), s)
        L._body_ensures(eng, spec, s2, fr, {"k_": kk, "n_": total}, pre, s)
        L._ghost_frame(eng, sh_it, s2, ordinal, pre, s)
        eng.canary(f"{pre}:body-end", s2, s)
    fr_body = fr.with_(brk=L.brk_of(eng, spec, pre, k, s), cont=body_end)
    elem = Opq(z3.Select(seq, pos0 + kk))
    if enum_start is not None:
        elem = (z3.simplify(eng.to_int(enum_start) + kk), elem)
    eng.assign(s.target, elem, sh_it, fr, lambda s2: eng.ex(s.body, s2, fr_body, body_end), s)
    se = sh0
    for _, f in L._norm(inv(se, total)):
        se = se.assume(eng.S.b(f))
    se = se.with_cell(it.base, "pos", n)
    if getattr(spec, "on_exit", None):
        se = spec.on_exit(eng, se)
    return eng.ex(s.orelse, se, fr, k)


# --------------------------------------------------------------------------------------
# yield
# --------------------------------------------------------------------------------------
def init_out(st):
    g = dict(st.ghost)
    g["#out"] = z3.Array("out", z3.IntSort(), V)
    g["#nout"] = z3.IntVal(0)
    return St(st.env, st.heap, st.pc, g)


def do_yield(eng, value, st, fr, k, node):
    c = eng.cur
    if "#out" not in st.ghost:
        raise Unsupported("yield in a function whose contract does not declare a generator")
    out, nout = st.ghost["#out"], st.ghost["#nout"]
    try:
        v = eng.to_v(value)
    except Unsupported:
        v = z3.Const("yielded:" + str(getattr(value, "base", id(value))), V)
    ns = eng.namespace(st, entry=fr.fn["entry"])
    if c.yields is not None:
        eng.oblige_clauses("yield", f"yield@{getattr(node, 'lineno', 0)}", st,
                           c.yields(eng.S, ns, eng.resolve(value, st.heap)), node)
    g = dict(st.ghost)
    g["#out"] = z3.Store(out, nout, v)
    g["#nout"] = nout + 1
    s2 = St(st.env, st.heap, st.pc, g)
    if getattr(c, "after_yield", None) is not None:
        s2 = c.after_yield(eng, s2, value)        # ghost bookkeeping of what has been handed out so far
    if c.yield_may_throw:
        # the consumer may throw an exception into the generator at this yield
        fr.on_raise(Exc(c.yield_may_throw if isinstance(c.yield_may_throw, str) else "Any",
                        Opq(eng.fresh("thrown", "V"))), s2)
    return k(PNONE, s2)


def havoc_out(eng, s):
    g = dict(s.ghost)
    g["#out"] = eng.fresh("out", z3.ArraySort(z3.IntSort(), V))
    g["#nout"] = eng.fresh("nout")
    return St(s.env, s.heap, s.pc, g)
