"""./vcheck --replay <file>: re-examine one recorded violation against /repo's CURRENT source.

* a replay file that carries a concrete input (found by a bounded stand-in or by the native search behind a refuted
  obligation) is run through the real function again and judged by the same contract clauses;
* a replay file without an input (``no-failing-input-found``) names an obligation: the verification conditions of its
  function are regenerated from the current source and every obligation with that kind and label is solved again.

Exit 0: the recorded violation does not reproduce (all clauses hold / the obligation is discharged);
exit 1: it reproduces (a ``VIOLATION`` line is printed); exit 3: the file cannot be interpreted.
"""

import importlib
import json
import sys


def _find_contract(prop_id, key):
    from .contract import REG
    import contracts.all  # noqa
    if key in REG.contracts:
        return REG.contracts[key], None
    try:
        mod = importlib.import_module("props." + prop_id)
    except Exception:
        return None, None
    for si in mod.PROPERTY.standins:
        if si.contract.key == key:
            return si.contract, si.harness
    for c in mod.PROPERTY.contracts:
        if c.key == key:
            return c, c.harness
    return None, None


def main(path):
    sys.setrecursionlimit(200000)
    try:
        d = json.load(open(path))
    except Exception as ex:
        print(f"CHECKER-ERROR cannot read replay file {path}: {ex}")
        return 3
    pid = d.get("property", "?")
    key = d.get("contract") or d.get("function")
    print(f"replay of {d.get('obligation')}")
    if d.get("kind", "").startswith("structural"):
        mod = importlib.import_module("props." + pid)
        bad = []
        for sob in mod.PROPERTY.structural:
            for label, ok, detail in sob.check():
                if f"structural::{sob.name}::{label}" == d.get("obligation") and not ok:
                    bad.append(detail)
        if bad:
            print(f"VIOLATION property={pid} replay={path} structural obligation still fails: {bad[0]}")
            return 1
        print("structural obligation holds on the current source")
        return 0
    contract, harness = _find_contract(pid, key)
    if contract is None:
        print(f"CHECKER-ERROR no contract {key!r} for property {pid}")
        return 3
    inp = d.get("input")
    if isinstance(inp, dict) and "inputs" in inp:
        from . import harness as H
        harness = harness or contract.harness
        if harness is None:
            print("CHECKER-ERROR the contract has no harness to run the recorded input with")
            return 3
        if "0sec" in json.dumps(inp["inputs"]) and "__chunk__" not in json.dumps(inp["inputs"]):
            print("the recorded input holds objects that were written as text (an older replay file): it cannot be rebuilt; "
                  "re-run the check instead")
            return 3
        inputs = H.decode(inp["inputs"])
        if isinstance(inputs, dict) and set(inputs) == {"__dict__"}:
            inputs = inputs["__dict__"]
        out = H.check_concrete(contract, harness, inputs)
        if out.skipped:
            print("the recorded input no longer satisfies the precondition: " + out.detail)
            return 0
        if out.failed or out.raised:
            print(f"VIOLATION property={pid} replay={path} reproduced on the real code: {(out.failed or [out.raised])[0]}")
            return 1
        print("the recorded input now satisfies every clause of the contract")
        return 0
    # no input: solve the named obligation again
    from .contract import generate
    from .solve import solve_all
    run = generate(contract)
    if run.error:
        print(f"CHECKER-ERROR {contract.key}: {run.error}")
        return 3
    kind, label = d.get("kind"), d.get("label")
    vcs = [vc for vc in run.vcs if vc.kind == kind and (vc.label == label or (label and vc.label.startswith(label[:80])))]
    if not vcs:
        print(f"no obligation with kind {kind!r} and this label is generated from the current source any more")
        return 0
    res = solve_all(vcs)
    bad = [(vc, r) for vc, r in zip(vcs, res) if r["verdict"] != "proved"]
    for vc, r in zip(vcs, res):
        print(f"  {vc.kind} {vc.label[:100]} @ line {vc.line}: {r['verdict']} ({r['backend']}, {r['time']:.2f}s) {r.get('reason', '')}")
    if bad:
        print(f"VIOLATION property={pid} replay={path} obligation still not discharged ({len(bad)} of {len(vcs)}) no-failing-input-found")
        return 1
    print("the obligation is discharged on the current source")
    return 0
