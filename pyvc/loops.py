"""Loop rules: loops are cut at contract-supplied invariants (addressed by source ordinal)."""

import ast

import z3

from .engine import (Unsupported, Arr, Row, RowVec, Vec, Ref, Opq, PyRange, PyEnum, PyZip, PNONE, St,
                     Closure, Named, Exc, _is_z3, _const_int, dotted_name)

from .engine import V as E_V  # noqa: E402

MUTATING_METHODS = {"append", "pop", "insert", "sort", "setdefault", "update", "extend", "remove", "clear",
                    "add", "discard"}


def loop_ordinals(fn_node):
    """Map id(loop node) -> 1-based ordinal in source order (nested defs excluded)."""
    out = {}

    def walk(node):
        for child in ast.iter_child_nodes(node):
            if isinstance(child, (ast.FunctionDef, ast.Lambda, ast.ClassDef)):
                continue
            if isinstance(child, (ast.For, ast.While)):
                out[id(child)] = len(out) + 1
            walk(child)
    walk(fn_node)
    return out


def _walk_no_defs(stmts):
    stack = list(stmts)
    while stack:
        n = stack.pop()
        yield n
        for c in ast.iter_child_nodes(n):
            if isinstance(c, (ast.FunctionDef, ast.Lambda, ast.ClassDef)):
                continue
            stack.append(c)


def assigned_names(stmts):
    out = set()
    for n in _walk_no_defs(stmts):
        if isinstance(n, ast.Name) and isinstance(n.ctx, ast.Store):
            out.add(n.id)
        if isinstance(n, ast.ExceptHandler) and n.name:
            out.add(n.name)
    return out


def _root_and_field(t):
    """For a store target like x[i]['f'][j] return (root name, field-or-None)."""
    field = None
    e = t
    while isinstance(e, (ast.Subscript, ast.Attribute)):
        if isinstance(e, ast.Subscript) and isinstance(e.slice, ast.Constant) and isinstance(e.slice.value, str):
            field = e.slice.value
        if isinstance(e, ast.Attribute):
            field = ("attr", e.attr) if not isinstance(e.value, (ast.Subscript, ast.Attribute)) else field
        e = e.value
    if isinstance(e, ast.Name):
        return e.id, field
    return None, None


def store_roots(stmts):
    """[(root name, field)] for subscript / attribute stores and mutating method calls."""
    out = []
    for n in _walk_no_defs(stmts):
        targets = []
        if isinstance(n, ast.Assign):
            targets = n.targets
        elif isinstance(n, (ast.AugAssign, ast.AnnAssign)):
            targets = [n.target]
        for t in targets:
            for tt in (t.elts if isinstance(t, (ast.Tuple, ast.List)) else [t]):
                if isinstance(tt, (ast.Subscript, ast.Attribute)):
                    r, f = _root_and_field(tt)
                    if r is not None:
                        out.append((r, f))
        if isinstance(n, ast.Call) and isinstance(n.func, ast.Attribute) and n.func.attr in MUTATING_METHODS:
            r, f = _root_and_field(n.func.value) if isinstance(n.func.value, (ast.Subscript, ast.Attribute)) else (
                n.func.value.id if isinstance(n.func.value, ast.Name) else None, None)
            if r is not None:
                out.append((r, f if f is not None else "*"))
    return out


def aliases(stmts, extra=None):
    """name -> set of root names it may alias through ``p = X[...]`` or for-targets."""
    al = {}
    if extra:
        for k, v in extra.items():
            al.setdefault(k, set()).update(v)
    changed = True
    while changed:
        changed = False
        for n in _walk_no_defs(stmts):
            pairs = []
            if isinstance(n, ast.Assign) and len(n.targets) == 1 and isinstance(n.targets[0], ast.Name):
                pairs.append((n.targets[0].id, n.value))
            if isinstance(n, ast.For):
                tg, it = n.target, n.iter
                if isinstance(it, ast.Call) and dotted_name(it.func) == "enumerate" and isinstance(tg, ast.Tuple):
                    tg, it = tg.elts[1], it.args[0]
                if isinstance(tg, ast.Name):
                    pairs.append((tg.id, it))
            for name, val in pairs:
                e = val
                while isinstance(e, (ast.Subscript, ast.Attribute)):
                    e = e.value
                if isinstance(e, ast.Name):
                    new = al.get(e.id, {e.id})
                    cur = al.setdefault(name, set())
                    if not new <= cur:
                        cur.update(new)
                        changed = True
    return al


def havoc_value(eng, name, v):
    want = eng.cur.local_sorts.get(name) if eng.cur else None
    if want is not None:
        if want == "V":
            return Opq(eng.fresh(name, "V"))
        return eng.fresh(name, want)
    if isinstance(v, bool):
        return eng.fresh(name, "bool")
    if isinstance(v, int):
        return eng.fresh(name, "int")
    if _is_z3(v):
        if z3.is_bool(v):
            return eng.fresh(name, "bool")
        if z3.is_int(v):
            return eng.fresh(name, "int")
        if z3.is_real(v):
            return eng.fresh(name, "real")
    if isinstance(v, Opq) or v is PNONE or isinstance(v, str):
        if v is PNONE or isinstance(v, str):
            raise Unsupported(f"loop-modified variable {name} starts as None/str: declare local_sorts[{name!r}]")
        return Opq(eng.fresh(name, "V"))
    if isinstance(v, tuple):
        return tuple(havoc_value(eng, f"{name}_{i}", x) for i, x in enumerate(v))
    if isinstance(v, Row):
        return Row(v.base, eng.fresh(name + "_idx"))
    if isinstance(v, Arr):
        n = eng.fresh_len(name)
        return Arr(v.base, v.field, eng.fresh(name + "_lo"), n, v.ncols)
    if isinstance(v, (Ref, Closure, Named)):
        return v  # references are stable; contents are havoced through the heap
    if isinstance(v, Exc):
        return v
    if isinstance(v, (list, dict)):
        return Opq(eng.fresh(name, "V"))  # a Python container mutated in the loop: contents unknown afterwards
    raise Unsupported(f"cannot havoc loop-modified variable {name} of type {type(v).__name__}")


def havoc(eng, st, body, extra_alias=None, also_names=(), ordinal=None):
    names = assigned_names(body) | set(also_names)
    s = st.fork()
    for n in sorted(names):
        if n in s.env:
            cur = s.env[n]
            if isinstance(cur, Ref) and cur.kind == "list":
                # a list variable that is REBOUND in the loop: afterwards it names some list of the same shape
                cell = s.heap[cur.base]
                base = eng.new_base(n)
                ln = eng.fresh_len(base)
                new = {"n": ln}
                for key in [k_ for k_ in cell if k_.startswith("items")]:
                    new[key] = eng.fresh(base + "." + key, cell[key].sort())
                s = St(s.env, {**s.heap, base: new}, s.pc + [ln >= 0], s.ghost)
                s.env = dict(s.env)
                s.env[n] = Ref(base, "list")
                continue
            want = eng.cur.local_sorts.get(n) if eng.cur else None
            if type(want).__name__ == "ObjT":
                # an object variable that is REBOUND in the loop: afterwards it names some object of the declared class
                from .contract import make_symbolic
                ref, s = make_symbolic(eng, eng.new_base(n), want, s, set())
                s.env = dict(s.env)
                s.env[n] = ref
                continue
            s.env[n] = havoc_value(eng, n, cur)
    # python-level containers mutated through methods (ldrs.append(x)) lose their contents
    for root, _f in store_roots(body):
        if root in s.env and isinstance(s.env[root], (list, dict)) and root not in names:
            s.env[root] = havoc_value(eng, root, s.env[root])
    from . import generators
    if "#out" in s.ghost and generators.body_yields(body):
        s = generators.havoc_out(eng, s)
    # ghost variables may be updated by call / store hooks inside the body: havoc them (all of them unless the
    # contract declares which ones a given loop can touch)
    lg = getattr(eng.cur, "loop_ghost", None) or {}
    names_g = lg.get(ordinal) if ordinal in lg else [g for g in s.ghost if not g.startswith("#")]
    if names_g:
        g2 = dict(s.ghost)
        for gname in names_g:
            cur = g2.get(gname)
            if _is_z3(cur):
                g2[gname] = eng.fresh("ghost_" + gname, cur.sort())
        s = St(s.env, s.heap, s.pc, g2)
    al = aliases(body, extra_alias)
    for root, field in store_roots(body):
        for r in al.get(root, {root}):
            v = st.env.get(r)
            if v is None:
                continue
            s = havoc_heap(eng, s, v, field)
    return s


def havoc_heap(eng, s, v, field):
    if isinstance(v, (Arr, Row, RowVec)):
        base = v.base
        if isinstance(v, Arr) and v.field is not None:
            fields = [v.field]
        elif isinstance(v, RowVec):
            fields = [v.field]
        elif field is None or field == "*" or isinstance(field, tuple):
            cell = s.heap.get(base, {})
            fields = list(cell.get("#sorts", {}).keys()) or [k for k in cell if not k.startswith("#")]
        else:
            fields = [field]
        for f in fields:
            cur = eng.heap_field(s.heap, base, f)
            s = s.with_cell(base, f, eng.fresh(f"{base}.{f}", cur.sort()))
        return s
    if isinstance(v, Ref):
        cell = s.heap[v.base]
        if v.kind == "list":
            n = eng.fresh_len(v.base)
            s = s.with_cell(v.base, "n", n)
            for key in [k_ for k_ in cell if k_.startswith("items")]:
                s = s.with_cell(v.base, key, eng.fresh(v.base + "." + key, cell[key].sort()))
            return s.assume(n >= 0)
        if v.kind == "dict":
            for key in list(cell):
                if key.startswith("#"):
                    continue
                s = s.with_cell(v.base, key, eng.fresh(v.base + "." + key, cell[key].sort()))
            return s
        if v.kind == "obj":
            if isinstance(field, tuple) and field[0] == "attr":
                attrs = [field[1]]
            else:
                attrs = [a for a in cell if not a.startswith("#")]
            for a in attrs:
                if a not in cell:
                    s = s.with_cell(v.base, a, Opq(eng.fresh(f"{v.base}.{a}", "V")))
                    continue
                if a in cell:
                    cur = cell[a]
                    if isinstance(cur, Ref):
                        s = havoc_heap(eng, s, cur, "*")
                    else:
                        s = s.with_cell(v.base, a, havoc_value(eng, f"{v.base}.{a}", cur))
            return s
    return s


def _loop_spec(eng, node, fr):
    ordinal = fr.fn["ordinals"][id(node)]
    spec = eng.cur.loops.get(ordinal)
    if spec is None:
        if not eng.cur.loops:
            raise Unsupported(f"loop {ordinal} (line {node.lineno}) of {eng.cur.key} has no invariant")
        # the contract knows fewer loops than the (changed) code has: the extra loop is cut at the trivial invariant
        # (sound: nothing is assumed about it); the obligation below records the mismatch
        from .contract import Loop
        spec = Loop(lambda S, a: [])
        eng.oblige("contract-shape", f"loop {ordinal} (line {node.lineno}) has a loop specification in the contract "
                                     f"(the contract covers loops {sorted(eng.cur.loops)})", St(fr.fn["entry"].env, fr.fn["entry"].heap, [], {}),
                   z3.BoolVal(False), node)
    return ordinal, spec


def _ghost_frame(eng, start, end, ordinal, pre, node):
    """Ghost variables a loop is declared not to touch (contract.loop_ghost) must be unchanged at the end of its body."""
    lg = getattr(eng.cur, "loop_ghost", None) or {}
    if ordinal not in lg:
        return
    for name, v0 in start.ghost.items():
        if name.startswith("#") or name.startswith("py:") or name in lg[ordinal]:
            continue
        v1 = end.ghost.get(name)
        if _is_z3(v0) and _is_z3(v1) and not v0.eq(v1):
            eng.oblige("ghost-frame", f"{pre}: the loop body leaves the ghost variable {name} unchanged (declared frame)", end, v1 == v0, node)


def _body_ensures(eng, spec, st, fr, extra, pre, node):
    """per-iteration postcondition of a loop body (state at the end of the iteration; k_ = index of this iteration)"""
    if getattr(spec, "body_ensures", None) is None:
        return
    from .ops import BindingError
    ns = eng.namespace(st, entry=fr.fn["entry"], extra=extra)
    try:
        clauses = spec.body_ensures(eng.S, ns)
    except (BindingError, TypeError, z3.Z3Exception) as ex:
        clauses = [(f"the per-iteration postcondition binds to the code (missing: {ex})", z3.BoolVal(False))]
    eng.oblige_clauses("loop-body", pre + ":every iteration", st, clauses, node)


def _inv(eng, spec, st, fr, extra):
    from .ops import BindingError
    ns = eng.namespace(st, entry=fr.fn["entry"], extra=extra)
    try:
        return spec.invariant(eng.S, ns)
    except (BindingError, TypeError, z3.Z3Exception) as ex:
        # the invariant names something the (changed) code no longer has: the obligation cannot be discharged
        return [(f"the loop invariant binds to the code (missing: {ex})", z3.BoolVal(False))]


def while_loop(eng, s, st, fr, k):
    ordinal, spec = _loop_spec(eng, s, fr)
    pre = f"loop{ordinal}"
    eng.oblige_clauses("invariant-init", pre, st, _inv(eng, spec, st, fr, {}), s)
    sh = havoc(eng, st, s.body, ordinal=ordinal)
    for _, f in _norm(_inv(eng, spec, sh, fr, {})):
        sh = sh.assume(eng.S.b(f))

    def after_test(c, s1):
        c = eng.truth(c)
        body_st = s1.assume(c)
        var0 = spec.variant(eng.S, eng.namespace(body_st, entry=fr.fn["entry"])) if spec.variant else None

        def body_end(s2):
            eng.oblige_clauses("invariant-preserve", pre, s2, _inv(eng, spec, s2, fr, {}), s)
            _body_ensures(eng, spec, s2, fr, {}, pre, s)
            _ghost_frame(eng, body_st, s2, ordinal, pre, s)
            if var0 is not None:
                var1 = spec.variant(eng.S, eng.namespace(s2, entry=fr.fn["entry"]))
                eng.oblige("variant", f"{pre}:decreases", s2, z3.And(var0 >= 0, var1 < var0), s)
            eng.canary(f"{pre}:body-end", s2, s)
        fr_body = fr.with_(brk=brk_of(eng, spec, pre, k, s), cont=body_end)
        eng.ex(s.body, body_st, fr_body, body_end)
        # exit
        s_exit = s1.assume(z3.Not(c))
        if getattr(spec, "on_exit", None):
            s_exit = spec.on_exit(eng, s_exit)
        return eng.ex(s.orelse, s_exit, fr, k)
    return eng.ev(s.test, sh, fr, after_test)


def brk_of(eng, spec, pre, k, node):
    """continuation of ``break``: a loop declared ``runs_to_exhaustion`` must not be left by a break"""
    if not getattr(spec, "runs_to_exhaustion", False):
        return lambda s2: k(s2)

    def brk(s2):
        eng.oblige("loop-exhaustion", f"{pre}: the loop is not left before every element was visited (no break)", s2, z3.BoolVal(False), node)
        return k(s2)
    return brk


def _norm(clauses):
    from .engine import normalize_clauses
    return normalize_clauses(clauses)


def iteration_space(eng, it, st, node):
    """Return (n, elem(k, st) -> value, alias_root_names) for an iterable value."""
    if isinstance(it, PyRange):
        lo, hi = it.lo, it.hi
        n = z3.If(hi >= lo, hi - lo, 0)
        return z3.simplify(n), (lambda kk, s: z3.simplify(lo + kk))
    if isinstance(it, PyEnum):
        n, elem = iteration_space(eng, it.seq, st, node)
        start = it.start
        return n, (lambda kk, s: (z3.simplify(start + kk), elem(kk, s)))
    if isinstance(it, PyZip):
        spaces = [iteration_space(eng, x, st, node) for x in it.seqs]
        n = spaces[0][0]
        for sp in spaces[1:]:
            n = z3.If(sp[0] < n, sp[0], n)
        return z3.simplify(n), (lambda kk, s: tuple(sp[1](kk, s) for sp in spaces))
    if isinstance(it, Arr):
        if it.field is None:
            return it.n, (lambda kk, s: Row(it.base, z3.simplify(it.lo + kk)))
        if it.ncols is not None:
            if it.ncols == "2d":
                return it.n, (lambda kk, s: RowVec(it.base, it.field, z3.simplify(it.lo + kk), z3.IntVal(0),
                                                   eng.row_width(it.base, it.field)))
            # rows of a plain 2-D array: a (row) view supporting w[0], w[1]
            return it.n, (lambda kk, s: RowVec(it.base, it.field, z3.simplify(it.lo + kk), z3.IntVal(0),
                                               z3.IntVal(it.ncols)))
        return it.n, (lambda kk, s: z3.Select(eng.heap_field(s.heap, it.base, it.field), it.lo + kk))
    if isinstance(it, Vec):
        return it.n, (lambda kk, s: it.fn(kk))
    if isinstance(it, Ref) and it.kind == "list":
        cell = dict(st.heap[it.base])
        n0 = cell["n"]
        return n0, (lambda kk, s: eng.list_elem(cell, kk))
    raise Unsupported(f"iteration over {type(it).__name__}")


def _iterates(eng, s, it, st, fr):
    """obligation at the entry of a for-loop about WHAT it iterates over (Loop(iterates=...), a.it_ = the iterable)"""
    spec = eng.cur.loops.get(fr.fn["ordinals"].get(id(s))) if eng.cur.loops else None
    if spec is None or getattr(spec, "iterates", None) is None:
        return
    from .ops import BindingError
    pre = f"loop{fr.fn['ordinals'][id(s)]}"
    try:
        itv = eng.to_v(it)
        clauses = spec.iterates(eng.S, eng.namespace(st, entry=fr.fn["entry"], extra={"it_": itv}))
    except (BindingError, Unsupported) as ex:
        clauses = [(f"the clause about the iterated collection binds to the code ({ex})", z3.BoolVal(False))]
    eng.oblige_clauses("loop-iterates", pre, st, clauses, s)


def for_loop(eng, s, st, fr, k):
    def with_iter(it, st1):
        _iterates(eng, s, it, st1, fr)
        if type(it).__name__ == "PySet":
            # iterating a set built from a literal list: an opaque collection (order and multiplicity unknown)
            it = Opq(z3.Function("fn:set", E_V, E_V)(eng.to_v(list(it.elems))))
        # concrete Python sequences are unrolled
        if isinstance(it, (list, tuple)) or (isinstance(it, PyZip) and all(isinstance(x, (list, tuple)) for x in it.seqs)) \
                or (isinstance(it, PyEnum) and isinstance(it.seq, (list, tuple))):
            if isinstance(it, PyZip):
                items = list(zip(*it.seqs))
            elif isinstance(it, PyEnum):
                items = [(z3.IntVal(i + (_const_int(it.start) or 0)), x) for i, x in enumerate(it.seq)]
            else:
                items = list(it)
            return unrolled(eng, s, items, st1, fr, k)
        if isinstance(it, PyRange):
            lo, hi = _const_int(it.lo), _const_int(it.hi)
            ordn = fr.fn["ordinals"][id(s)]
            if lo is not None and hi is not None and hi - lo <= 8 and eng.cur.loops.get(ordn) is None:
                return unrolled(eng, s, [z3.IntVal(i) for i in range(lo, hi)], st1, fr, k)
        if isinstance(it, Ref) and it.kind in ("dict_items", "dict_keys", "dict_values"):
            from . import dicts
            return dicts.dict_loop(eng, s, it, st1, fr, k)
        if isinstance(it, Ref) and it.kind == "dict":
            from . import dicts
            return dicts.dict_loop(eng, s, Ref(it.base, "dict_keys"), st1, fr, k)
        enum_start = None
        if isinstance(it, PyEnum) and isinstance(it.seq, (Opq,)) or (
                isinstance(it, PyEnum) and isinstance(it.seq, Ref) and it.seq.kind == "iter"):
            enum_start = it.start
            it = it.seq
        if isinstance(it, Opq):
            # iteration over an opaque iterable: a ghost sequence of unknown length
            from . import generators
            base = eng.new_base("opq_iter")
            f_len = z3.Function("len", E_V, z3.IntSort())
            n = f_len(it.t)
            _j = z3.Int("it_j")
            elem_f = z3.Function("iter_elem", E_V, z3.IntSort(), E_V)
            # (an array constant defined by a quantified fact rather than a lambda term: cvc5 cannot parse z3's lambdas)
            seq = z3.Array(base + ".seq", z3.IntSort(), E_V)
            cell = {"seq": seq, "n": n, "pos": z3.IntVal(0), "#may_raise": False}
            st1 = St(st1.env, {**st1.heap, base: cell},
                     st1.pc + [n >= 0, z3.ForAll([_j], z3.Select(seq, _j) == elem_f(it.t, _j), patterns=[z3.Select(seq, _j)])], st1.ghost)
            return generators.iter_loop(eng, s, Ref(base, "iter"), st1, fr, k, enum_start=enum_start)
        if isinstance(it, Ref) and it.kind == "iter":
            from . import generators
            return generators.iter_loop(eng, s, it, st1, fr, k, enum_start=enum_start)
        return cut_loop(eng, s, it, st1, fr, k)
    return eng.ev(s.iter, st, fr, with_iter)


def unrolled(eng, s, items, st, fr, k):
    def go(i, st1):
        if i == len(items):
            return eng.ex(s.orelse, st1, fr, k)
        fr_body = fr.with_(brk=lambda s2: k(s2), cont=lambda s2: go(i + 1, s2))
        return eng.assign(s.target, items[i], st1, fr,
                          lambda s2: eng.ex(s.body, s2, fr_body, lambda s3: go(i + 1, s3)), s)
    return go(0, st)


def cut_loop(eng, s, it, st, fr, k):
    ordinal, spec = _loop_spec(eng, s, fr)
    pre = f"loop{ordinal}"
    n, elem = iteration_space(eng, it, st, s)
    target_names = [x.id for x in ast.walk(s.target) if isinstance(x, ast.Name)]
    # iterating over an array / list that the body mutates structurally is outside the subset
    eng.oblige_clauses("invariant-init", pre, st, _inv(eng, spec, st, fr, {"k_": z3.IntVal(0), "n_": n}), s)
    # alias information: loop targets alias the iterated array
    extra_alias = {}
    root = _iter_root(s.iter)
    if root:
        for tn in target_names:
            extra_alias[tn] = {root}
    sh0 = havoc(eng, st, s.body, extra_alias, also_names=target_names, ordinal=ordinal)
    kk = eng.fresh("k")
    # -- arbitrary iteration
    sh = sh0
    for _, f in _norm(_inv(eng, spec, sh, fr, {"k_": kk, "n_": n})):
        sh = sh.assume(eng.S.b(f))
    sh_it = sh.assume(z3.And(0 <= kk, kk < n))

    def body_end(s2):
        eng.oblige_clauses("invariant-preserve", pre, s2, _inv(eng, spec, s2, fr, {"k_": kk + 1, "n_": n}), s)
        _body_ensures(eng, spec, s2, fr, {"k_": kk, "n_": n}, pre, s)
        _ghost_frame(eng, sh_it, s2, ordinal, pre, s)
        eng.canary(f"{pre}:body-end", s2, s)
    fr_body = fr.with_(brk=brk_of(eng, spec, pre, k, s), cont=body_end)
    eng.assign(s.target, elem(kk, sh_it), sh_it, fr, lambda s2: eng.ex(s.body, s2, fr_body, body_end), s)
    # -- exit after exhaustion: position == n.  The loop variable keeps its last value (if any).
    se = sh0
    for _, f in _norm(_inv(eng, spec, se, fr, {"k_": n, "n_": n})):
        se = se.assume(eng.S.b(f))
    se = se.assume(n >= 0)
    if getattr(spec, "on_exit", None):
        se = spec.on_exit(eng, se)
    return eng.ex(s.orelse, se, fr, k)


def _iter_root(e):
    if isinstance(e, ast.Call) and dotted_name(e.func) in ("enumerate", "zip") and e.args:
        e = e.args[0] if dotted_name(e.func) == "enumerate" else e.args[0]
    while isinstance(e, (ast.Subscript, ast.Attribute)):
        e = e.value
    if isinstance(e, ast.Name):
        return e.id
    return None
