import sys
sys.path[:0]=['/verif','/verif/.deps']
sys.setrecursionlimit(100000)
from pyvc.contract import generate, REG
import contracts.all, z3
c = REG.contracts[sys.argv[1]]
run = generate(c)
for vc in run.vcs:
    if vc.kind == sys.argv[2] and sys.argv[3] in vc.label:
        print(vc.label, vc.line)
        for h in vc.hyps: print("  H", str(h)[:300])
        print("  GOAL", str(vc.goal)[:400])
        break
