import sys
sys.path[:0]=['/verif','/verif/.deps']
sys.setrecursionlimit(100000)
from pyvc.contract import generate, REG
from pyvc.solve import to_smt2
import contracts.all, z3
c = REG.contracts[sys.argv[1]]
run = generate(c)
print(run.error, len(run.vcs))
for vc in run.vcs:
    t = to_smt2(vc)
    s = z3.Solver()
    try:
        s.from_string(t)
    except Exception as e:
        print("BAD VC", vc.kind, vc.label)
        import re
        for line in t.splitlines():
            if "declare" in line and ("(" in line.split()[1] or " " in line.split("|")[1] if "|" in line else False):
                print(line[:200])
        open('/tmp/bad.smt2','w').write(t)
        break
