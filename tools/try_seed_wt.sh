#!/bin/bash
# usage: try_seed_wt.sh <patch.diff> <prop> [<prop> ...]
# Like try_seed.sh but in a scratch worktree of /repo (so /repo stays untouched and other checks can run meanwhile):
# the VC generator reads the worktree (VERIF_REPO), the stand-ins import strax from it (PYTHONPATH), outputs go to a scratch dir.
P="$(readlink -f "$1")"; shift
WT=$(mktemp -d /tmp/seedwt_XXXXXX); OUT=$(mktemp -d /tmp/seedout_XXXXXX)
rmdir "$WT"
git -C /repo worktree add -q --detach "$WT" HEAD || exit 9
trap 'git -C /repo worktree remove --force "$WT" >/dev/null 2>&1; git -C /repo worktree prune; rm -rf "$OUT"' EXIT INT TERM
git -C "$WT" apply "$P" || { echo "patch does not apply"; exit 8; }
for prop in "$@"; do
  out=$(cd /verif && VERIF_REPO="$WT" VERIF_OUT="$OUT" PYTHONPATH="$WT" timeout ${SEED_TIMEOUT:-1000} ./vcheck "$prop" --tier quick 2>&1 | grep -E "^(VIOLATION|UNDECIDED|CHECKER-ERROR|KNOWN|C[0-9]+:)" | cut -c1-330)
  echo "--- $prop:"; echo "$out" | head -8
done
