#!/bin/bash
# run every registered quick check on /repo itself (evidence rewritten), 3 at a time; summary in scratch/run_all.txt
cd /verif
: > scratch/run_all.txt
run() { p=$1; ./vcheck $p --tier quick > scratch/run_$p.log 2>&1; e=$?; echo "$p exit=$e $(grep -E '^C[0-9]+:' scratch/run_$p.log | tail -1) $(grep -c '^VIOLATION' scratch/run_$p.log) violation-lines $(grep -c '^KNOWN-FINDING' scratch/run_$p.log) known" >> scratch/run_all.txt; }
n=0
for p in C01 C02 C03 C04 C05 C06 C07 C08 C09 C10 C11 C12 C13 C14 C15 C16 C17 C18 C19; do
  run $p &
  n=$((n+1))
  if [ $((n % 3)) -eq 0 ]; then wait; fi
done
wait
echo finished >> scratch/run_all.txt
