#!/bin/bash
# run every claimed check under several seeds; print non-zero exits
cd "$(dirname "$0")/.."
for p in $(python3 -c "import json;print(' '.join(c['property_id'] for c in json.load(open('MANIFEST.json'))['checks']))"); do
  for sd in ${SEEDS:-1 2 3 4 5 6 7 8}; do
    out=$(VERIF_SEED=$sd timeout 1200 ./vcheck $p --tier ${TIER:-quick} 2>&1); rc=$?
    if [ $rc -ne 0 ]; then echo "$p seed=$sd rc=$rc"; echo "$out" | grep -E "^(VIOLATION|UNDECIDED|CHECKER)" | cut -c1-300 | head -5; fi
  done
  echo "$p done"
done
