#!/bin/bash
# usage: try_seed.sh <patch.diff> <prop> [<prop> ...]   - apply a seeded change to /repo, run checks, ALWAYS revert
P="$1"; shift
cd /repo || exit 9
git diff --quiet || { echo "repo dirty"; exit 9; }
trap 'git -C /repo checkout -- . ' EXIT INT TERM
git apply "$P" || { echo "patch does not apply"; exit 8; }
for prop in "$@"; do
  out=$(cd /verif && timeout ${SEED_TIMEOUT:-1000} ./vcheck "$prop" --tier quick 2>&1 | grep -E "^(VIOLATION|UNDECIDED|CHECKER-ERROR|KNOWN|C[0-9]+:)" | cut -c1-330)
  echo "--- $prop:"; echo "$out" | head -8
done
