"""after tools/sweep_all.sh: write what the final sweep observed for every stored seed into its meta.json (field
``observed_in_final_sweep``) and print a summary table"""
import json, os, re, sys
root = "/verif/seeded"
logs = "/verif/scratch/sweepall"
rows = []
for sid in sorted(os.listdir(root)):
    mp = os.path.join(root, sid, "meta.json")
    lp = os.path.join(logs, sid + ".log")
    if not os.path.exists(mp) or not os.path.exists(lp):
        rows.append((sid, "no log", 0, 0))
        continue
    text = open(lp).read()
    obs = []
    for line in text.splitlines():
        if line.startswith("VIOLATION"):
            m = re.search(r"obligation=['\"](.*)", line)
            o = (m.group(1) if m else line)[:230]
            o = re.sub(r"@\d+#\d+.*$", "", o)
            if o not in obs:
                obs.append(o)
    errs = [l[:200] for l in text.splitlines() if l.startswith("CHECKER-ERROR")]
    summary = [l for l in text.splitlines() if re.match(r"^C\d\d: ", l)]
    meta = json.load(open(mp))
    meta["observed_in_final_sweep"] = {"violation_lines": text.count("\nVIOLATION") + text.startswith("VIOLATION"),
                                       "distinct_obligations": obs[:4], "checker_errors": errs[:2],
                                       "summary": summary[-1][:200] if summary else None}
    json.dump(meta, open(mp, "w"), indent=1)
    rows.append((sid, "DETECTED" if obs else "MISSED", len(obs), len(errs)))
for r in rows:
    print(*r)
print("detected", sum(1 for r in rows if r[1] == "DETECTED"), "of", len(rows))
