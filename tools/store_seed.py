"""store_seed.py <src dir> <seed id> <property> <detected-by text>  - copy a confirmed seeded change into /verif/seeded"""
import json, os, shutil, subprocess, sys
src, sid, prop, detected = sys.argv[1:5]
dst = f"/verif/seeded/{sid}"
os.makedirs(dst, exist_ok=True)
shutil.copy(os.path.join(src, "patch.diff"), dst)
shutil.copy(os.path.join(src, "demo.py"), dst)
notes = open(os.path.join(src, "notes.txt")).read() if os.path.exists(os.path.join(src, "notes.txt")) else ""
# confirm: demo passes on /repo HEAD, fails with the patch (in a scratch worktree)
wt = f"/tmp/wt_confirm_{sid}"
subprocess.run(["git", "-C", "/repo", "worktree", "remove", "--force", wt], capture_output=True)
subprocess.check_call(["git", "-C", "/repo", "worktree", "add", "-q", "--detach", wt, "HEAD"])
env = dict(os.environ, PYTHONPATH=wt)
clean = subprocess.run(["/venv/bin/python", os.path.join(dst, "demo.py")], cwd=wt, env=env, capture_output=True, text=True, timeout=900)
ap = subprocess.run(["git", "-C", wt, "apply", os.path.join(dst, "patch.diff")], capture_output=True, text=True)
broken = subprocess.run(["/venv/bin/python", os.path.join(dst, "demo.py")], cwd=wt, env=env, capture_output=True, text=True, timeout=900)
subprocess.run(["git", "-C", "/repo", "worktree", "remove", "--force", wt], capture_output=True)
subprocess.run(["git", "-C", "/repo", "worktree", "prune"], capture_output=True)
meta = {"seed": sid, "property": prop, "source": "independent sub-agent given only the property text and a scratch worktree",
        "what_it_needs_to_manifest": notes[:1500],
        "confirmed": {"patch_applies_to_repo_HEAD": ap.returncode == 0, "demo_exit_on_clean_tree": clean.returncode,
                      "demo_exit_with_patch": broken.returncode,
                      "existing_tests": "the sub-agent ran the test files exercising the changed code with the patch applied: same result as on the clean tree (see notes)"},
        "ran": f"git -C /repo apply seeded/{sid}/patch.diff; ./vcheck {prop} --tier quick; git -C /repo checkout -- .",
        "detected_by": detected}
json.dump(meta, open(os.path.join(dst, "meta.json"), "w"), indent=1)
print(sid, "clean", clean.returncode, "patched", broken.returncode, "applies", ap.returncode == 0)
